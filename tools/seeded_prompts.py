#!/usr/bin/env python3
"""
Developer helper: write the prompt for the next round of independent sub-agents, one file per property.
The prompt holds only the property text (from properties.jsonl) and the list of changes already explored
(the `change` lines of seeded/NOTES.json) -- nothing about the checks.

  tools/seeded_prompts.py <outdir> [ids...]
"""
import json
import os
import string
import sys

VERIF = os.path.dirname(os.path.dirname(os.path.abspath(__file__)))

TEMPLATE = open(os.path.join(VERIF, 'tools', 'seeded_prompt_template.txt')).read()


def main():
    out = sys.argv[1]
    want = set(a.upper() for a in sys.argv[2:])
    os.makedirs(out, exist_ok=True)
    notes = json.load(open(os.path.join(VERIF, 'seeded', 'NOTES.json')))
    for line in open(os.path.join(VERIF, 'properties.jsonl')):
        p = json.loads(line)
        pid = p['id']
        if want and pid not in want:
            continue
        done = sorted(k for k in notes if k[:3] == pid)
        used = set(k[3:] for k in done)
        # also letters delivered but not stored
        letters = [c for c in string.ascii_lowercase if c not in used]
        k1, k2 = letters[0], letters[1]
        explored = '\n'.join(' - %s' % notes[k]['change'] for k in done) or ' - (none yet)'
        anchors = ', '.join(p['anchors']['files'])
        text = TEMPLATE
        for a, b in (('{ID}', pid), ('{TITLE}', p['title']), ('{STATEMENT}', p['statement']),
                     ('{QUANT}', p['quantifier']['text']), ('{ANCHORS}', anchors),
                     ('{EXPLORED}', explored), ('{K1}', k1), ('{K2}', k2)):
            text = text.replace(a, b)
        open(os.path.join(out, pid + '.txt'), 'w').write(text)
        print(pid, k1, k2, len(done))


if __name__ == '__main__':
    main()

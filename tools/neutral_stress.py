#!/usr/bin/env python3
"""
Developer helper (not a registered check): false-alarm stress test of the rules.

For one property (or all), record which functions the rule module anchors in
(every Ctx.fn() request), then for each anchored function build behaviour-
preserving variants of today's tree in memory and run the rules on them:
  * rename:<local>   every local variable (not a parameter) renamed
  * noop-first       a string-expression statement inserted as first statement
  * swap-eq-operands every `a == b` / `a != b` of the function written as `b == a` / `b != a`
A variant that produces a new finding or an analysis error marks a rule that
depends on the spelling rather than the behaviour of the code.  Results go to
stdout and /verif/seeded/NEUTRAL_STRESS.json.

  tools/neutral_stress.py [C19 ...] [--jobs N]
"""
import ast
import copy
import importlib
import json
import multiprocessing
import os
import sys

VERIF = os.path.dirname(os.path.dirname(os.path.abspath(__file__)))
sys.path.insert(0, VERIF)

from pcbverif.source import SourceIndex, AnalysisError, qualname  # noqa
from pcbverif.context import Ctx  # noqa
from pcbverif.report import Report  # noqa
from pcbverif import mutate as mu  # noqa

_G = {}


def anchored(prop, base):
    mod = importlib.import_module('pcbverif.rules.%s' % prop.lower())
    seen = []
    ctx = Ctx(base, 'quick')
    orig = ctx.fn

    def rec(spec):
        n = orig(spec)
        if spec not in seen:
            seen.append(spec)
        return n
    ctx.fn = rec
    rep = Report(prop, 'quick')
    try:
        mod.check(ctx, rep)
    except AnalysisError as e:
        rep.error(str(e))
    keys = [(f.rule, f.construct) for f in rep.findings]
    return mod, seen, keys, list(rep.errors)


def local_names(fn):
    params = set(a.arg for a in fn.args.args + fn.args.kwonlyargs)
    if fn.args.vararg:
        params.add(fn.args.vararg.arg)
    if fn.args.kwarg:
        params.add(fn.args.kwarg.arg)
    names = []
    for n in ast.walk(fn):
        if isinstance(n, ast.Name) and isinstance(n.ctx, ast.Store) and n.id not in params and n.id not in names and not n.id.startswith('__'):
            names.append(n.id)
    # skip names that are also globals/nonlocals declared
    for n in ast.walk(fn):
        if isinstance(n, (ast.Global, ast.Nonlocal)):
            names = [x for x in names if x not in n.names]
    return names


def build_variants(specs, base):
    out = []
    for spec in specs:
        path, dotted = spec.split(':')
        try:
            fn = base.locate(spec)
        except Exception:
            continue
        if not isinstance(fn, ast.FunctionDef):
            continue
        for name in local_names(fn):
            out.append(mu.Variant('%s rename:%s' % (spec, name), 'neutral', path,
                                  (lambda d, o: (lambda tree: mu.rename_local(mu.find_def(tree, d), o, o + '_rn')))(dotted, name)))
        if any(isinstance(c, ast.Compare) and len(c.ops) == 1 and isinstance(c.ops[0], (ast.Eq, ast.NotEq)) for c in ast.walk(fn)):
            out.append(mu.Variant('%s swap-eq-operands' % spec, 'neutral', path, (lambda d: (lambda tree: _swap_eq(mu.find_def(tree, d))))(dotted)))
        out.append(mu.Variant('%s noop-first' % spec, 'neutral', path,
                              (lambda d: (lambda tree: mu.insert_first(mu.find_def(tree, d), "'no operation'")))(dotted)))
        if _G.get('extra'):
            for kind, tr in (('inline-result', _inline_result), ('outline-result', _outline_result), ('if-else-swap', _if_else_swap), ('augassign-expand', _aug_expand)):
                probe = copy.deepcopy(fn)
                for x in ast.walk(probe):
                    for ch in ast.iter_child_nodes(x):
                        ch._parent = x
                if tr(probe):
                    out.append(mu.Variant('%s %s' % (spec, kind), 'neutral', path, (lambda d, t: (lambda tree: t(mu.find_def(tree, d))))(dotted, tr)))
    return out


def _blocks(fn):
    for n in ast.walk(fn):
        for fld in ('body', 'orelse', 'finalbody'):
            b = getattr(n, fld, None)
            if isinstance(b, list) and b and isinstance(b[0], ast.stmt):
                yield b


def _inline_result(fn):
    """`v = e` directly followed by `return v`  ->  `return e`"""
    n = 0
    for b in _blocks(fn):
        for i in range(len(b) - 1):
            a, r = b[i], b[i + 1]
            if isinstance(a, ast.Assign) and len(a.targets) == 1 and isinstance(a.targets[0], ast.Name) and isinstance(r, ast.Return) \
                    and isinstance(r.value, ast.Name) and r.value.id == a.targets[0].id:
                uses = [x for x in ast.walk(fn) if isinstance(x, ast.Name) and x.id == a.targets[0].id]
                if len(uses) == 2:
                    b[i:i + 2] = [ast.copy_location(ast.Return(value=a.value), a)]
                    n += 1
                    break
    return n > 0


def _outline_result(fn):
    """`return <call>`  ->  `outlined_ = <call>; return outlined_`"""
    n = 0
    for b in _blocks(fn):
        for i, r in enumerate(list(b)):
            if isinstance(r, ast.Return) and isinstance(r.value, ast.Call):
                a = ast.copy_location(ast.Assign(targets=[ast.Name(id='outlined_', ctx=ast.Store())], value=r.value), r)
                b[b.index(r):b.index(r) + 1] = [a, ast.copy_location(ast.Return(value=ast.Name(id='outlined_', ctx=ast.Load())), r)]
                n += 1
    if n:
        ast.fix_missing_locations(fn)
    return n > 0


def _if_else_swap(fn):
    """`if c: A else: B`  ->  `if not c: B else: A` (plain else only)"""
    n = 0
    for x in ast.walk(fn):
        if isinstance(x, ast.If) and x.orelse and not (len(x.orelse) == 1 and isinstance(x.orelse[0], ast.If)):
            par = getattr(x, '_parent', None)
            if isinstance(par, ast.If) and par.orelse == [x]:
                continue   # an elif arm
            x.test = ast.copy_location(ast.UnaryOp(op=ast.Not(), operand=x.test), x.test)
            x.body, x.orelse = x.orelse, x.body
            n += 1
    if n:
        ast.fix_missing_locations(fn)
    return n > 0


def _aug_expand(fn):
    """`x += <number>`  ->  `x = x + <number>` for plain names"""
    n = 0
    for b in _blocks(fn):
        for i, a in enumerate(b):
            if isinstance(a, ast.AugAssign) and isinstance(a.target, ast.Name) and isinstance(a.value, ast.Constant) and isinstance(a.value.value, int):
                b[i] = ast.copy_location(ast.Assign(targets=[ast.Name(id=a.target.id, ctx=ast.Store())],
                                                    value=ast.BinOp(left=ast.Name(id=a.target.id, ctx=ast.Load()), op=a.op, right=a.value)), a)
                n += 1
    if n:
        ast.fix_missing_locations(fn)
    return n > 0


def _swap_eq(fn):
    """a == b  ->  b == a (and !=) for every simple comparison of the function."""
    n = 0
    for c in ast.walk(fn):
        if isinstance(c, ast.Compare) and len(c.ops) == 1 and isinstance(c.ops[0], (ast.Eq, ast.NotEq)):
            c.left, c.comparators[0] = c.comparators[0], c.left
            n += 1
    return n > 0


def run_one(i):
    prop, v = _G['jobs'][i]
    mod = importlib.import_module('pcbverif.rules.%s' % prop.lower())
    base = _G['base']
    try:
        idx = SourceIndex(overlay=v.overlay(base), base=base)
        rep = Report(prop, 'quick')
        try:
            mod.check(Ctx(idx, 'quick'), rep)
        except AnalysisError as e:
            rep.error(str(e))
        return i, [(f.rule, f.construct) for f in rep.findings], list(rep.errors), None
    except Exception as e:
        return i, [], [], '%s: %s' % (type(e).__name__, e)


def main():
    args = [a for a in sys.argv[1:] if not a.startswith('--')]
    jobs = 16
    if '--jobs' in sys.argv:
        jobs = int(sys.argv[sys.argv.index('--jobs') + 1])
        args = [a for a in args if a != str(jobs)]
    _G['extra'] = '--extra' in sys.argv
    props = args or sorted(f[:-3].upper() for f in os.listdir(os.path.join(VERIF, 'pcbverif', 'rules')) if f.startswith('c') and f.endswith('.py'))
    base = SourceIndex()
    _G['base'] = base
    alljobs = []
    basekeys = {}
    for p in props:
        mod, specs, keys, errs = anchored(p, base)
        basekeys[p] = (keys, errs)
        vs = build_variants(specs, base)
        print('%s: %d anchored functions, %d neutral variants' % (p, len(specs), len(vs)))
        alljobs += [(p, v) for v in vs]
    _G['jobs'] = alljobs
    ctxmp = multiprocessing.get_context('fork')
    with ctxmp.Pool(jobs) as pool:
        results = pool.map(run_one, range(len(alljobs)), chunksize=4)
    alarms = {}
    for i, keys, errs, exc in results:
        p, v = alljobs[i]
        bk, be = basekeys[p]
        new = [k for k in keys if k not in bk]
        newerr = [e for e in errs if e not in be]
        if exc and 'changed nothing' in exc:
            continue
        if new or newerr or exc:
            alarms.setdefault(p, []).append({'variant': v.name, 'new_findings': new[:3], 'errors': (newerr or ([exc] if exc else []))[:2]})
    total = len(alljobs)
    bad = sum(len(v) for v in alarms.values())
    for p in sorted(alarms):
        print('== %s: %d alarms' % (p, len(alarms[p])))
        for a in alarms[p][:60]:
            print('   ', a['variant'], '->', (a['new_findings'] or a['errors'])[:1])
    print('TOTAL %d neutral variants, %d raised an alarm' % (total, bad))
    out = os.path.join(VERIF, 'seeded', 'NEUTRAL_STRESS.json')
    prev = json.load(open(out)) if os.path.exists(out) else {}
    for p in props:
        prev[p] = {'variants': len([1 for q, v in alljobs if q == p]), 'alarms': alarms.get(p, [])}
    json.dump(prev, open(out, 'w'), indent=1, sort_keys=True)


if __name__ == '__main__':
    main()

#!/usr/bin/env python3
"""
Developer helper: regenerate /verif/seeded/README.md (and the table between the
SEEDED-TABLE markers in DESIGN.md) from seeded/*/meta.json, seeded/RESULTS.json
and seeded/NOTES.json (hand-written one-line notes on misses and on rules added).
"""
import json
import os
import re

VERIF = os.path.dirname(os.path.dirname(os.path.abspath(__file__)))
SEEDED = os.path.join(VERIF, 'seeded')


def first_line(text):
    for l in text.splitlines():
        l = l.strip()
        if l:
            return l
    return ''


def main():
    res = json.load(open(os.path.join(SEEDED, 'RESULTS.json')))
    notes = {}
    p = os.path.join(SEEDED, 'NOTES.json')
    if os.path.exists(p):
        notes = json.load(open(p))
    rows = []
    caught = own = 0
    ids = sorted(d for d in os.listdir(SEEDED) if os.path.isdir(os.path.join(SEEDED, d)))
    for sid in ids:
        meta = json.load(open(os.path.join(SEEDED, sid, 'meta.json')))
        r = res.get(sid, {})
        det = r.get('detected_by', [])
        rules = []
        for k in det:
            for l in r.get('reports', {}).get(k, [])[:1]:
                m = re.match(r'rule=(\S+)', l)
                if m:
                    rules.append('%s `%s`' % (k, m.group(1)))
        what = notes.get(sid, {}).get('change') or first_line(meta.get('needs_to_manifest', ''))[:150]
        note = notes.get(sid, {}).get('note', '')
        if det:
            caught += 1
        if meta['property'] in det:
            own += 1
        rows.append('| %s | %s | %s | %s | %s |' % (
            sid, ', '.join(os.path.basename(f) for f in meta['files_changed']), what.replace('|', '/'),
            '; '.join(rules) if rules else '**not reported**', note.replace('|', '/')))
    head = [
        '%d seeded changes from independent sub-agents (property text + scratch worktree only), each confirmed by' % len(ids),
        '`tools/seeded_add.py` (demo flips HOLDS -> VIOLATED, compiles, all 252 baseline tests pass) and evaluated by',
        '`tools/seeded_run_all.py` (`git -C /repo apply`, every quick check, `git -C /repo checkout -- .`).',
        '**%d of %d are reported by at least one check, %d by the check of the property they were written against.**' % (caught, len(ids), own),
        '"rule added" in the last column means the change was missed at first and the named rule was written',
        '(or generalised) afterwards; it was then re-run against all stored changes and the unchanged tree.',
        '',
        '| id | file(s) | change | reported by (first rule) | note |',
        '|---|---|---|---|---|',
    ]
    text = '\n'.join(head + rows) + '\n'
    with open(os.path.join(SEEDED, 'README.md'), 'w') as f:
        f.write('# Seeded changes\n\n' + text)
    dp = os.path.join(VERIF, 'DESIGN.md')
    d = open(dp).read()
    a, b = '<!-- SEEDED-TABLE-BEGIN -->', '<!-- SEEDED-TABLE-END -->'
    if a in d and b in d:
        d = d[:d.index(a) + len(a)] + '\n' + text + d[d.index(b):]
        open(dp, 'w').write(d)
    print('%d seeds, %d caught, %d by own check' % (len(ids), caught, own))


if __name__ == '__main__':
    main()

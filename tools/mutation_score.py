#!/usr/bin/env python3
"""
Developer helper (not a registered check): how much of the code each rule module anchors in do its rules actually look at?

For every function a rule module requests (Ctx.fn), generic single-point mutants are built in memory -- a relational
operator changed (< <= > >= == !=), `and` <-> `or`, a small integer constant +1, `not` dropped, a call / assignment
statement deleted -- and the rules are run on each.  A mutant that produces no new finding and no analysis error is a
place where the rules are blind.  Many such mutants are equivalent or would be killed by the test suite; the list is a
map of where to look, not a list of defects.  Output: per property the share of mutants flagged, and the unflagged
mutants per function, in /verif/seeded/MUTATION_SCORE.json.

  tools/mutation_score.py [C19 ...] [--jobs N] [--max-per-function K]
"""
import ast
import copy
import importlib
import json
import multiprocessing
import os
import sys

VERIF = os.path.dirname(os.path.dirname(os.path.abspath(__file__)))
sys.path.insert(0, VERIF)

from pcbverif.source import SourceIndex, AnalysisError, norm  # noqa
from pcbverif.context import Ctx  # noqa
from pcbverif.report import Report  # noqa
from pcbverif import mutate as mu  # noqa

_G = {}

FLIP = {ast.Lt: ast.LtE, ast.LtE: ast.Lt, ast.Gt: ast.GtE, ast.GtE: ast.Gt, ast.Eq: ast.NotEq, ast.NotEq: ast.Eq, ast.In: ast.NotIn, ast.NotIn: ast.In,
        ast.Is: ast.IsNot, ast.IsNot: ast.Is}


def sites(fn):
    """[(kind, index, description)]: mutation sites of a function, addressed by their index in ast.walk order."""
    out = []
    for i, n in enumerate(ast.walk(fn)):
        if isinstance(n, ast.Compare) and len(n.ops) == 1 and type(n.ops[0]) in FLIP:
            out.append(('relop', i, ast.unparse(n)[:60]))
        elif isinstance(n, ast.BoolOp):
            out.append(('boolop', i, ast.unparse(n)[:60]))
        elif isinstance(n, ast.Constant) and isinstance(n.value, int) and not isinstance(n.value, bool) and 0 <= n.value <= 300:
            out.append(('const', i, repr(n.value)))
        elif isinstance(n, ast.UnaryOp) and isinstance(n.op, ast.Not):
            out.append(('not', i, ast.unparse(n)[:60]))
        elif isinstance(n, (ast.Expr, ast.Assign, ast.AugAssign)) and not (isinstance(n, ast.Expr) and isinstance(n.value, ast.Constant)):
            out.append(('del', i, ast.unparse(n)[:60]))
    return out


def apply(fn, kind, index):
    nodes = list(ast.walk(fn))
    if index >= len(nodes):
        return False
    n = nodes[index]
    if kind == 'relop':
        n.ops[0] = FLIP[type(n.ops[0])]()
    elif kind == 'boolop':
        n.op = ast.Or() if isinstance(n.op, ast.And) else ast.And()
    elif kind == 'const':
        n.value = n.value + 1
    elif kind == 'not':
        for p in nodes:
            for f, v in ast.iter_fields(p):
                if v is n:
                    setattr(p, f, n.operand)
                    return True
                if isinstance(v, list) and n in v:
                    v[v.index(n)] = n.operand
                    return True
        return False
    elif kind == 'del':
        for p in nodes:
            for f in ('body', 'orelse', 'finalbody'):
                b = getattr(p, f, None)
                if isinstance(b, list) and n in b:
                    if len(b) == 1:
                        b[0] = ast.copy_location(ast.Pass(), n)
                    else:
                        b.remove(n)
                    return True
        return False
    return True


def anchored(prop, base):
    mod = importlib.import_module('pcbverif.rules.%s' % prop.lower())
    seen = []
    ctx = Ctx(base, 'quick')
    orig = ctx.fn

    def rec(spec):
        n = orig(spec)
        if spec not in seen:
            seen.append(spec)
        return n
    ctx.fn = rec
    rep = Report(prop, 'quick')
    try:
        mod.check(ctx, rep)
    except AnalysisError as e:
        rep.error(str(e))
    return seen, [(f.rule, f.construct) for f in rep.findings], list(rep.errors)


def run_one(i):
    prop, spec, kind, index, desc = _G['jobs'][i]
    path, dotted = spec.split(':')
    mod = importlib.import_module('pcbverif.rules.%s' % prop.lower())
    base = _G['base']
    v = mu.Variant('m', 'break', path, (lambda d, k, ix: (lambda tree: apply(mu.find_def(tree, d), k, ix)))(dotted, kind, index))
    try:
        idx = SourceIndex(overlay=v.overlay(base), base=base)
        rep = Report(prop, 'quick')
        try:
            mod.check(Ctx(idx, 'quick'), rep)
        except AnalysisError as e:
            rep.error(str(e))
        return i, [(f.rule, f.construct) for f in rep.findings], list(rep.errors), None
    except Exception as e:
        return i, [], [], '%s: %s' % (type(e).__name__, e)


def main():
    args = [a for a in sys.argv[1:] if not a.startswith('--')]
    jobs = 16
    cap = 40
    if '--jobs' in sys.argv:
        jobs = int(sys.argv[sys.argv.index('--jobs') + 1])
        args = [a for a in args if a != str(jobs)]
    if '--max-per-function' in sys.argv:
        cap = int(sys.argv[sys.argv.index('--max-per-function') + 1])
        args = [a for a in args if a != str(cap)]
    props = args or sorted(f[:-3].upper() for f in os.listdir(os.path.join(VERIF, 'pcbverif', 'rules')) if f.startswith('c') and f.endswith('.py'))
    base = SourceIndex()
    _G['base'] = base
    alljobs = []
    basekeys = {}
    for p in props:
        specs, keys, errs = anchored(p, base)
        basekeys[p] = (keys, errs)
        for spec in specs:
            try:
                fn = base.locate(spec)
            except Exception:
                continue
            if not isinstance(fn, ast.FunctionDef):
                continue
            ss = sites(fn)
            step = max(1, len(ss) // cap)
            for kind, index, desc in ss[::step][:cap]:
                alljobs.append((p, spec, kind, index, desc))
    _G['jobs'] = alljobs
    print('%d mutants over %d properties' % (len(alljobs), len(props)))
    ctxmp = multiprocessing.get_context('fork')
    with ctxmp.Pool(jobs) as pool:
        results = pool.map(run_one, range(len(alljobs)), chunksize=8)
    score = {}
    for i, keys, errs, exc in results:
        p, spec, kind, index, desc = alljobs[i]
        bk, be = basekeys[p]
        flagged = bool([k for k in keys if k not in bk] or [e for e in errs if e not in be] or (exc and 'nothing to change' not in exc))
        d = score.setdefault(p, {'mutants': 0, 'flagged': 0, 'blind': {}})
        d['mutants'] += 1
        if flagged:
            d['flagged'] += 1
        else:
            d['blind'].setdefault(spec.split(':')[1], []).append('%s %s' % (kind, desc))
    for p in sorted(score):
        d = score[p]
        print('%s: %d/%d flagged (%.0f%%)' % (p, d['flagged'], d['mutants'], 100.0 * d['flagged'] / max(1, d['mutants'])))
    out = os.path.join(VERIF, 'seeded', 'MUTATION_SCORE.json')
    prev = json.load(open(out)) if os.path.exists(out) else {}
    prev.update(score)
    json.dump(prev, open(out, 'w'), indent=1, sort_keys=True)


if __name__ == '__main__':
    main()

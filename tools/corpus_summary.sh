#!/bin/sh
# developer helper (not a registered check): run the repository's recorded GW-BASIC corpus and print a compact summary
cd /repo && /venv/bin/python -m tests --fast > "${1:-/tmp/basic_run.txt}" 2>&1
sed 's/\x1b\[[0-9;]*m//g' "${1:-/tmp/basic_run.txt}" | grep "Running test" | awk '{print $NF, $(NF-2)}' | sort | awk '{c[$1]++; if($1=="failed." || $1=="crashed." || $1=="exception.") print} END{for(k in c) print "COUNT",k,c[k]}' | sort

#!/usr/bin/env python3
"""
Developer helper: confirm a sub-agent's seeded change in a scratch worktree and,
if it is confirmed (demo flips HOLDS -> VIOLATED, compiles, pinned suite passes),
store it as /verif/seeded/<id>/ {patch.diff, demo.py, notes.txt, meta.json}.

  tools/seeded_add.py <id e.g. C26a> [srcdir=/tmp/seedout/<prop>]
"""
import json
import os
import shutil
import sys

sys.path.insert(0, os.path.dirname(os.path.abspath(__file__)))
import seeded_eval as se

VERIF = se.VERIF


def main():
    sid = sys.argv[1]
    prop = sid[:3]
    src = sys.argv[2] if len(sys.argv) > 2 else '/tmp/seedout/%s' % prop
    patch = os.path.join(src, sid + '.patch')
    demo = os.path.join(src, sid + '_demo.py')
    notes = os.path.join(src, sid + '_notes.txt')
    if not (os.path.exists(patch) and os.path.exists(demo)):
        print(json.dumps({'id': sid, 'error': 'missing patch or demo'}))
        return 2
    r = se.confirm(prop, patch, demo)
    r['id'] = sid
    if not r.get('confirmed'):
        print(json.dumps(r, indent=1))
        return 1
    d = os.path.join(VERIF, 'seeded', sid)
    os.makedirs(d, exist_ok=True)
    shutil.copy(patch, os.path.join(d, 'patch.diff'))
    shutil.copy(demo, os.path.join(d, 'demo.py'))
    if os.path.exists(notes):
        shutil.copy(notes, os.path.join(d, 'notes.txt'))
    note_text = open(notes).read() if os.path.exists(notes) else ''
    meta = {
        'id': sid,
        'property': prop,
        'origin': 'independent sub-agent given only the property text and a scratch worktree',
        'files_changed': r['files'],
        'diffstat': r['diffstat'],
        'needs_to_manifest': note_text.strip(),
        'confirmed_by': {
            'how': 'tools/seeded_eval.py confirm: scratch worktree of /repo HEAD under /tmp; demo.py on pristine tree, git apply, compileall, demo.py again, pinned pytest command compared with BASELINE stable_pass',
            'demo_pristine': r['demo_pristine'],
            'demo_patched': r['demo_patched'],
            'tests': r['tests_tail'],
            'baseline_tests_missing': r['tests_missing'],
        },
    }
    json.dump(meta, open(os.path.join(d, 'meta.json'), 'w'), indent=1)
    print(json.dumps({'id': sid, 'confirmed': True, 'stored': d, 'tests': r['tests_tail']}))
    return 0


if __name__ == '__main__':
    sys.exit(main())

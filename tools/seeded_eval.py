#!/usr/bin/env python3
"""
Developer helper (not a registered check): confirm and evaluate one seeded change.

  tools/seeded_eval.py confirm <prop> <patch> <demo.py>
      in a scratch worktree under /tmp: demo on pristine (must print PROPERTY-HOLDS),
      apply, compile, demo (must print PROPERTY-VIOLATED), pinned test suite
      (all BASELINE stable_pass tests must pass); worktree removed afterwards.
  tools/seeded_eval.py detect <prop> <patch> [--all]
      git -C /repo apply <patch>; run ./check <prop> --tier quick (or every claimed
      check with --all); always git -C /repo checkout -- . afterwards.
Prints one JSON object.
"""
import json
import os
import subprocess
import sys
import tempfile
import xml.etree.ElementTree as ET

REPO = '/repo'
VERIF = os.path.dirname(os.path.dirname(os.path.abspath(__file__)))
PY = '/venv/bin/python'


def sh(cmd, cwd=None, timeout=1800):
    p = subprocess.run(cmd, shell=True, cwd=cwd, stdout=subprocess.PIPE, stderr=subprocess.STDOUT, timeout=timeout)
    return p.returncode, p.stdout.decode('utf-8', 'replace')


def demo(wt, script):
    rc, out = sh('%s %s' % (PY, script), cwd=wt, timeout=300)
    # the verdict line may be padded, or interleaved with a traceback that a daemon thread prints on stderr at exit
    import re
    last = re.findall(r'RESULT: (?:PROPERTY-HOLDS|PROPERTY-VIOLATED)', out)
    return (last[-1] if last else 'NO-RESULT (rc=%d) %s' % (rc, out[-300:]))


def confirm(prop, patch, script):
    patch, script = os.path.abspath(patch), os.path.abspath(script)
    wt = tempfile.mkdtemp(prefix='seedwt_', dir='/tmp')
    os.rmdir(wt)
    out = {'property': prop, 'patch': patch}
    try:
        rc, o = sh('git -C %s worktree add --detach %s HEAD' % (REPO, wt))
        if rc:
            raise RuntimeError(o)
        out['demo_pristine'] = demo(wt, script)
        rc, o = sh('git apply %s' % patch, cwd=wt)
        out['applies'] = rc == 0
        if rc:
            out['apply_error'] = o[-300:]
            return out
        rc, o = sh('git diff --stat | tail -1', cwd=wt)
        out['diffstat'] = o.strip()
        rc, o = sh('git diff --name-only', cwd=wt)
        out['files'] = o.split()
        rc, o = sh('%s -m compileall -q pcbasic' % PY, cwd=wt)
        out['compiles'] = rc == 0
        out['demo_patched'] = demo(wt, script)
        base = set(json.load(open('/root/.vp/BASELINE.json'))['stable_pass'])
        missing = None
        for attempt in range(3):
            # tests/unit/test_dos.py::DosTest::test_interactive_shell is timing-sensitive under load: a test
            # counts as broken by the patch only if it fails in every one of up to three runs
            junit = wt + '/junit.xml'
            rc, o = sh('%s -m pytest -q -p no:cacheprovider --timeout=900 --continue-on-collection-errors --junitxml=%s' % (PY, junit), cwd=wt)
            ok = set()
            for tc in ET.parse(junit).iter('testcase'):
                if not [c for c in tc if c.tag in ('failure', 'error', 'skipped')]:
                    ok.add('%s::%s' % (tc.get('classname'), tc.get('name')))
            m = base - ok
            missing = m if missing is None else (missing & m)
            out['tests_tail'] = o.strip().splitlines()[-1]
            if not missing:
                break
        out['tests_missing'] = sorted(missing)
        out['test_runs'] = attempt + 1
        out['confirmed'] = (out['demo_pristine'].endswith('PROPERTY-HOLDS') and out['demo_patched'].endswith('PROPERTY-VIOLATED')
                            and out['compiles'] and not out['tests_missing'] and all(f.startswith('pcbasic/') for f in out['files']))
    finally:
        sh('git -C %s worktree remove --force %s' % (REPO, wt))
        sh('git -C %s worktree prune' % REPO)
    return out


def detect(prop, patch, everything=False, only=None):
    patch = os.path.abspath(patch)
    out = {'property': prop, 'patch': patch, 'checks': {}}
    rc, o = sh('git -C %s status --porcelain' % REPO)
    if o.strip():
        raise SystemExit('refusing: /repo working tree is not clean:\n' + o)
    rc, o = sh('git -C %s apply %s' % (REPO, patch))
    if rc:
        out['apply_error'] = o
        return out
    try:
        if everything:
            man = json.load(open(os.path.join(VERIF, 'MANIFEST.json')))
            ids = [c['property_id'] for c in man['checks']]
        else:
            ids = [prop]
        if only:
            ids = sorted(set(only) | {prop})
        procs = {}
        scratch = tempfile.mkdtemp(prefix='seedev_', dir='/tmp')
        env = dict(os.environ, PCBVERIF_EVIDENCE_DIR=scratch)
        for i in ids:
            procs[i] = subprocess.Popen('./check %s --tier quick' % i, shell=True, cwd=VERIF, stdout=subprocess.PIPE, stderr=subprocess.STDOUT, env=env)
        for i, p in procs.items():
            o = p.communicate()[0].decode('utf-8', 'replace')
            lines = [l for l in o.splitlines() if l.startswith(('VIOLATION', 'ANALYSIS-ERROR', '  '))]
            if p.returncode or i == prop:
                out['checks'][i] = {'exit': p.returncode, 'lines': lines[:12]}
        out['detected_by'] = sorted(i for i, r in out['checks'].items() if r['exit'] == 1)
        out['analysis_errors'] = sorted(i for i, r in out['checks'].items() if r['exit'] not in (0, 1))
    finally:
        sh('git -C %s checkout -- .' % REPO)
        sh('rm -rf /tmp/seedev_*')
    return out


if __name__ == '__main__':
    a = sys.argv[1:]
    if a[0] == 'confirm':
        r = confirm(a[1], a[2], a[3])
    else:
        r = detect(a[1], a[2], '--all' in a)
    print(json.dumps(r, indent=1))

#!/usr/bin/env python3
"""
Developer helper: run every claimed quick check against each stored seeded change
(git -C /repo apply, checks, git -C /repo checkout -- .) and record which checks
report it in /verif/seeded/RESULTS.json.

  tools/seeded_run_all.py            # all stored changes
  tools/seeded_run_all.py C26a C09b  # only these (results merged into the file)
  tools/seeded_run_all.py --narrow   # each change against its own check and the checks that reported it last time
"""
import json
import os
import sys

sys.path.insert(0, os.path.dirname(os.path.abspath(__file__)))
import seeded_eval as se

SEEDED = os.path.join(se.VERIF, 'seeded')
RESULTS = os.path.join(SEEDED, 'RESULTS.json')


def main():
    args = [a for a in sys.argv[1:] if not a.startswith('--')]
    narrow = '--narrow' in sys.argv   # only the seed's own check and the checks that reported it last time
    ids = args or sorted(d for d in os.listdir(SEEDED) if os.path.isdir(os.path.join(SEEDED, d)))
    res = json.load(open(RESULTS)) if os.path.exists(RESULTS) else {}
    for sid in ids:
        prop = sid[:3]
        only = sorted(set(res.get(sid, {}).get('detected_by', []) + [prop])) if narrow else None
        r = se.detect(prop, os.path.join(SEEDED, sid, 'patch.diff'), everything=not narrow, only=only)
        if 'apply_error' in r:
            res[sid] = {'property': prop, 'error': 'patch does not apply to /repo: ' + r['apply_error'][:200]}
            print(sid, 'APPLY-ERROR')
            continue
        rules = {}
        for k, v in r['checks'].items():
            if v['exit'] == 1:
                rules[k] = [l.strip() for l in v['lines'] if l.strip().startswith('rule=')][:4]
        res[sid] = {
            'property': prop,
            'detected_by': r['detected_by'],
            'own_check_detects': prop in r['detected_by'],
            'analysis_errors': dict((k, r['checks'][k]['lines'][:2]) for k in r['analysis_errors']),
            'reports': rules,
        }
        print(sid, 'detected_by', r['detected_by'], 'analysis_errors', r['analysis_errors'])
        json.dump(res, open(RESULTS, 'w'), indent=1, sort_keys=True)
    return 0


if __name__ == '__main__':
    sys.exit(main())

#!/usr/bin/env python3
"""
Developer helper: write pcbverif/locals_ref.json, the reference snapshot of local
variable names (per function, in order of first binding) that pcbverif/alpha.py
normalises against.  Re-run only when rules are re-confirmed against a new tree.
"""
import ast
import json
import os
import sys

VERIF = os.path.dirname(os.path.dirname(os.path.abspath(__file__)))
sys.path.insert(0, VERIF)
from pcbverif import alpha  # noqa

REPO = os.environ.get('PCBVERIF_REPO', '/repo')
out = {}
comp = {}
shape = {}
for root, dirs, files in os.walk(os.path.join(REPO, 'pcbasic')):
    for f in sorted(files):
        if f.endswith('.py'):
            p = os.path.join(root, f)
            rel = os.path.relpath(p, REPO)
            tree = ast.parse(open(p, encoding='utf-8').read())
            t = {}
            for dotted, fn in alpha.functions(tree):
                names, _ = alpha.local_order(fn)
                if names:
                    t[dotted] = names
            if t:
                out[rel] = t
            c = {}
            for dotted, fn in alpha.functions(tree):
                texts = sorted(set(ast.unparse(x) for x in alpha.simple_compares(fn)))
                if texts:
                    c[dotted] = texts
            if c:
                comp[rel] = c
            sh = {}
            for dotted, fn in alpha.functions(tree):
                one = alpha.shape_of(fn)
                if one:
                    sh[dotted] = one
            if sh:
                shape[rel] = sh
out['#compare'] = comp
out['#shape'] = shape
json.dump(out, open(os.path.join(VERIF, 'pcbverif', 'locals_ref.json'), 'w'), indent=0, sort_keys=True)
print(len(out) - 2, 'modules', sum(len(v) for k, v in out.items() if not k.startswith('#')), 'functions with locals', sum(len(v) for v in comp.values()), 'with comparisons')

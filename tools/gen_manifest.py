#!/usr/bin/env python3
"""Generate /verif/MANIFEST.json from the rule modules present in pcbverif/rules."""
import os
import sys
import json
import importlib

HERE = os.path.dirname(os.path.dirname(os.path.abspath(__file__)))
sys.path.insert(0, HERE)

NOT_APPLICABLE = {
}
PENDING = 'check not built yet in this revision (static rule designed in DESIGN.md section 4)'


def _rules_run(pid):
    """The obligations the last committed run of this check discharged, by rule name (from evidence/<id>.json)."""
    try:
        ev = json.load(open(os.path.join(HERE, 'evidence', pid + '.json')))
        rules = sorted((ev.get('coverage') or {}).get('obligations_by_rule', {}))
    except (IOError, ValueError):
        rules = []
    return (' Rules evaluated at the last run: ' + ', '.join(rules) + '.') if rules else ''


def main():
    props = [json.loads(l) for l in open(os.path.join(HERE, 'properties.jsonl'))]
    checks, na = [], []
    for p in props:
        pid = p['id']
        path = os.path.join(HERE, 'pcbverif', 'rules', pid.lower() + '.py')
        if pid in NOT_APPLICABLE:
            na.append(dict(property_id=pid, reason=NOT_APPLICABLE[pid]))
            continue
        if not os.path.exists(path):
            na.append(dict(property_id=pid, reason=PENDING))
            continue
        mod = importlib.import_module('pcbverif.rules.' + pid.lower())
        level = getattr(mod, 'LEVEL', 'other')
        checks.append(dict(
            property_id=pid,
            quick_cmd='./check %s --tier quick' % pid,
            thorough_cmd='./check %s --tier thorough' % pid,
            evidence_file='evidence/%s.json' % pid,
            replay_cmd_template='./check %s --replay {path}' % pid,
            engine='pcbverif',
            level_claimed=dict(
                category=level,
                text=' '.join(getattr(mod, 'LEVEL_TEXT', getattr(mod, 'EXPLANATION', '')).split()),
                design_ref='DESIGN.md section 4, %s' % pid,
            ),
            level_note=' '.join(getattr(mod, 'LEVEL_NOTE', (
                'Trusted: CPython ast parser; the pcbverif engine; rule tables frozen in pcbverif/rules/%s.py. '
                'Decides the structural clauses named in the level text only; value-level behaviour is not decided. '
                % pid.lower()) + ' '.join(getattr(mod, 'ASSUMPTIONS', [])) + _rules_run(pid)).split()),
            technique=getattr(mod, 'TECHNIQUE', 'static analysis: AST rules with path facts over /repo/pcbasic'),
        ))
    man = dict(
        version=1,
        setup_cmd='true',
        hooks=dict(
            guard='PCBASIC_VERIF',
            enable='none needed: checks parse /repo/pcbasic source with the stdlib ast module; nothing in /repo is instrumented',
            baseline_off_cmd='cd /repo && /venv/bin/python -m pytest -ra -q -p no:cacheprovider --timeout=900 --continue-on-collection-errors',
            source_commits=[],
            add_only=True,
        ),
        engines=[dict(
            name='pcbverif', path='pcbverif',
            serves_properties=[c['property_id'] for c in checks],
            kind_free_text='repository-specific static analyser (stdlib ast): source index, constant folder, '
                           'path facts, call graph/type wiring, field effects, interval/order/unit domains',
        )],
        checks=checks,
        not_applicable=na,
        notes='Single technique family: static analysis. Exit 0 ok / 1 VIOLATION / 2 ANALYSIS-ERROR. '
              'Known findings are in known_findings.json; see DESIGN.md.',
    )
    with open(os.path.join(HERE, 'MANIFEST.json'), 'w') as f:
        json.dump(man, f, indent=1)
    print('checks: %d, not_applicable: %d' % (len(checks), len(na)))


if __name__ == '__main__':
    main()

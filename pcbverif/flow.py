"""
PathFacts: a syntax-directed forward walk of one function.

For every statement it records
  * facts   -- atomic conditions known true/false on *every* path reaching it
               (enclosing if/elif/else, preceding `if c: raise/return/...`,
               error.throw_if(c), error.range_check(lo, hi, v...), assert,
               while-conditions), killed when a variable of the condition is
               re-assigned;
  * must    -- event labels that occurred on *every* path reaching it
               (events come from a caller-supplied classifier);
  * ctx     -- enclosing try statements (as body/handler/finally), with items,
               loops.
and for every exit (return / fall-through / raise) the state at that exit.

No general CFG or solver: it understands the statement kinds this repository
uses (if/elif/else, for/while with break/continue/else, try/except/else/
finally, with, return/raise, match is not used).
"""
import ast

from .source import norm

TERMINATORS = (ast.Raise, ast.Return, ast.Continue, ast.Break)


def own_nodes(node):
    """Walk a node without entering nested function/class definitions."""
    stack = [node]
    first = True
    while stack:
        n = stack.pop()
        if not first and isinstance(n, (ast.FunctionDef, ast.AsyncFunctionDef, ast.ClassDef, ast.Lambda)):
            continue
        first = False
        yield n
        stack.extend(reversed(list(ast.iter_child_nodes(n))))


def header_nodes(st):
    """The expression parts executed by the statement itself (not nested bodies)."""
    if isinstance(st, (ast.If, ast.While)):
        return [st.test]
    if isinstance(st, (ast.For, ast.AsyncFor)):
        return [st.iter, st.target]
    if isinstance(st, (ast.With, ast.AsyncWith)):
        out = []
        for it in st.items:
            out.append(it.context_expr)
            if it.optional_vars is not None:
                out.append(it.optional_vars)
        return out
    if isinstance(st, ast.Try):
        return []
    if isinstance(st, (ast.FunctionDef, ast.AsyncFunctionDef, ast.ClassDef)):
        return list(st.decorator_list)
    return [st]


def calls_in(node):
    return [n for n in own_nodes(node) if isinstance(n, ast.Call)]


def is_call_to(call, *names):
    """Call whose function text is one of names, or ends with '.<name>'."""
    f = norm(call.func)
    for nm in names:
        if f == nm or f.endswith('.' + nm):
            return True
    return False


class Fact(object):
    __slots__ = ('cond', 'pol', 'text', 'origin')

    def __init__(self, cond, pol, origin=None):
        self.cond = cond
        self.pol = pol
        self.text = norm(cond)
        self.origin = origin

    def key(self):
        return (self.text, self.pol)

    def __repr__(self):
        return ('' if self.pol else 'not ') + '(' + self.text + ')'


def atoms(cond, pol, origin=None):
    """Decompose a condition with polarity into implied atomic facts."""
    out = [Fact(cond, pol, origin)]
    if isinstance(cond, ast.UnaryOp) and isinstance(cond.op, ast.Not):
        out += atoms(cond.operand, not pol, origin)
    elif isinstance(cond, ast.BoolOp):
        if isinstance(cond.op, ast.And) and pol:
            for v in cond.values:
                out += atoms(v, True, origin)
        elif isinstance(cond.op, ast.Or) and not pol:
            for v in cond.values:
                out += atoms(v, False, origin)
    elif isinstance(cond, ast.Compare) and len(cond.ops) > 1 and pol:
        # a <= b <= c true  =>  a <= b and b <= c
        left = cond.left
        for op, c in zip(cond.ops, cond.comparators):
            out.append(Fact(ast.Compare(left=left, ops=[op], comparators=[c]), True, origin))
            left = c
    return out


def names_in(node):
    """Variable 'paths' mentioned in an expression: a, self.x, self.x.y"""
    out = set()
    for n in ast.walk(node):
        if isinstance(n, ast.Name):
            out.add(n.id)
        elif isinstance(n, ast.Attribute):
            out.add(norm(n))
    return out


def assigned_targets(st):
    """Names / attribute paths (re)bound by a simple statement's own execution."""
    out = set()

    def tgt(t):
        if isinstance(t, ast.Name):
            out.add(t.id)
        elif isinstance(t, ast.Attribute):
            out.add(norm(t))
        elif isinstance(t, (ast.Tuple, ast.List)):
            for e in t.elts:
                tgt(e)
        elif isinstance(t, ast.Starred):
            tgt(t.value)
        elif isinstance(t, ast.Subscript):
            # in-place change of a container: kills facts about the container
            out.add(norm(t.value))

    for part in header_nodes(st):
        for n in own_nodes(part):
            if isinstance(n, ast.Assign):
                for t in n.targets:
                    tgt(t)
            elif isinstance(n, (ast.AugAssign, ast.AnnAssign)):
                tgt(n.target)
            elif isinstance(n, ast.NamedExpr):
                tgt(n.target)
            elif isinstance(n, ast.Delete):
                for t in n.targets:
                    tgt(t)
    if isinstance(st, (ast.For, ast.AsyncFor)):
        tgt(st.target)
    if isinstance(st, (ast.With, ast.AsyncWith)):
        for it in st.items:
            if it.optional_vars is not None:
                tgt(it.optional_vars)
    return out


class State(object):
    __slots__ = ('facts', 'must')

    def __init__(self, facts=(), must=frozenset()):
        self.facts = tuple(facts)
        self.must = frozenset(must)

    def add_facts(self, fs):
        have = set(f.key() for f in self.facts)
        new = list(self.facts)
        for f in fs:
            if f.key() not in have:
                have.add(f.key())
                new.append(f)
        return State(new, self.must)

    def add_events(self, ev):
        if not ev:
            return self
        return State(self.facts, self.must | frozenset(ev))

    def kill(self, targets):
        if not targets:
            return self
        keep = []
        for f in self.facts:
            nm = names_in(f.cond)
            dead = False
            for t in targets:
                for n in nm:
                    if n == t or n.startswith(t + '.'):
                        dead = True
                        break
                if dead:
                    break
            if not dead:
                keep.append(f)
        return State(keep, self.must)


def merge(states):
    states = [s for s in states if s is not None]
    if not states:
        return None
    if len(states) == 1:
        return states[0]
    keys = None
    for s in states:
        k = set(f.key() for f in s.facts)
        keys = k if keys is None else (keys & k)
    facts = [f for f in states[0].facts if f.key() in keys]
    must = states[0].must
    for s in states[1:]:
        must = must & s.must
    return State(facts, must)


class Exit(object):
    __slots__ = ('kind', 'node', 'state')

    def __init__(self, kind, node, state):
        self.kind = kind      # 'return' | 'fall' | 'raise'
        self.node = node
        self.state = state


class FlowResult(object):

    def __init__(self, func):
        self.func = func
        self.state = {}     # id(stmt) -> State at entry of stmt
        self.ctx = {}       # id(stmt) -> tuple of context entries
        self.exits = []
        self.stmts = []     # all statements in walk order
        self._stmt_of = {}

    def facts(self, node):
        st = self.stmt_of(node)
        fs = list(self.state[id(st)].facts) if id(st) in self.state else []
        fs += expr_facts(node, st)
        return fs

    def must(self, node):
        st = self.stmt_of(node)
        return self.state[id(st)].must if id(st) in self.state else frozenset()

    def reached(self, node):
        return id(self.stmt_of(node)) in self.state

    def context(self, node):
        st = self.stmt_of(node)
        return self.ctx.get(id(st), ())

    def stmt_of(self, node):
        """The walked statement that contains (or is) node."""
        n = node
        while n is not None and id(n) not in self.ctx:
            n = getattr(n, '_parent', None)
        if n is None:
            raise KeyError('node not in function %s' % getattr(self.func, 'name', '?'))
        return n

    def knows(self, node, text, pol=True):
        for f in self.facts(node):
            if f.text == text and f.pol == pol:
                return True
        return False

    def in_try_catching(self, node, names):
        """True if node is in the body of a try whose handlers catch one of names (or bare)."""
        for kind, obj in self.context(node):
            if kind == 'try-body':
                for h in obj.handlers:
                    if h.type is None:
                        return h
                    for t in _handler_types(h):
                        if t in names:
                            return h
        return None

    def with_items(self, node):
        out = []
        for kind, obj in self.context(node):
            if kind == 'with':
                out.extend(norm(it.context_expr) for it in obj.items)
        return out


def _handler_types(h):
    t = h.type
    if t is None:
        return []
    if isinstance(t, ast.Tuple):
        return [norm(e).split('.')[-1] for e in t.elts]
    return [norm(t).split('.')[-1]]


def expr_facts(node, stmt):
    """Facts implied by short-circuit position of node inside its statement."""
    out = []
    child = node
    p = getattr(node, '_parent', None)
    while p is not None and child is not stmt:
        if isinstance(p, ast.BoolOp):
            i = None
            for k, v in enumerate(p.values):
                if v is child:
                    i = k
            if i:
                for v in p.values[:i]:
                    out += atoms(v, isinstance(p.op, ast.And), p)
        elif isinstance(p, ast.IfExp):
            if child is p.body:
                out += atoms(p.test, True, p)
            elif child is p.orelse:
                out += atoms(p.test, False, p)
        elif isinstance(p, (ast.ListComp, ast.GeneratorExp, ast.SetComp, ast.DictComp)):
            for g in p.generators:
                for c in g.ifs:
                    if c is not child:
                        out += atoms(c, True, p)
        child = p
        p = getattr(p, '_parent', None)
    return out


def _always_terminates(body):
    if not body:
        return False
    last = body[-1]
    if isinstance(last, TERMINATORS):
        return True
    if isinstance(last, ast.If):
        return _always_terminates(last.body) and _always_terminates(last.orelse)
    if isinstance(last, (ast.With, ast.AsyncWith)):
        return _always_terminates(last.body)
    if isinstance(last, ast.Try):
        if last.finalbody and _always_terminates(last.finalbody):
            return True
        return (
            _always_terminates(last.body if not last.orelse else last.orelse)
            and all(_always_terminates(h.body) for h in last.handlers)
        )
    return False


class _Walker(object):

    def __init__(self, func, events, guard_calls):
        self.res = FlowResult(func)
        self.events = events or (lambda node: ())
        self.guard_calls = guard_calls
        self.loops = []    # stack of dicts: breaks, continues

    def ev(self, parts):
        out = set()
        for p in parts:
            for e in self.events(p):
                out.add(e)
        return out

    def block(self, body, state, ctx):
        for st in body:
            if state is None:
                # unreachable code after a terminator: still register context
                self._register_dead(st, ctx)
                continue
            state = self.stmt(st, state, ctx)
        return state

    def _register_dead(self, st, ctx):
        self.res.ctx[id(st)] = ctx
        self.res.stmts.append(st)
        for name in ('body', 'orelse', 'finalbody'):
            for s in getattr(st, name, []) or []:
                if isinstance(s, ast.stmt):
                    self._register_dead(s, ctx)
        for h in getattr(st, 'handlers', []) or []:
            for s in h.body:
                self._register_dead(s, ctx)

    def stmt(self, st, state, ctx):
        res = self.res
        res.state[id(st)] = state
        res.ctx[id(st)] = ctx
        res.stmts.append(st)

        if isinstance(st, ast.If):
            s0 = state.add_events(self.ev([st.test])).kill(assigned_targets(st))
            s_then = self.block(st.body, s0.add_facts(atoms(st.test, True, st)), ctx)
            s_else = self.block(st.orelse, s0.add_facts(atoms(st.test, False, st)), ctx)
            # the facts of the branch conditions themselves do not survive the join
            # unless the other branch terminated
            if s_then is None and s_else is None:
                return None
            if s_then is None:
                return s_else
            if s_else is None:
                return s_then
            return merge([s_then, s_else])

        if isinstance(st, ast.While):
            killed = self._assigned_in(st.body) | assigned_targets(st)
            s0 = state.kill(killed).add_events(self.ev([st.test]))
            self.loops.append({'breaks': [], 'continues': []})
            is_true = isinstance(st.test, ast.Constant) and bool(st.test.value)
            s_body_in = s0 if is_true else s0.add_facts(atoms(st.test, True, st))
            s_body = self.block(st.body, s_body_in, ctx + (('loop', st),))
            lp = self.loops.pop()
            outs = list(lp['breaks'])
            if not is_true:
                s_exit = s0.add_facts(atoms(st.test, False, st))
                if st.orelse:
                    s_exit = self.block(st.orelse, s_exit, ctx)
                outs.append(s_exit)
            return merge(outs)

        if isinstance(st, (ast.For, ast.AsyncFor)):
            killed = self._assigned_in(st.body) | assigned_targets(st)
            s0 = state.add_events(self.ev([st.iter])).kill(killed)
            self.loops.append({'breaks': [], 'continues': []})
            self.block(st.body, s0, ctx + (('loop', st),))
            lp = self.loops.pop()
            s_exit = s0
            if st.orelse:
                s_exit = self.block(st.orelse, s_exit, ctx)
            return merge([s_exit] + lp['breaks'])

        if isinstance(st, (ast.With, ast.AsyncWith)):
            s0 = state.add_events(self.ev(header_nodes(st))).kill(assigned_targets(st))
            return self.block(st.body, s0, ctx + (('with', st),))

        if isinstance(st, ast.Try):
            killed = self._assigned_in(st.body)
            s_body = self.block(st.body, state, ctx + (('try-body', st),))
            s_else = s_body
            if st.orelse and s_body is not None:
                s_else = self.block(st.orelse, s_body, ctx + (('try-else', st),))
            outs = [s_else]
            s_h_in = state.kill(killed)
            for h in st.handlers:
                self.res.ctx[id(h)] = ctx
                s_h = self.block(h.body, s_h_in, ctx + (('handler', h),))
                outs.append(s_h)
            out = merge(outs)
            if st.finalbody:
                fin_in = state.kill(killed | self._assigned_in_handlers(st))
                s_fin = self.block(st.finalbody, fin_in, ctx + (('finally', st),))
                if s_fin is None:
                    return None
                if out is not None:
                    # events of the finally block happened on every path
                    out = out.add_events(s_fin.must - fin_in.must)
                    out = out.kill(self._assigned_in(st.finalbody))
            return out

        if isinstance(st, ast.Return):
            s = state.add_events(self.ev([st]))
            res.exits.append(Exit('return', st, s))
            return None

        if isinstance(st, ast.Raise):
            s = state.add_events(self.ev([st]))
            res.exits.append(Exit('raise', st, s))
            return None

        if isinstance(st, ast.Break):
            if self.loops:
                self.loops[-1]['breaks'].append(state)
            return None

        if isinstance(st, ast.Continue):
            return None

        if isinstance(st, (ast.FunctionDef, ast.AsyncFunctionDef, ast.ClassDef)):
            return state.kill({st.name})

        # simple statement
        new = state.kill(assigned_targets(st)).add_events(self.ev([st]))
        # guard calls
        if isinstance(st, ast.Expr) and isinstance(st.value, ast.Call):
            new = new.add_facts(self._guard_facts(st.value, st))
        elif isinstance(st, ast.Assert):
            new = new.add_facts(atoms(st.test, True, st))
        return new

    def _guard_facts(self, call, st):
        f = norm(call.func)
        out = []
        if f.endswith('throw_if') and call.args:
            out += atoms(call.args[0], False, st)
        elif (f.endswith('range_check') or f.endswith('range_check_err')) and len(call.args) >= 3:
            lo, hi = call.args[0], call.args[1]
            vs = call.args[2:3] if f.endswith('range_check_err') else call.args[2:]
            for v in vs:
                cmp_ = ast.Compare(left=lo, ops=[ast.LtE(), ast.LtE()], comparators=[v, hi])
                out += atoms(cmp_, True, st)
        elif self.guard_calls:
            out += self.guard_calls(call, st) or []
        return out

    def _assigned_in(self, body):
        out = set()
        for st in body:
            for n in own_nodes(st):
                if isinstance(n, ast.stmt):
                    out |= assigned_targets(n)
                    # method calls on objects may mutate them; only name rebinding kills
        return out

    def _assigned_in_handlers(self, st):
        out = set()
        for h in st.handlers:
            out |= self._assigned_in(h.body)
        out |= self._assigned_in(st.orelse)
        return out


def analyse(func, events=None, guard_calls=None):
    """Run PathFacts over a FunctionDef; returns FlowResult."""
    w = _Walker(func, events, guard_calls)
    w.res.ctx[id(func)] = ()
    body = func.body if not isinstance(func, ast.Lambda) else []
    end = w.block(body, State(), ())
    if end is not None:
        w.res.exits.append(Exit('fall', func, end))
    return w.res


def terminates(body):
    return _always_terminates(body)


def must_follow(node, pred, stop_at=None):
    """
    True if, on every normal path from the statement containing `node` to the
    end of the enclosing function, a later *unconditionally executed* statement
    satisfies pred(stmt).  Sound for structured code: a loop between node and
    the candidate, or an early exit, answers False.
    """
    st = node
    while not isinstance(st, ast.stmt):
        st = st._parent
    while True:
        parent = st._parent
        block = None
        for name in ('body', 'orelse', 'finalbody'):
            b = getattr(parent, name, None)
            if isinstance(b, list) and st in b:
                block = b
        if block is None:
            if isinstance(parent, ast.ExceptHandler):
                block = parent.body
            else:
                return False
        i = block.index(st)
        for later in block[i + 1:]:
            if pred(later):
                return True
            if isinstance(later, (ast.Return, ast.Raise, ast.Break, ast.Continue)):
                return False
            # an early exit nested in a later compound statement is a path that escapes
            for sub in own_nodes(later):
                if sub is not later and isinstance(sub, (ast.Return, ast.Break, ast.Continue)):
                    return False
        if isinstance(parent, (ast.FunctionDef, ast.AsyncFunctionDef)):
            return False
        if isinstance(parent, (ast.For, ast.While, ast.AsyncFor)):
            return False
        if isinstance(parent, ast.ExceptHandler):
            parent = parent._parent
        st = parent
        if st is stop_at:
            return False

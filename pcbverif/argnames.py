"""
Swapped-argument detection over resolved calls: a positional argument that is a plain name equal to one of
the callee's parameter names, but standing in another parameter's position while that parameter's own name
also occurs among the arguments, out of place too (e.g. clear(preserve_deftype, preserve_base) for
def clear(self, preserve_base, preserve_deftype)).  Deliberate swaps exist (gte -> _bool_gt(right, left)); a
rule that uses this restricts it to the modules it has confirmed.
"""
import ast

from .source import norm, qualname


def swapped_calls(ctx, path_prefixes):
    cg = ctx.cg_precise
    out = []
    seen = 0
    for fid, lst in cg.edges.items():
        fn = cg.fn_of[fid]
        if not fn._module.path.startswith(tuple(path_prefixes)):
            continue
        for call, callee in lst:
            if not isinstance(call, ast.Call):
                continue
            params = [a.arg for a in callee.args.args]
            explicit_self = isinstance(call.func, ast.Attribute) and call.args and isinstance(call.args[0], ast.Name) and call.args[0].id == 'self' \
                and params[:1] == ['self']
            if params and params[0] in ('self', 'cls') and not explicit_self:
                params = params[1:]
            args = [a.id if isinstance(a, ast.Name) else None for a in call.args]
            if len([a for a in args if a]) < 2:
                continue
            seen += 1
            for i, a in enumerate(args):
                if a and a in params and i < len(params) and params.index(a) != i and params[i] in args and args.index(params[i]) != i:
                    out.append((fn, call, callee, params))
                    break
    return seen, out

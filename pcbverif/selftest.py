"""
Checker self-test (thorough tier): every rule module lists *breaking* variants
(one instance broken; the rule must fire and name that construct) and
*neutral* variants (behaviour-preserving edit; the rule must stay silent).
Variants are in-memory source overlays; /repo is never modified or copied.
"""
import importlib
import multiprocessing
import os
import traceback

from .source import SourceIndex, AnalysisError
from .context import Ctx
from .report import Report

_BASE = {}


def _variants(mod, ctx):
    f = getattr(mod, 'variants', None)
    return list(f(ctx)) if f else []


def _run_one(args):
    prop, i = args
    mod = importlib.import_module('pcbverif.rules.%s' % prop.lower())
    base = _BASE['idx']
    v = _BASE['variants'][i]
    try:
        overlay = v.overlay(base)
        idx = SourceIndex(overlay=overlay, base=base)
        rep = Report(prop, 'quick')
        try:
            mod.check(Ctx(idx, 'quick'), rep)
        except AnalysisError as e:
            rep.error('%s: %s' % (type(e).__name__, e))
        keys = [(f.rule, f.construct) for f in rep.findings]
        return (i, keys, list(rep.errors), None)
    except Exception as e:
        return (i, [], [], '%s: %s | %s' % (type(e).__name__, e, traceback.format_exc().strip().splitlines()[-3:]))


def evaluate(v, keys, errors, exc, base_keys):
    """Return None if variant behaved as required, else a failure text."""
    if exc:
        return 'variant %s crashed: %s' % (v.name, exc)
    new = [k for k in keys if k not in base_keys]
    gone = [k for k in base_keys if k not in keys]
    if v.kind == 'break':
        # an analysis error also counts as detection (fail-closed), but we ask for a named finding
        if not new and not errors:
            return 'breaking variant %s was NOT detected' % v.name
        if v.expect and new and not any(v.expect in k[0] or v.expect in k[1] for k in new):
            return 'breaking variant %s detected but not named (expected %r, got %r)' % (v.name, v.expect, new[:3])
        if v.expect and not new and errors:
            if not any(v.expect in e for e in errors):
                return 'breaking variant %s only produced analysis error %r' % (v.name, errors[:2])
        return None
    if v.kind == 'repair':
        still = [k for k in keys if v.expect and (v.expect in k[0] or v.expect in k[1])]
        if new or errors or still:
            return 'repaired variant %s: finding still present or new alarm: still=%r new=%r errors=%r' % (v.name, still[:2], new[:2], errors[:2])
        if not [k for k in gone if v.expect in k[0] or v.expect in k[1]]:
            return 'repaired variant %s: the base tree did not have the finding %r' % (v.name, v.expect)
        return None
    if new or errors or gone:
        return 'neutral variant %s raised an alarm: new=%r errors=%r gone=%r' % (v.name, new[:3], errors[:2], gone[:3])
    return None


def run(prop, mod, rep, jobs=None):
    base = SourceIndex()
    ctx = Ctx(base, 'quick')
    variants = _variants(mod, ctx)
    base_keys = [(f.rule, f.construct) for f in rep.findings]
    _BASE['idx'] = base
    _BASE['variants'] = variants
    results = []
    if variants:
        jobs = jobs or min(16, len(variants), os.cpu_count() or 1)
        if jobs > 1:
            ctxmp = multiprocessing.get_context('fork')
            with ctxmp.Pool(jobs) as pool:
                results = pool.map(_run_one, [(prop, i) for i in range(len(variants))], chunksize=1)
        else:
            results = [_run_one((prop, i)) for i in range(len(variants))]
    failed, ok = [], []
    for i, keys, errors, exc in results:
        v = variants[i]
        msg = evaluate(v, keys, errors, exc, base_keys)
        if msg:
            failed.append(msg)
        else:
            new = [k for k in keys if k not in base_keys]
            ok.append('%s[%s]%s' % (v.name, v.kind, (' -> ' + new[0][0]) if new else ''))
    return dict(
        variants=len(variants),
        breaking=len([v for v in variants if v.kind == 'break']),
        neutral=len([v for v in variants if v.kind in ('neutral', 'repair')]),
        passed=ok, failed=failed,
    )


def debug_variant(prop, name):
    mod = importlib.import_module('pcbverif.rules.%s' % prop.lower())
    base = SourceIndex()
    ctx = Ctx(base, 'quick')
    vs = _variants(mod, ctx)
    if not name:
        for v in vs:
            print('%-8s %-40s %s' % (v.kind, v.name, v.path))
        return 0
    for v in vs:
        if v.name == name:
            idx = SourceIndex(overlay=v.overlay(base), base=base)
            rep = Report(prop, 'quick')
            try:
                mod.check(Ctx(idx, 'quick'), rep)
            except AnalysisError as e:
                rep.error(str(e))
            for f in rep.findings:
                print('FINDING', f.rule, '|', f.construct, '|', f.where, '|', f.detail)
            for e in rep.errors:
                print('ERROR', e)
            return 0
    print('no such variant')
    return 2


# ---------------------------------------------------------------------------------------------------
# neutral stress: generic behaviour-preserving edits of every function the rules anchor in

def _local_names(fn):
    import ast
    a = fn.args
    params = set(x.arg for x in a.args + a.kwonlyargs)
    if a.vararg:
        params.add(a.vararg.arg)
    if a.kwarg:
        params.add(a.kwarg.arg)
    names = []
    for n in ast.walk(fn):
        if isinstance(n, ast.Name) and isinstance(n.ctx, ast.Store) and n.id not in params and n.id not in names and not n.id.startswith('__'):
            names.append(n.id)
    for n in ast.walk(fn):
        if isinstance(n, (ast.Global, ast.Nonlocal)):
            names = [x for x in names if x not in n.names]
    return names


def _swap_eq(fn):
    import ast
    n = 0
    for c in ast.walk(fn):
        if isinstance(c, ast.Compare) and len(c.ops) == 1 and isinstance(c.ops[0], (ast.Eq, ast.NotEq)):
            c.left, c.comparators[0] = c.comparators[0], c.left
            n += 1
    return n > 0


def stress_variants(specs, base):
    import ast
    from . import mutate as mu
    out = []
    for spec in specs:
        path, dotted = spec.split(':')
        try:
            fn = base.locate(spec)
        except Exception:
            continue
        if not isinstance(fn, ast.FunctionDef):
            continue
        for name in _local_names(fn):
            out.append(mu.Variant('%s rename:%s' % (spec, name), 'neutral', path,
                                  (lambda d, o: (lambda tree: mu.rename_local(mu.find_def(tree, d), o, o + '_rn')))(dotted, name)))
        if any(isinstance(c, ast.Compare) and len(c.ops) == 1 and isinstance(c.ops[0], (ast.Eq, ast.NotEq)) for c in ast.walk(fn)):
            out.append(mu.Variant('%s swap-eq-operands' % spec, 'neutral', path, (lambda d: (lambda tree: _swap_eq(mu.find_def(tree, d))))(dotted)))
        out.append(mu.Variant('%s noop-first' % spec, 'neutral', path,
                              (lambda d: (lambda tree: mu.insert_first(mu.find_def(tree, d), "'no operation'")))(dotted)))
        for kind, tr in (('inline-result', _inline_result), ('outline-result', _outline_result), ('if-else-swap', _if_else_swap), ('augassign-expand', _aug_expand)):
            import copy
            if tr(copy.deepcopy(fn)):
                out.append(mu.Variant('%s %s' % (spec, kind), 'neutral', path, (lambda d, t: (lambda tree: t(mu.find_def(tree, d))))(dotted, tr)))
    return out


def _stmt_blocks(fn):
    import ast
    for n in ast.walk(fn):
        for fld in ('body', 'orelse', 'finalbody'):
            b = getattr(n, fld, None)
            if isinstance(b, list) and b and isinstance(b[0], ast.stmt):
                yield b


def _inline_result(fn):
    """`v = e` directly followed by `return v` (v used nowhere else)  ->  `return e`"""
    import ast
    n = 0
    for b in _stmt_blocks(fn):
        for i in range(len(b) - 1):
            a, r = b[i], b[i + 1]
            if isinstance(a, ast.Assign) and len(a.targets) == 1 and isinstance(a.targets[0], ast.Name) and isinstance(r, ast.Return) \
                    and isinstance(r.value, ast.Name) and r.value.id == a.targets[0].id:
                uses = [x for x in ast.walk(fn) if isinstance(x, ast.Name) and x.id == a.targets[0].id]
                if len(uses) == 2:
                    b[i:i + 2] = [ast.copy_location(ast.Return(value=a.value), a)]
                    n += 1
                    break
    return n > 0


def _outline_result(fn):
    """`return <call>`  ->  `outlined_ = <call>; return outlined_`"""
    import ast
    n = 0
    for b in _stmt_blocks(fn):
        for r in list(b):
            if isinstance(r, ast.Return) and isinstance(r.value, ast.Call):
                a = ast.copy_location(ast.Assign(targets=[ast.Name(id='outlined_', ctx=ast.Store())], value=r.value), r)
                i = b.index(r)
                b[i:i + 1] = [a, ast.copy_location(ast.Return(value=ast.Name(id='outlined_', ctx=ast.Load())), r)]
                n += 1
    if n:
        ast.fix_missing_locations(fn)
    return n > 0


def _if_else_swap(fn):
    """`if c: A else: B`  ->  `if not c: B else: A` (also on the last arm of an elif chain)"""
    import ast
    n = 0
    for x in ast.walk(fn):
        if isinstance(x, ast.If) and x.orelse and not (len(x.orelse) == 1 and isinstance(x.orelse[0], ast.If)):
            x.test = ast.copy_location(ast.UnaryOp(op=ast.Not(), operand=x.test), x.test)
            x.body, x.orelse = x.orelse, x.body
            n += 1
    if n:
        ast.fix_missing_locations(fn)
    return n > 0


def _aug_expand(fn):
    """`x += <int>`  ->  `x = x + <int>` for plain names"""
    import ast
    n = 0
    for b in _stmt_blocks(fn):
        for i, a in enumerate(b):
            if isinstance(a, ast.AugAssign) and isinstance(a.target, ast.Name) and isinstance(a.value, ast.Constant) and isinstance(a.value.value, int):
                b[i] = ast.copy_location(ast.Assign(targets=[ast.Name(id=a.target.id, ctx=ast.Store())],
                                                    value=ast.BinOp(left=ast.Name(id=a.target.id, ctx=ast.Load()), op=a.op, right=a.value)), a)
                n += 1
    if n:
        ast.fix_missing_locations(fn)
    return n > 0


def stress(prop, mod, rep, jobs=None):
    """Run the rules on every generic neutral variant of every anchored function; returns a summary dict."""
    base = SourceIndex()
    ctx = Ctx(base, 'quick')
    seen = []
    orig = ctx.fn

    def rec(spec):
        n = orig(spec)
        if spec not in seen:
            seen.append(spec)
        return n
    ctx.fn = rec
    probe = Report(prop, 'quick')
    try:
        mod.check(ctx, probe)
    except AnalysisError as e:
        probe.error(str(e))
    base_keys = [(f.rule, f.construct) for f in probe.findings]
    variants = stress_variants(seen, base)
    _BASE['idx'] = base
    _BASE['variants'] = variants
    results = []
    if variants:
        jobs = jobs or min(16, len(variants), os.cpu_count() or 1)
        ctxmp = multiprocessing.get_context('fork')
        with ctxmp.Pool(jobs) as pool:
            results = pool.map(_run_one, [(prop, i) for i in range(len(variants))], chunksize=4)
    alarms = []
    skipped = 0
    for i, keys, errors, exc in results:
        if exc and 'changed nothing' in exc:
            skipped += 1
            continue
        new = [k for k in keys if k not in base_keys]
        newerr = [e for e in errors if e not in probe.errors]
        if new or newerr or exc:
            alarms.append('%s -> %s' % (variants[i].name, (new or newerr or [exc])[0]))
    return dict(anchored_functions=len(seen), variants=len(variants) - skipped, alarms=alarms)

"""
C23 -- RUN, CLEAR and NEW reset state; CHAIN keeps exactly the COMMON variables
(structural half).

Decides reset completeness with FieldEffects over the resolved call graph: for
each of the callbacks run_, clear_, new_ (Implementation), every piece of
state the property names must be re-assigned / emptied by a method reachable
from that callback:
   variables  Scalars._vars, Arrays._dims/_buffers, StringSpace._strings/current
   DEFtype    DataSegment.deftype         OPTION BASE  Arrays._base
   DEF FN     UserFunctionManager._fn_dict
   stacks     Interpreter.for_stack / while_stack / gosub_stack
   traps      Interpreter.on_error / error_resume / error_handle_mode,
              BasicEvents.enabled (event handlers are rebuilt by reset())
   RND        Randomiser._seed            DATA pointer  Interpreter.data_pos
CHAIN: chain_ gathers COMMON names from the program, wraps _clear_all *inside*
memory.preserve_commons(scalars, arrays, all) and passes the preserve flags
(functions iff ALL, OPTION BASE iff anything is kept, DEFtype iff MERGE);
preserve_commons copies values and strings out before the yield and restores
exactly the saved names afterwards, with garbage collection held.
Not decided: COMMON value preservation over real memory contents.
"""
import ast

from ..source import norm, short, qualname
from ..flow import own_nodes
from ..resolve import FieldEffects
from .. import mutate as mu

PROP = 'C23'
LEVEL = 'other'
TECHNIQUE = 'static analysis: transitive field effects over the resolved call graph against a table of state named by the property'
EXPLANATION = __doc__

IMPL = 'pcbasic/basic/implementation.py'
INTERP = 'pcbasic/basic/interpreter.py'
MEMORY = 'pcbasic/basic/memory/memory.py'

STATE = [
    ('Scalars', '_vars', 'scalar variables'),
    ('Arrays', '_dims', 'array dimensions'),
    ('Arrays', '_buffers', 'array contents'),
    ('StringSpace', '_strings', 'string space contents'),
    ('StringSpace', 'current', 'string space pointer'),
    ('DataSegment', 'deftype', 'DEFtype table'),
    ('Arrays', '_base', 'OPTION BASE'),
    ('UserFunctionManager', '_fn_dict', 'DEF FN functions'),
    ('Interpreter', 'for_stack', 'FOR stack'),
    ('Interpreter', 'while_stack', 'WHILE stack'),
    ('Interpreter', 'gosub_stack', 'GOSUB stack'),
    ('Interpreter', 'on_error', 'error trap line'),
    ('Interpreter', 'error_resume', 'pending RESUME point'),
    ('Interpreter', 'error_handle_mode', 'error-handler mode'),
    ('BasicEvents', 'enabled', 'enabled event traps'),
    ('Randomiser', '_seed', 'random sequence state'),
    ('Interpreter', 'data_pos', 'DATA pointer'),
]


def check(ctx, rep):
    cg = ctx.cg_precise
    fe = FieldEffects(ctx)
    for cb in ('run_', 'clear_', 'new_'):
        fn = ctx.fn('%s:Implementation.%s' % (IMPL, cb))
        eff = fe.transitive(fn, cg)
        written = {}
        for kind, owners, attr, node, f in eff:
            if kind in ('write', 'mutate'):
                # a mutate only counts as a reset if it is .clear()
                if kind == 'mutate' and not (isinstance(node, ast.Call) and node.func.attr == 'clear'):
                    continue
                for o in owners:
                    written.setdefault((o, attr), []).append(qualname(f).split(':')[1])
        rep.note('%s.fields_reset' % cb, len(written))
        for cls, attr, what in STATE:
            who = written.get((cls, attr))
            rep.ob('reset.complete', '%s resets %s (%s.%s)' % (cb.rstrip('_').upper(), what, cls, attr), bool(who),
                   'no method reachable from Implementation.%s assigns or clears %s.%s' % (cb, cls, attr), ctx.where(fn))
    rep.floor('reset.complete', len(STATE) * 3, 51, 'state x statement obligations')
    # the reset methods assign *empty/initial* values (not copies of the old ones)
    checks = [
        (INTERP + ':Interpreter._clear_stacks', ['self.gosub_stack = []', 'self.for_stack = []', 'self.while_stack = []']),
        (INTERP + ':Interpreter._init_error_trapping', ['self.error_handle_mode = False', 'self.error_resume = None', 'self.on_error = None']),
        ('pcbasic/basic/memory/scalars.py:Scalars.clear', ['self._vars = {}', 'self._var_memory = {}', 'self.current = 0']),
        ('pcbasic/basic/memory/arrays.py:Arrays.clear', ['self._dims = {}', 'self._buffers = {}', 'self._array_memory = {}', 'self.current = 0']),
        ('pcbasic/basic/memory/arrays.py:Arrays.clear_base', ['self._base = None', 'self._base_set_by_dim = False']),
        (MEMORY + ':DataSegment.clear_deftype', ['self.deftype = [values.SNG] * 26']),
        ('pcbasic/basic/parser/userfunctions.py:UserFunctionManager.clear', ['self._fn_dict.clear()']),
    ]
    for spec, want in checks:
        fn = ctx.fn(spec)
        got = [norm(s) for s in fn.body if not (isinstance(s, ast.Expr) and isinstance(s.value, ast.Constant))]
        rep.ob('reset.initial-values', '%s assigns initial values' % spec.split(':')[1], all(w in got for w in want), repr(got), ctx.where(fn))
    # DataSegment.clear honours its preserve flags only
    dc = ctx.fn(MEMORY + ':DataSegment.clear')
    fl = ctx.flow(dc)
    cond = {}
    for n in own_nodes(dc):
        if isinstance(n, ast.Call) and norm(n.func).startswith('self.') and norm(n.func) != 'self.reset_fields':
            cond[norm(n.func)] = sorted((f.text, f.pol) for f in fl.facts(n))
    rep.ob('reset.memory-clear', 'DataSegment.clear: variables always; DEFtype unless preserve_deftype; base unless preserve_base',
           cond == {'self.clear_deftype': [('not preserve_deftype', True), ('preserve_deftype', False)],
                    'self.scalars.clear': [], 'self.arrays.clear': [], 'self.strings.clear': [],
                    'self.arrays.clear_base': [('not preserve_base', True), ('preserve_base', False)]}, repr(cond), ctx.where(dc))
    ca = ctx.fn(IMPL + ':Implementation._clear_all')
    fl = ctx.flow(ca)
    uf = [n for n in own_nodes(ca) if isinstance(n, ast.Call) and norm(n.func) == 'self.parser.user_functions.clear']
    rep.ob('reset.functions-unless-preserved', '_clear_all clears DEF FN unless preserve_functions',
           len(uf) == 1 and fl.knows(uf[0], 'not preserve_functions', True), '', ctx.where(ca))
    # RUN/CLEAR/NEW call _clear_all with no preserve flag
    for cb in ('run_', 'clear_', 'new_', 'load_', 'delete_'):
        fn = ctx.fn('%s:Implementation.%s' % (IMPL, cb))
        calls = [n for n in own_nodes(fn) if isinstance(n, ast.Call) and norm(n.func) == 'self._clear_all']
        ok = len(calls) >= 1 and all(not [k for k in c.keywords if k.arg.startswith('preserve')] and not c.args for c in calls)
        rep.ob('reset.no-preserve-flags', '%s calls _clear_all without preserve flags' % cb, ok, repr([short(c) for c in calls]), ctx.where(fn))
    # ---- CHAIN -----------------------------------------------------------------
    ch = ctx.fn(IMPL + ':Implementation.chain_')
    g = [n for n in own_nodes(ch) if isinstance(n, ast.Assign) and norm(n.value) == 'self.interpreter.gather_commons()']
    rep.ob('chain.gathers-commons', 'chain_ gathers COMMON declarations from the program',
           len(g) == 1 and [norm(e) for e in g[0].targets[0].elts] == ['common_scalars', 'common_arrays'], '', ctx.where(ch))
    withs = [n for n in own_nodes(ch) if isinstance(n, ast.With) and norm(n.items[0].context_expr).startswith('self.memory.preserve_commons')]
    ok = len(withs) == 1 and norm(withs[0].items[0].context_expr) == 'self.memory.preserve_commons(common_scalars, common_arrays, preserve_all)'
    rep.ob('chain.preserve-context', 'the clear and load happen inside preserve_commons(common_scalars, common_arrays, preserve_all)', ok, '', ctx.where(ch))
    if withs:
        inner = [n for n in own_nodes(withs[0]) if isinstance(n, ast.Call) and norm(n.func) == 'self._clear_all']
        kw = dict((k.arg, norm(k.value)) for k in inner[0].keywords) if inner else {}
        rep.ob('chain.clear-inside-context', '_clear_all runs inside the preserve context', len(inner) == 1, '', ctx.where(withs[0]))
        rep.ob('chain.preserve-flags', 'OPTION BASE iff anything is kept; DEFtype iff MERGE; functions never unconditionally',
               dict((k, v) for k, v in kw.items() if k != 'preserve_functions') == {'preserve_base': 'common_scalars or common_arrays or preserve_all', 'preserve_deftype': 'merge'}
               and kw.get('preserve_functions') in ('preserve_all', 'merge', 'False', 'preserve_all and merge', 'merge and preserve_all'),
               repr(kw), ctx.where(withs[0]))
        # a DEF FN holds a position in the program text; when the program is replaced (no MERGE) a function that is kept points
        # into the new program's bytes
        rep.ob('chain.functions-do-not-outlive-their-program', 'chain_: DEF FN definitions are kept at most when the program text is kept (MERGE)',
               kw.get('preserve_functions') in ('merge', 'False', 'preserve_all and merge', 'merge and preserve_all'),
               'preserve_functions=%s: with CHAIN ...,ALL (no MERGE) a function of the old program stays defined and evaluates whatever bytes lie at its old offset in the new program' % kw.get('preserve_functions'),
               ctx.where(withs[0]))
        loads = [norm(n.func) for n in own_nodes(withs[0]) if isinstance(n, ast.Call) and norm(n.func) in ('self.program.load', 'self.program.merge')]
        rep.ob('chain.load-inside-context', 'the new program is loaded inside the context', sorted(loads) == ['self.program.load', 'self.program.merge'], repr(loads), ctx.where(withs[0]))
        # the COMMON strings are stored again when the context exits; only after that may the temporaries
        # mark be moved, or the next expression "frees" the last restored string as a temporary
        ft = [n for n in own_nodes(ch) if isinstance(n, ast.Call) and norm(n.func).endswith('strings.fix_temporaries')]
        rep.ob('chain.temporaries-fixed-after-restore', 'chain_ fixes the temporaries mark after the preserve context has restored the COMMON strings',
               len(ft) == 1 and ft[0].lineno > withs[0].end_lineno,
               'fix_temporaries runs before the COMMON values are stored back: the restored strings count as temporaries and the first expression of the chained program deletes one',
               ctx.where(ft[0]) if ft else ctx.where(ch))
    # flags and values travel through the reset path by position: no call there passes two of the callee's own
    # parameter names in each other's places (preserve_base / preserve_deftype look alike and are both bool)
    from ..argnames import swapped_calls
    seen_, swapped = swapped_calls(ctx, ['pcbasic/basic/implementation.py', 'pcbasic/basic/memory/', 'pcbasic/basic/interpreter.py', 'pcbasic/basic/program.py'])
    for fn_, call_, callee_, params_ in swapped:
        rep.ob('reset.arguments-in-parameter-order', '%s: %s' % (qualname(fn_).split(':')[1], short(call_, 60)), False,
               'the callee is declared %s(%s): the named values arrive in each other\'s parameters' % (callee_.name, ', '.join(params_)), ctx.where(call_))
    rep.ob('reset.arguments-in-parameter-order', 'no call in the reset path swaps like-named arguments (%d calls with two or more name arguments)' % seen_, not swapped)
    rep.floor('reset.arguments-in-parameter-order', seen_, 40, 'calls examined')
    # COMMON A, A() names a scalar and an array: the collector must keep the two kinds apart by the bracket flag of
    # each declaration, not key the declarations by name
    acv = ctx.fn(INTERP + ':Interpreter._add_common_vars')
    cv = [a for a in own_nodes(acv) if isinstance(a, ast.Assign) and norm(a.targets[0]) == 'common_vars']
    keyed = [a for a in cv if isinstance(a.value, (ast.Dict, ast.DictComp)) or (isinstance(a.value, ast.Call) and norm(a.value.func) in ('dict', 'OrderedDict'))]
    ups = [c for c in own_nodes(acv) if isinstance(c, ast.Call) and norm(c.func) in ('common_scalars.update', 'common_arrays.update')]
    flt = sorted((norm(c.func), norm(g.ifs[0]) if g.ifs else '') for c in ups for x in c.args if isinstance(x, (ast.GeneratorExp, ast.ListComp, ast.SetComp)) for g in x.generators)
    rep.ob('commons.scalar-and-array-of-one-name', 'COMMON declarations are split by their bracket flag, one entry per declaration (a scalar and an array may share a name)',
           not keyed and flt == [('common_arrays.update', 'brackets'), ('common_scalars.update', 'not brackets')], 'declarations keyed by name: %s; filters %s' % (bool(keyed), flt), ctx.where(acv))
    # a COMMON string is copied into the new string space wherever it lives: a string assigned from a literal points into the
    # program code, which CHAIN replaces; copy_to reads it through the general accessor and stores it, unconditionally
    ct = ctx.fn('pcbasic/basic/values/strings.py:StringSpace.copy_to')
    flc = ctx.flow(ct)
    rets = [r for r in own_nodes(ct) if isinstance(r, ast.Return)]
    rep.floor('commons.strings-copied-wherever-they-live', len(rets), 1, 'returns of copy_to')
    for r in rets:
        v = r.value
        ok = isinstance(v, ast.Call) and norm(v.func) == 'string_space.store' and len(v.args) == 1 and 'self.view(length, address)' in norm(v.args[0]) and not flc.facts(r)
        rep.ob('commons.strings-copied-wherever-they-live', 'copy_to: %s' % short(r, 60), ok,
               'a string that is not copied keeps its old pointer: after CHAIN it reads bytes of the new program (literal) or a closed file buffer (FIELD)', ctx.where(r))
    _rebuild_takes_over_the_pointer(ctx, rep)
    _function_pointers_are_not_strings(ctx, rep)
    pc = ctx.fn(MEMORY + ':DataSegment.preserve_commons')
    ys = [n for n in own_nodes(pc) if isinstance(n, ast.Expr) and isinstance(n.value, ast.Yield)]
    rep.ob('commons.single-yield', 'preserve_commons yields once', len(ys) == 1, '', ctx.where(pc))
    if ys:
        yl = ys[0].lineno
        saves = [n for n in own_nodes(pc) if isinstance(n, ast.Assign) and norm(n.targets[0]) in ('common_scalars', 'common_arrays') and isinstance(n.value, ast.DictComp)]
        rep.ob('commons.saved-before-clear', 'values of the named scalars/arrays are copied out before the yield',
               len(saves) == 2 and all(s.lineno < yl for s in saves) and
               all(('for name in common_scalars if name in self.scalars' in norm(s.value)) or ('for name in common_arrays if name in self.arrays' in norm(s.value)) for s in saves),
               '', ctx.where(pc))
        rest = [n for n in own_nodes(pc) if isinstance(n, ast.For) and n.lineno > yl]
        r = dict((norm(n.iter), [norm(s) for s in n.body if not (isinstance(s, ast.Expr) and isinstance(s.value, ast.Constant))]) for n in rest)
        rep.ob('commons.restored-after-load', 'exactly the saved names are restored after the yield',
               r.get('iteritems(common_scalars)') == ['self.scalars.set(name, value)'] and
               'self.arrays.allocate(name, dimensions)' in r.get('iteritems(common_arrays)', []) and
               'self.arrays.view_full_buffer(name)[:] = buf' in r.get('iteritems(common_arrays)', []), repr(r), ctx.where(pc))
        allb = [n for n in own_nodes(pc) if isinstance(n, ast.If) and norm(n.test) == 'preserve_all']
        rep.ob('commons.all', 'ALL keeps every scalar and array', len(allb) == 1 and norm(allb[0].body[0]) == 'common_scalars, common_arrays = (self.scalars, self.arrays)'
               and allb[0].lineno < yl, '', ctx.where(pc))
        hold = [n for n in own_nodes(pc) if isinstance(n, ast.With) and norm(n.items[0].context_expr) == 'self.hold_garbage()']
        rep.ob('commons.no-collection-during-migration', 'garbage collection is held while strings migrate',
               len(hold) == 1 and ys[0] in list(own_nodes(hold[0])), '', ctx.where(pc))
        rb = [n for n in own_nodes(pc) if isinstance(n, ast.Call) and norm(n) == 'self.strings.rebuild(string_store)']
        rep.ob('commons.strings-rebuilt', 'preserved strings are moved back into string space before variables are restored',
               len(rb) == 1 and rb[0].lineno > yl and all(rb[0].lineno < n.lineno for n in rest), '', ctx.where(pc))
    gc = ctx.fn(INTERP + ':Interpreter.gather_commons')
    rep.ob('commons.gather-scans-whole-program', 'gather_commons scans from position 0 for every COMMON token',
           'self._program_code.seek(0)' in [norm(s) for s in gc.body] and any(isinstance(n, ast.While) and norm(n.test) == 'self._program_code.skip_to_token(tk.COMMON)' for n in gc.body),
           '', ctx.where(gc))


def _first_char_tested(test, var):
    for n in ast.walk(test):
        if isinstance(n, ast.Subscript) and norm(n.value) == var:
            sl = n.slice
            if isinstance(sl, ast.Constant) and sl.value == 0:
                return True
            if isinstance(sl, ast.Slice) and (sl.lower is None or (isinstance(sl.lower, ast.Constant) and sl.lower.value == 0)) \
                    and isinstance(sl.upper, ast.Constant) and sl.upper.value == 1:
                return True
    return False


def _function_pointers_are_not_strings(ctx, rep):
    """DEF FN keeps the code address of a function among the scalars, under the function's name with its first
    character shifted by 128 (UserFunctionManager.define).  With ALL every scalar is preserved; the ones that are
    read as string pointers (to_pointer) must be picked by more than the `$` sigil, or FNA$'s address is
    dereferenced as (length, address) and ValueError leaves the interpreter."""
    pc = ctx.fn(MEMORY + ':DataSegment.preserve_commons')
    df = ctx.fn('pcbasic/basic/parser/userfunctions.py:UserFunctionManager.define')
    shifted = [c for c in own_nodes(df) if isinstance(c, ast.Call) and norm(c.func) == 'int2byte' and c.args and '128' in norm(c.args[0])]
    stored = [c for c in own_nodes(df) if isinstance(c, ast.Call) and norm(c.func) == 'self._memory.scalars.set' and c.args and norm(c.args[0]) == 'memory_name']
    rep.floor('commons.function-pointers-are-not-strings', len(shifted) + len(stored), 2, 'define(): the shifted name and the scalar that holds the pointer')
    comps = [c for c in own_nodes(pc) if isinstance(c, (ast.DictComp, ast.ListComp, ast.GeneratorExp, ast.SetComp))
             and any(isinstance(x, ast.Call) and isinstance(x.func, ast.Attribute) and x.func.attr == 'to_pointer' for x in ast.walk(c))
             and 'common_scalars' in norm(c.generators[0].iter)]
    rep.floor('commons.function-pointers-are-not-strings', len(comps), 1, 'comprehensions that read scalars as string pointers')
    for c in comps:
        g = c.generators[0]
        var = norm(g.target.elts[0]) if isinstance(g.target, ast.Tuple) else norm(g.target)
        ok = any(_first_char_tested(t, var) for t in g.ifs)
        rep.ob('commons.function-pointers-are-not-strings', 'preserve_commons: %s' % short(c, 70), ok,
               'every scalar named ...$ is read as a string pointer: the code address stored for DEF FNA$ is dereferenced (ValueError) by CHAIN ...,ALL', ctx.where(c))


def _rebuild_takes_over_the_pointer(ctx, rep):
    """The preserved strings come back with the allocation pointer of the space they were copied into; anything in
    rebuild() that writes `current` after that (clear() resets it to the top of memory) makes the chained program
    allocate its next string on top of the COMMON strings."""
    STR = 'pcbasic/basic/values/strings.py'
    rb = ctx.fn(STR + ':StringSpace.rebuild')
    par = [a.arg for a in rb.args.args if a.arg != 'self']
    cls = rb._parent

    def writes_current(fn):
        for n in own_nodes(fn):
            tg = n.targets if isinstance(n, ast.Assign) else [n.target] if isinstance(n, ast.AugAssign) else []
            if any(norm(t) == 'self.current' for t in tg):
                return True
        return False
    resetters = sorted(f.name for f in cls.body if isinstance(f, ast.FunctionDef) and f is not rb and writes_current(f))
    rep.floor('commons.rebuild-pointer-taken-over-last', len(resetters), 2, 'StringSpace methods that move the allocation pointer')
    takes = [i for i, st in enumerate(rb.body) if isinstance(st, ast.Assign) and norm(st.targets[0]) == 'self.current'
             and par and norm(st.value) == par[0] + '.current']
    late = []
    if takes:
        for st in rb.body[takes[-1] + 1:]:
            for c in ast.walk(st):
                if isinstance(c, ast.Call) and isinstance(c.func, ast.Attribute) and norm(c.func.value) == 'self' and c.func.attr in resetters:
                    late.append(short(c, 40))
                tg = c.targets if isinstance(c, ast.Assign) else [c.target] if isinstance(c, ast.AugAssign) else []
                if any(norm(t) == 'self.current' for t in tg):
                    late.append(short(c, 40))
    rep.ob('commons.rebuild-pointer-taken-over-last', 'rebuild(): the allocation pointer of the stored copy is taken over, and nothing moves it afterwards',
           len(takes) >= 1 and not late, 'moved again by: %s' % late if takes else 'the pointer of the stored copy is not taken over unconditionally', ctx.where(rb))


def variants(ctx):
    Va = mu.Variant

    def in_fn(path_fn, f):
        return lambda tree: f(mu.find_def(tree, path_fn))

    return [
        Va('clear-flags-swapped', 'break', IMPL,
           in_fn('Implementation._clear_all', lambda fn: mu.replace_expr(fn, mu.text_is('self.memory.clear(preserve_base, preserve_deftype)'), 'self.memory.clear(preserve_deftype, preserve_base)')), expect='reset.arguments'),
        Va('chain-fixes-temporaries-too-early', 'break', IMPL, in_fn('Implementation.chain_', _fix_first), expect='chain.temporaries'),
        Va('clear-all-keeps-rnd', 'break', IMPL, in_fn('Implementation._clear_all', lambda fn: mu.remove_stmt(fn, mu.text_is('self.randomiser.clear()'))), expect='random'),
        Va('clear-all-keeps-functions', 'break', IMPL,
           in_fn('Implementation._clear_all', lambda fn: mu.remove_stmt(fn, lambda st: isinstance(st, ast.If) and 'preserve_functions' in norm(st.test))), expect='DEF FN'),
        Va('interpreter-clear-keeps-error-trap', 'break', INTERP,
           in_fn('Interpreter.clear', lambda fn: mu.remove_stmt(fn, mu.text_is('self._init_error_trapping()'))), expect='error'),
        Va('interpreter-clear-keeps-events', 'break', INTERP,
           in_fn('Interpreter.clear', lambda fn: mu.remove_stmt(fn, mu.text_is('self._basic_events.reset()'))), expect='event'),
        Va('memory-clear-keeps-base', 'break', MEMORY,
           in_fn('DataSegment.clear', lambda fn: mu.remove_stmt(fn, lambda st: isinstance(st, ast.If) and 'preserve_base' in norm(st.test))), expect='OPTION BASE'),
        Va('memory-clear-keeps-arrays', 'break', MEMORY, in_fn('DataSegment.clear', lambda fn: mu.remove_stmt(fn, mu.text_is('self.arrays.clear()'))), expect='array'),
        Va('new-skips-clear-all', 'break', IMPL, in_fn('Implementation.new_', lambda fn: mu.remove_stmt(fn, mu.text_is('self._clear_all()'))), expect='reset'),
        Va('run-keeps-data-pointer', 'break', INTERP,
           in_fn('Interpreter.clear_stacks_and_pointers', lambda fn: mu.remove_stmt(fn, mu.text_is('self.data_pos = 0'))) , expect=None,
           also=[(INTERP, in_fn('Interpreter.clear', lambda fn: mu.remove_stmt(fn, mu.text_is('self.data_pos = 0'))))]),
        Va('chain-clears-outside-context', 'break', IMPL, in_fn('Implementation.chain_', _hoist_clear), expect='chain'),
        Va('chain-always-keeps-functions', 'break', IMPL,
           in_fn('Implementation.chain_', _always_keep_functions), expect='chain'),
        Va('common-literal-strings-not-copied', 'break', 'pcbasic/basic/values/strings.py',
           lambda tree: mu.insert_first(mu.find_def(tree, 'StringSpace.copy_to'), "if length == 0 or address < self._memory.var_start():\n    return length, address"),
           expect='commons.strings-copied-wherever-they-live'),
        Va('function-pointer-read-as-string', 'break', MEMORY,
           in_fn('DataSegment.preserve_commons', lambda fn: mu.replace_expr(fn, mu.text_is("name[-1:] == values.STR and name[:1] < b'\\x80'"), 'name[-1:] == values.STR')),
           expect='commons.function-pointers-are-not-strings'),
        Va('rebuild-clears-after-taking-pointer', 'break', 'pcbasic/basic/values/strings.py',
           in_fn('StringSpace.rebuild', _pointer_first), expect='commons.rebuild-pointer-taken-over-last'),
        Va('rebuild-update-before-pointer', 'neutral', 'pcbasic/basic/values/strings.py',
           in_fn('StringSpace.rebuild', lambda fn: (fn.body.append(fn.body.pop(-2)), True)[1])),
        Va('commons-restored-before-strings', 'break', MEMORY, in_fn('DataSegment.preserve_commons', _rebuild_last), expect='commons.strings-rebuilt'),
        Va('stacks-reset-to-copies', 'break', INTERP,
           in_fn('Interpreter._clear_stacks', lambda fn: mu.replace_stmt(fn, mu.text_is('self.gosub_stack = []'), 'self.gosub_stack = list(self.gosub_stack)')),
           expect='reset.initial-values'),
        Va('clear-order-swapped', 'neutral', IMPL, in_fn('Implementation._clear_all', _swap_two)),
    ]


def _hoist_clear(fn):
    w = [n for n in ast.walk(fn) if isinstance(n, ast.With) and 'preserve_commons' in norm(n.items[0].context_expr)][0]
    c = [s for s in w.body if isinstance(s, ast.Expr) and 'self._clear_all' in norm(s)][0]
    w.body.remove(c)
    fn.body.insert(fn.body.index(w), c)
    return True


def _pointer_first(fn):
    i = [k for k, st in enumerate(fn.body) if norm(st) == 'self.current = stringspace.current'][0]
    fn.body.insert(1 if isinstance(fn.body[0], ast.Expr) and isinstance(fn.body[0].value, ast.Constant) else 0, fn.body.pop(i))
    return True


def _rebuild_last(fn):
    for n in ast.walk(fn):
        if isinstance(n, ast.With):
            for i, s in enumerate(n.body):
                if norm(s) == 'self.strings.rebuild(string_store)':
                    n.body.append(n.body.pop(i))
                    return True
    return False


def _swap_two(fn):
    a = [s for s in fn.body if norm(s) == 'self.sound.stop_all_sound()'][0]
    b = [s for s in fn.body if norm(s) == 'self.sound.reset_play()'][0]
    ia, ib = fn.body.index(a), fn.body.index(b)
    fn.body[ia], fn.body[ib] = fn.body[ib], fn.body[ia]
    return True


def _always_keep_functions(fn):
    for n in ast.walk(fn):
        if isinstance(n, ast.Call) and norm(n.func) == 'self._clear_all':
            for k in n.keywords:
                if k.arg == 'preserve_functions':
                    k.value = ast.Constant(value=True)
                    return True
    return False


def _fix_first(fn):
    ft = [s for s in fn.body if isinstance(s, ast.Expr) and 'fix_temporaries' in norm(s)]
    w = [s for s in fn.body if isinstance(s, ast.With)]
    if len(ft) != 1 or len(w) != 1:
        return False
    fn.body.remove(ft[0])
    fn.body.insert(fn.body.index(w[0]), ft[0])
    return True

"""
C06 -- numeric comparisons agree with the exact order.

Decides mutual consistency *by construction*: the six relational callbacks are
derived from exactly two primitives (eq, gt) with the argument order and
negation that make `<=` the negation of `>`, `>=` the negation of `<`, `<>` the
negation of `=`; every relational operator spelling is bound to the callback
with that meaning; results are from_bool (-1/0).  Zero handling: Float.eq and
Float.gt decide zero operands before looking at mantissa bytes; mixed-type
operands are upgraded to the wider type and re-dispatched to the *same*
relation with the *same* operand order; match_types promotes Double > Single >
Integer.  Not decided: that _abs_gt orders every pair of encodings (numeric).
"""
import ast

from ..source import norm, short
from ..flow import own_nodes
from .. import mutate as mu
from .. import valuesmodel as vm

PROP = 'C06'
LEVEL = 'other'
TECHNIQUE = 'static analysis: relation semantics derived from callback ASTs, path facts for zero/sign handling, sibling agreement eq/gt'
EXPLANATION = __doc__

N = vm.NUMBERS
V = vm.VALUES

WANT = {'eq': 'EQ', 'neq': 'NE', 'gt': 'GT', 'gte': 'GE', 'lt': 'LT', 'lte': 'LE'}


def _upgrade_shape(ctx, rep, cls, meth):
    """Mixed-type branches re-dispatch to the same relation, same operand order."""
    fn = ctx.fn('%s:%s.%s' % (N, cls, meth))
    fl = ctx.flow(fn)
    n = 0
    for r in vm.returns(fn):
        facts = [(f.text, f.pol) for f in fl.facts(r)]
        isinst = [t for t, p in facts if p and t.startswith('isinstance(rhs,')]
        if not isinst:
            continue
        n += 1
        c = r.value
        ok = isinstance(c, ast.Call) and isinstance(c.func, ast.Attribute) and c.func.attr == meth
        detail = norm(r.value)
        if ok:
            recv, args = norm(c.func.value), [norm(a) for a in c.args]
            if cls == 'Integer':
                # self upgraded to rhs' class, rhs stays on the right
                ok = recv == 'rhs.new().from_integer(self)' and args == ['rhs']
            else:
                if 'Integer' in isinst[0]:
                    ok = recv == 'self' and args == ['self.new().from_integer(rhs)']
                else:
                    ok = recv == 'Double(None, self._values).from_single(self)' and args == ['rhs'] and \
                        any(t == 'isinstance(rhs, Double) and isinstance(self, Single)' for t, p in facts if p)
        rep.ob('upgrade.same-relation-same-order', '%s.%s under %s' % (cls, meth, isinst[0]), ok, detail, ctx.where(r))
    return n


def _abs_gt_domain(ctx, rep):
    """Float._abs_gt decides by the first differing byte, most significant first: the loop must visit
    *every* byte of the buffer (a byte left out makes two different numbers compare as equal-but-not-eq)."""
    fn = ctx.fn(N + ':Float._abs_gt')
    loops = [n for n in own_nodes(fn) if isinstance(n, ast.For)]
    if len(loops) != 1:
        rep.error('Float._abs_gt: expected one comparison loop, found %d' % len(loops))
        return
    it = loops[0].iter
    t = norm(it)
    verdict = None
    if isinstance(it, ast.Call) and norm(it.func) == 'reversed':
        # reversed(list(zip(<whole buffers>)))  -- any subscript/slice inside restricts the domain
        sub = [x for x in ast.walk(it) if isinstance(x, ast.Subscript)]
        zips = [x for x in ast.walk(it) if isinstance(x, ast.Call) and norm(x.func) == 'zip']
        if len(zips) == 1 and len(zips[0].args) == 2:
            verdict = (not sub, 'the zipped buffers are sliced: %s' % t)
    elif isinstance(it, ast.Call) and norm(it.func) == 'range' and len(it.args) == 3:
        start, stop, step = [norm(a) for a in it.args]
        if step in ('-1', '- 1') and start in ('self.size - 1', 'len(self._buffer) - 1', 'self.size-1'):
            verdict = (stop in ('-1', '- 1'), 'descending range stops at %s: byte(s) below that index are never compared' % stop)
    elif isinstance(it, ast.Call) and norm(it.func) == 'reversed' or (isinstance(it, ast.Call) and norm(it.func) == 'range' and len(it.args) == 1):
        pass
    if verdict is None:
        rep.error('Float._abs_gt: comparison loop over `%s` is not a form this rule understands' % t)
        return
    rep.ob('abs-gt.every-byte-msb-first', '_abs_gt walks every byte of the buffer from the most significant down', verdict[0], verdict[1] if not verdict[0] else '', ctx.where(loops[0]))
    body = loops[0].body
    ok = len(body) == 1 and isinstance(body[0], ast.If) and len(body[0].orelse) == 1 and isinstance(body[0].orelse[0], ast.If)
    if ok:
        c1, c2 = body[0].test, body[0].orelse[0].test
        r1, r2 = body[0].body[0], body[0].orelse[0].body[0]
        ok = (isinstance(c1, ast.Compare) and isinstance(c2, ast.Compare) and isinstance(c1.ops[0], ast.Gt) and isinstance(c2.ops[0], ast.Lt)
              and norm(c1.left) == norm(c2.left) and norm(c1.comparators[0]) == norm(c2.comparators[0])
              and isinstance(r1, ast.Return) and isinstance(r2, ast.Return) and norm(r1.value) == 'True' and norm(r2.value) == 'False')
    rep.ob('abs-gt.first-difference-decides', 'the first differing byte decides: greater -> True, smaller -> False', ok, '', ctx.where(loops[0]))


def check(ctx, rep):
    # 1. derived semantics of the six callbacks
    for name, want in sorted(WANT.items()):
        fn = ctx.fn('%s:%s' % (V, name))
        sem = vm.comparison_semantics(ctx, fn)
        rep.ob('relation.derived-from-primitives', 'values.%s computes %s' % (name, want), sem == want,
               'derived %s' % sem, ctx.where(fn))
    # negation pairs through the operator table
    prec, unary, binary = vm.operator_tables(ctx)
    sems = {}
    for tok, (k, v) in binary.items():
        fn = vm.resolve_callback(ctx, v)
        if fn is not None and not isinstance(fn, ast.Lambda):
            s = vm.comparison_semantics(ctx, fn)
            if s:
                sems[tok] = s
    want_tok = {b'>': 'GT', b'=': 'EQ', b'<': 'LT', b'>=': 'GE', b'=>': 'GE', b'<=': 'LE', b'=<': 'LE', b'<>': 'NE', b'><': 'NE'}
    tokm = ctx.mod('pcbasic/basic/base/tokens.py')
    sym = {}
    for nm, ch in (('O_GT', b'>'), ('O_EQ', b'='), ('O_LT', b'<')):
        sym[ctx.cf.module_const(tokm, nm)] = ch
    for tok, s in sorted(sems.items()):
        spelled = b''.join(sym.get(tok[i:i + 1], b'?') for i in range(len(tok)))
        rep.ob('relation.spelling', 'operator %s -> %s' % (spelled.decode(), s), want_tok.get(spelled) == s,
               'required %s' % want_tok.get(spelled), vm.OPERATORS)
    rep.floor('relation.spelling', len(sems), 9, 'relational spellings')
    # 2. primitives go through match_types, and match_types promotes in the right order
    mt = ctx.fn(V + ':match_types')
    order = []
    for st in mt.body:
        node = st
        while isinstance(node, ast.If):
            order.append((norm(node.test), norm(node.body[0]) if node.body else ''))
            node = node.orelse[0] if len(node.orelse) == 1 else None
    kinds = []
    for test, body in order:
        for cls, conv in (('Double', 'to_double'), ('Single', 'to_single'), ('Integer', 'to_integer'), ('String', 'pass_string')):
            if 'isinstance(left, %s)' % ('numbers.' + cls if cls != 'String' else 'strings.String') in test:
                both = 'isinstance(right, %s)' % ('numbers.' + cls if cls != 'String' else 'strings.String') in test and ' or ' in test
                conv_ok = body == 'return (%s(left), %s(right))' % (conv, conv)
                kinds.append(cls)
                rep.ob('match_types.branch', '%s: either operand -> both %s' % (cls, conv), both and conv_ok,
                       '%s => %s' % (test, body), ctx.where(mt))
    rep.ob('match_types.order', 'Double before Single before Integer before String',
           kinds == ['Double', 'Single', 'Integer', 'String'], repr(kinds), ctx.where(mt))
    # the two primitives have one path: match the operand types, then ask the matched left operand
    for prim, meth in (('_bool_eq', 'eq'), ('_bool_gt', 'gt')):
        pf = ctx.fn('%s:%s' % (V, prim))
        rets = vm.returns(pf)
        matched = [a for a in own_nodes(pf) if isinstance(a, ast.Assign) and norm(a) == 'left, right = match_types(left, right)']
        for r in rets:
            ok = norm(r.value) == 'left.%s(right)' % meth and len(matched) == 1 and matched[0].lineno < r.lineno and not ctx.flow(pf).facts(r)
            rep.ob('relation.primitive-single-path', '%s: every result is left.%s(right) of the type-matched operands' % (prim, meth), ok,
                   'a result that bypasses the matched relation (%s): zeros in different encodings, or operands of different widths, compare by their bytes' % short(r, 60),
                   ctx.where(r))
        rep.floor('relation.primitive-single-path.%s' % prim, len(rets), 1, 'returns')
    # 3. Float.eq: zero first
    feq = ctx.fn(N + ':Float.eq')
    fl = ctx.flow(feq)
    buf = [r for r in vm.returns(feq) if norm(r.value) == 'self._buffer == rhs._buffer']
    rep.ob('float-eq.zero-before-bytes', 'Float.eq compares buffers only for non-zero self',
           len(buf) == 1 and fl.knows(buf[0], 'self.is_zero()', False), '', ctx.where(feq))
    z = [r for r in vm.returns(feq) if norm(r.value) == 'rhs.is_zero()']
    rep.ob('float-eq.zero-equals-any-zero', 'Float.eq returns rhs.is_zero() when self is zero',
           len(z) == 1 and fl.knows(z[0], 'self.is_zero()', True), '', ctx.where(feq))
    # all returns of Float.eq after type upgrade are one of these
    # 4. Float.gt: zero, sign, magnitude
    fgt = ctx.fn(N + ':Float.gt')
    fl = ctx.flow(fgt)
    rets = vm.returns(fgt)
    classified = 0
    for r in rets:
        t = norm(r.value)
        facts = dict(((f.text, f.pol) for f in fl.facts(r)))
        if any(k.startswith('isinstance(') and v for k, v in facts.items()):
            continue  # type upgrade branches: rule 5
        classified += 1
        if facts.get('self.is_zero()') is True:
            # zero > rhs  iff  rhs is negative and not itself a (negative) zero
            conj = r.value.values if isinstance(r.value, ast.BoolOp) and isinstance(r.value.op, ast.And) else [r.value]
            texts = [norm(c) for c in conj]
            neg = any(x in ('bool(rhsneg)', 'rhsneg', 'rhs.is_negative()', 'bool(rhs.is_negative())') for x in texts)
            nz = any(x in ('not rhs.is_zero()', 'not (rhs.is_zero())') for x in texts)
            rep.ob('float-gt.zero', 'zero > rhs iff rhs negative and non-zero', neg and nz and len(conj) == 2,
                   'returns %s: a zero would compare greater than a negative zero, contradicting eq' % t, ctx.where(r))
        elif facts.get('isneg != rhsneg') is True:
            rep.ob('float-gt.signs-differ', 'signs differ -> positive is greater',
                   t in ('not isneg', 'not (isneg)', 'rhsneg', 'bool(rhsneg)') and facts.get('self.is_zero()') is False, t, ctx.where(r))
        elif facts.get('isneg') is True:
            rep.ob('float-gt.both-negative', 'both negative -> |rhs| > |self|',
                   t == 'rhs._abs_gt(self)' and facts.get('isneg != rhsneg') is False, t, ctx.where(r))
        else:
            rep.ob('float-gt.both-positive', 'both positive -> |self| > |rhs|',
                   t == 'self._abs_gt(rhs)' and facts.get('isneg') is False and facts.get('isneg != rhsneg') is False and facts.get('self.is_zero()') is False,
                   t, ctx.where(r))
    rep.floor('float-gt.cases', classified, 4, 'return cases')
    # isneg/rhsneg definitions
    assigns = dict((norm(n.targets[0]), norm(n.value)) for n in own_nodes(fgt) if isinstance(n, ast.Assign))
    rep.ob('float-gt.sign-definitions', 'isneg/rhsneg read the sign bits',
           assigns.get('isneg') == 'self.is_negative()' and assigns.get('rhsneg') == 'rhs.is_negative()', repr(assigns), ctx.where(fgt))
    _abs_gt_domain(ctx, rep)
    # 5. upgrades
    n = 0
    for cls in ('Integer', 'Float'):
        for meth in ('gt', 'eq'):
            n += _upgrade_shape(ctx, rep, cls, meth)
    rep.floor('upgrade.same-relation-same-order', n, 6, 'mixed-type branches')
    # 6. Integer.gt: sign, then high byte, then low byte; Integer.eq buffer equality
    igt = ctx.fn(N + ':Integer.gt')
    fl = ctx.flow(igt)
    seen = set()
    for r in vm.returns(igt):
        t = norm(r.value)
        facts = dict(((f.text, f.pol) for f in fl.facts(r)))
        if t in ('not isneg', 'not (isneg)'):
            seen.add('sign')
            rep.ob('int-gt.sign', 'signs differ -> non-negative is greater',
                   facts.get('isneg != bytearray(rhs._buffer)[-1] & 128') is True, t, ctx.where(r))
        elif t == 'True':
            seen.add('msb>')
            rep.ob('int-gt.msb', 'higher high byte -> greater', facts.get('lmsb > rmsb') is True, t, ctx.where(r))
        elif t == 'False':
            seen.add('msb<')
            rep.ob('int-gt.msb', 'lower high byte -> not greater', facts.get('lmsb < rmsb') is True, t, ctx.where(r))
        elif t == 'bytearray(self._buffer)[0] > bytearray(rhs._buffer)[0]':
            seen.add('lsb')
            rep.ob('int-gt.lsb', 'equal high bytes -> compare low bytes',
                   facts.get('lmsb > rmsb') is False and facts.get('lmsb < rmsb') is False, t, ctx.where(r))
    rep.ob('int-gt.complete', 'Integer.gt decides sign, high byte, low byte', seen == {'sign', 'msb>', 'msb<', 'lsb'}, repr(sorted(seen)), ctx.where(igt))
    ieq = ctx.fn(N + ':Integer.eq')
    rep.ob('int-eq.buffer', 'Integer.eq is buffer equality',
           any(norm(r.value) == 'self._buffer == rhs._buffer' for r in vm.returns(ieq)), '', ctx.where(ieq))


def variants(ctx):
    Va = mu.Variant

    def in_fn(fname, f):
        return lambda tree: f(mu.find_def(tree, fname))

    return [
        Va('gte-uses-same-order', 'break', V,
           in_fn('gte', lambda fn: mu.replace_expr(fn, mu.text_is('_bool_gt(right, left)'), '_bool_gt(left, right)')),
           expect='relation'),
        Va('eq-shortcut-compares-bytes', 'break', V,
           in_fn('_bool_eq', lambda fn: mu.insert_first(fn, "if isinstance(left, numbers.Number) and type(left) is type(right):\n    return left.to_bytes() == right.to_bytes()")),
           expect='relation.primitive-single-path'),
        Va('neq-loses-not', 'break', V,
           in_fn('neq', lambda fn: mu.replace_expr(fn, mu.text_is('not _bool_eq(left, right)'), '_bool_eq(left, right)')),
           expect='relation'),
        Va('float-eq-bytes-first', 'break', N,
           in_fn('Float.eq', lambda fn: mu.remove_stmt(fn, mu.stmt_has('self.is_zero()', ast.If))),
           expect='float-eq'),
        Va('abs-gt-skips-lowest-byte', 'break', N, in_fn('Float._abs_gt', _range_loop), expect='abs-gt.every-byte'),
        Va('float-gt-zero-ignores-negative-zero', 'break', N,
           in_fn('Float.gt', lambda fn: mu.replace_expr(fn, mu.text_is('bool(rhsneg) and (not rhs.is_zero())'), 'bool(rhsneg)')), expect='float-gt.zero'),
        Va('float-gt-negative-wrong-direction', 'break', N,
           in_fn('Float.gt', lambda fn: mu.replace_expr(fn, mu.text_is('rhs._abs_gt(self)'), 'self._abs_gt(rhs)')),
           expect='float-gt'),
        Va('integer-gt-upgrade-swaps-operands', 'break', N,
           in_fn('Integer.gt', lambda fn: mu.replace_expr(fn, mu.text_is('rhs.new().from_integer(self).gt(rhs)'),
                                                          'rhs.gt(rhs.new().from_integer(self))')),
           expect='upgrade'),
        Va('float-eq-upgrade-calls-gt', 'break', N,
           in_fn('Float.eq', lambda fn: mu.replace_expr(fn, mu.text_is('self.eq(self.new().from_integer(rhs))'),
                                                        'self.gt(self.new().from_integer(rhs))')),
           expect='upgrade'),
        Va('match-types-single-first', 'break', V, in_fn('match_types', _swap_first_two_branches), expect='match_types'),
        Va('le-spelled-as-lt', 'break', vm.OPERATORS,
           lambda tree: mu.set_dict_value(mu.find_assign_value(tree, 'BINARY'), 'tk.O_LT + tk.O_EQ', 'values.lt'),
           expect='relation.spelling'),
        Va('int-gt-lsb-ge', 'break', N,
           in_fn('Integer.gt', lambda fn: mu.replace_expr(fn, mu.text_is('bytearray(self._buffer)[0] > bytearray(rhs._buffer)[0]'),
                                                          'bytearray(self._buffer)[0] >= bytearray(rhs._buffer)[0]')),
           expect='int-gt'),
        Va('rename-param', 'neutral', V, in_fn('lte', lambda fn: mu.rename_local(fn, 'left', 'lhs'))),
        Va('docstring-change', 'neutral', N, in_fn('Float.gt', lambda fn: mu.insert_first(fn, 'pass'))),
    ]


def _swap_first_two_branches(fn):
    top = [st for st in fn.body if isinstance(st, ast.If)][0]
    second = top.orelse[0]
    top.test, second.test = second.test, top.test
    top.body, second.body = second.body, top.body
    return True


def _range_loop(fn):
    lp = [n for n in ast.walk(fn) if isinstance(n, ast.For)][0]
    new = ast.parse("for l, r in reversed(list(zip(bytearray(self._buffer)[1:], bytearray(rhscopy)[1:]))):\n    pass").body[0]
    lp.iter = new.iter
    return True

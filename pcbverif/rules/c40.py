"""
C40 -- a suspended session resumes exactly where it stopped (structural half).

Decides:
 * tamper detection of the state file header: HEADER_FORMAT has one field per
   HEADER_KEYS entry; save_session packs the header in HEADER_KEYS order and
   load_session unpacks with the same keys; every header field is compared on
   loading in a condition that leads to a raise (format_version was written
   but never compared -- repaired in /repo fb840057); the checksum is
   zlib.crc32 over the *whole* rest of the file on both sides and is compared
   before anything is unpickled; a short header raises;
 * nothing is dropped by pickling: for every class with __getstate__, each
   attribute it sets to None or deletes in the pickled dict is re-established
   by its __setstate__ (directly, through a method it calls), or -- for the
   parser callback tables -- by Implementation.__setstate__ ->
   parser.init_callbacks -> init_statements / init_functions;
 * statement restart: Interpreter.__setstate__ seeks the code stream back to
   current_statement (and skips the statement only if it is not to be redone);
   Implementation.__setstate__ re-assigns the callbacks before anything runs.
Not decided: behavioural equivalence at every statement boundary.
"""
import ast

from ..source import norm, short, qualname, class_methods
from ..flow import own_nodes
from .. import mutate as mu

PROP = 'C40'
LEVEL = 'other'
TECHNIQUE = 'static analysis: header field coverage by comparisons, writer/reader agreement, getstate/setstate pairing over all classes'
EXPLANATION = __doc__

ST = 'pcbasic/basic/state.py'
IMPL = 'pcbasic/basic/implementation.py'
INTERP = 'pcbasic/basic/interpreter.py'


def _rebuilt_streams_keep_position(ctx, rep):
    """A stream object that cannot be pickled and is rebuilt in __setstate__ starts at offset 0: the class must carry
    the position across (tell() stored by __getstate__, seek() to the same key in __setstate__), or a half-read /
    half-written FIELD buffer restarts from its beginning after resume."""
    n = 0
    for cls in ctx.idx.classes_in('pcbasic/basic/') if hasattr(ctx.idx, 'classes_in') else _classes(ctx):
        m = class_methods(cls)
        gs, ss = m.get('__getstate__'), m.get('__setstate__')
        if gs is None or ss is None:
            continue
        rebuilt = [a for a in own_nodes(ss) if isinstance(a, ast.Assign) and isinstance(a.targets[0], ast.Attribute) and norm(a.targets[0].value) == 'self'
                   and isinstance(a.value, ast.Call) and norm(a.value.func).split('.')[-1] in ('ByteStream', 'BytesIO')]
        for a in rebuilt:
            n += 1
            attr = 'self.' + a.targets[0].attr
            tells = [x for x in own_nodes(gs) if isinstance(x, ast.Assign) and isinstance(x.value, ast.Call) and norm(x.value.func) == attr + '.tell'
                     and isinstance(x.targets[0], ast.Subscript) and isinstance(x.targets[0].slice, ast.Constant)]
            ok, detail = False, '__getstate__ does not record %s.tell()' % attr
            if len(tells) == 1:
                key = tells[0].targets[0].slice.value
                reads = [x for x in own_nodes(ss) if isinstance(x, ast.Assign) and isinstance(x.value, (ast.Call, ast.Subscript)) and repr(key) in norm(x.value)
                         and isinstance(x.targets[0], ast.Name)]
                seeks = [c for c in own_nodes(ss) if isinstance(c, ast.Call) and norm(c.func) == attr + '.seek' and c.args and reads
                         and norm(c.args[0]) == reads[0].targets[0].id and c.lineno > a.lineno]
                ok = len(reads) == 1 and len(seeks) == 1
                detail = '__setstate__ rebuilds %s but does not seek to the recorded position %r' % (attr, key)
            rep.ob('state.rebuilt-stream-keeps-position', '%s: %s is rebuilt on resume at the position it had' % (cls.name, attr), ok, detail, ctx.where(a))
    rep.floor('state.rebuilt-stream-keeps-position', n, 1, 'streams rebuilt in __setstate__')


def _classes(ctx):
    for m in ctx.idx.modules.values():
        if m.path.startswith('pcbasic/basic/'):
            for c in m.classes.values():
                yield c


def _resume_position(ctx, rep):
    """On resume the interpreter goes back to the start of the interrupted statement and skips it: a statement that
    starts a line is preceded by the NUL separator *and* the 4-byte line header (link, line number), whose bytes may
    look like separators -- they are read over before the search for the end of the statement."""
    ss = ctx.fn(INTERP + ':Interpreter.__setstate__')
    fl = ctx.flow(ss)
    hdr = [c for c in own_nodes(ss) if isinstance(c, ast.Call) and norm(c.func) == 'ins.read' and [norm(a) for a in c.args] == ['4']]
    skip = [c for c in own_nodes(ss) if isinstance(c, ast.Call) and norm(c.func) == 'ins.skip_to']
    seek = [c for c in own_nodes(ss) if isinstance(c, ast.Call) and norm(c.func) == 'ins.seek' and [norm(a) for a in c.args] == ['self.current_statement']]
    rep.ob('resume.line-header-skipped', 'resuming at a statement that starts a line reads over the 4-byte line header before looking for the statement end',
           len(hdr) == 1 and len(skip) == 1 and len(seek) == 1 and fl.knows(hdr[0], 'ins.read(1) in tk.END_LINE', True)
           and seek[0].lineno < hdr[0].lineno < skip[0].lineno and [norm(a) for a in skip[0].args] == ['tk.END_STATEMENT'],
           'a NUL or `:` byte inside the line header (line numbers below 256, 58, multiples of 256 ...) is taken for the end of the statement: the resumed program continues in the middle of the header',
           ctx.where(ss))


def check(ctx, rep):
    # the file handles a session holds are of the kinds state.py knows how to save: buffered binary streams.  An unbuffered
    # io.open(...) gives a raw FileIO, for which no pickler is registered -- suspend() fails while such a file is open
    os_ = ctx.fn('pcbasic/basic/devices/disk.py:DiskDevice.open_stream')
    opens = [c for c in own_nodes(os_) if isinstance(c, ast.Call) and norm(c.func) == 'io.open']
    rep.floor('suspend.open-files-are-picklable-kinds', len(opens), 1, 'io.open calls in open_stream')
    for c in opens:
        raw = len(c.args) > 2 or any(k.arg == 'buffering' for k in c.keywords)
        rep.ob('suspend.open-files-are-picklable-kinds', 'open_stream: %s opens a buffered stream' % short(c, 50), not raw,
               'a buffering argument is passed: with 0 the handle is a raw FileIO, which state.py cannot save (TypeError in Session.suspend while the file is open)', ctx.where(c))
    # after a resume the prompt is suppressed exactly when the session was NOT running a program (the resumed prompt is
    # already on the screen); inside a running program the Ok at its end must still come
    ss = ctx.fn('pcbasic/basic/implementation.py:Implementation.__setstate__')
    fls = ctx.flow(ss)
    pr = [a for a in own_nodes(ss) if isinstance(a, ast.Assign) and norm(a.targets[0]) == 'self._prompt' and norm(a.value) == 'False']
    facts = [sorted((f.text, f.pol) for f in fls.facts(a) if not f.text.startswith('not ')) for a in pr]
    rep.ob('resume.prompt-suppressed-only-outside-a-program', '__setstate__ suppresses the prompt iff not interpreter.parse_mode',
           facts == [[('self.interpreter.parse_mode', False)]], repr(facts), ctx.where(ss))
    # a file that was open for writing is rebuilt up to the recorded position only: what lies behind it in the file on disk was
    # written by close() at suspension (the 0x1A marker) and is not part of the stream
    uf = ctx.fn('pcbasic/basic/state.py:unpickle_file')
    flu = ctx.flow(uf)
    rd = [c for c in own_nodes(uf) if isinstance(c, ast.Call) and isinstance(c.func, ast.Attribute) and c.func.attr == 'read' and any(f.pol and "'w' in mode" in f.text for f in flu.facts(c))]
    rep.ob('resume.writable-file-rebuilt-to-position', 'unpickle_file copies exactly `pos` bytes of the old contents of a writable file',
           len(rd) == 1 and [norm(a) for a in rd[0].args] == ['pos'], repr([norm(x) for x in rd]), ctx.where(uf))
    # the redo flag of a keyboard INPUT / LINE INPUT is raised and lowered on the same object (the one the interpreter reads)
    n_flag = 0
    for fn in ctx.idx.functions('pcbasic/basic/implementation.py'):
        meth = fn.name
        if not any(isinstance(a, ast.Assign) and norm(a.targets[0]).endswith('.redo_on_break') for a in own_nodes(fn)):
            continue
        ups = sorted(norm(a.targets[0]) for a in own_nodes(fn) if isinstance(a, ast.Assign) and norm(a.targets[0]).endswith('.redo_on_break') and norm(a.value) == 'True')
        downs = sorted(norm(a.targets[0]) for a in own_nodes(fn) if isinstance(a, ast.Assign) and norm(a.targets[0]).endswith('.redo_on_break') and norm(a.value) == 'False')
        n_flag += len(ups)
        rep.ob('resume.redo-flag-paired', 'Implementation.%s raises and lowers the redo flag on self.parser' % meth,
               ups == downs and set(ups) == {'self.parser.redo_on_break'},
               'raised on %r, lowered on %r: the flag stays up, and a suspension at the next statement boundary re-executes the stopped statement on every resume' % (ups, downs), ctx.where(fn))
    rep.floor('resume.redo-flag-paired', n_flag, 2, 'statements that raise the redo flag')
    _rebuilt_streams_keep_position(ctx, rep)
    _resume_position(ctx, rep)
    keys = ctx.const(ST, 'HEADER_KEYS')
    fmt = ctx.const(ST, 'HEADER_FORMAT')
    nfields = len([c for c in fmt if c.isalpha()])
    rep.ob('header.format-matches-keys', 'HEADER_FORMAT has one field per key', nfields == len(keys), '%r / %r' % (fmt, keys), ST)
    hd = ctx.mod(ST).assigns.get('HEADER')
    hkeys = [ctx.fold(k) for k in hd.keys] if isinstance(hd, ast.Dict) else []
    rep.ob('header.format-matches-keys', 'HEADER defines every key but the checksum', sorted(hkeys + ['checksum']) == sorted(keys), repr(hkeys), ST)
    ld = ctx.fn(ST + ':load_session')
    sv = ctx.fn(ST + ':save_session')
    fl = ctx.flow(ld)
    compared = {}
    for n in own_nodes(ld):
        if isinstance(n, ast.If):
            leads_to_raise = any(isinstance(x, ast.Raise) for s in n.body for x in own_nodes(s))
            if not leads_to_raise:
                continue
            for c in own_nodes(n.test):
                if isinstance(c, ast.Compare) and isinstance(c.ops[0], ast.NotEq):
                    for side in (c.left, c.comparators[0]):
                        if isinstance(side, ast.Subscript) and norm(side.value) == 'header_dict':
                            k = ctx.fold(side.slice)
                            other = c.comparators[0] if side is c.left else c.left
                            compared[k] = norm(other)
    for k in keys:
        want = 'checksum' if k == 'checksum' else "HEADER['%s']" % k
        rep.ob('header.every-field-compared', 'load_session rejects a file whose %s differs' % k, compared.get(k) == want,
               'field %s is unpacked but never compared: altering those bytes is accepted' % k if k not in compared else 'compared with %s' % compared.get(k), ctx.where(ld))
    rep.floor('header.every-field-compared', len(keys), 6, 'header fields')
    a = dict((norm(x.targets[0]), norm(x.value)) for x in own_nodes(ld) if isinstance(x, ast.Assign))
    withs = [w for w in own_nodes(ld) if isinstance(w, ast.With) and w.items[0].optional_vars is not None]
    fh = norm(withs[0].items[0].optional_vars) if withs else '?'
    rep.ob('checksum.covers-whole-blob', 'the checksum is crc32 of everything after the header',
           a.get('header') == '%s.read(struct.calcsize(HEADER_FORMAT))' % fh and a.get('blob') == '%s.read()' % fh and a.get('checksum') == 'zlib.crc32(blob) & 4294967295', repr(a), ctx.where(ld))
    b = dict((norm(x.targets[0]), norm(x.value)) for x in own_nodes(sv) if isinstance(x, ast.Assign))
    rep.ob('checksum.same-on-save', 'save_session computes the same checksum over the blob it writes',
           b.get('checksum') == 'zlib.crc32(blob) & 4294967295' and b.get('header_dict') == 'dict(checksum=checksum, **HEADER)', repr(b), ctx.where(sv))
    rep.ob('header.same-order', 'header packed and unpacked in HEADER_KEYS order',
           b.get('header') == 'struct.pack(HEADER_FORMAT, *(header_dict[_key] for _key in HEADER_KEYS))' and
           a.get('header_dict') == 'dict(zip(HEADER_KEYS, struct.unpack(HEADER_FORMAT, header)))', '', ctx.where(sv))
    wr = [norm(c) for c in own_nodes(sv) if isinstance(c, ast.Call) and norm(c.func) == 'out_file.write']
    rep.ob('header.same-order', 'the file is header followed by blob', wr == ['out_file.write(header)', 'out_file.write(blob)'], repr(wr), ctx.where(sv))
    un = [c for c in own_nodes(ld) if isinstance(c, ast.Call) and norm(c.func) == 'pickle.loads']
    raises = [r for r in own_nodes(ld) if isinstance(r, ast.Raise)]
    rep.ob('checks-before-unpickling', 'all integrity checks precede unpickling', len(un) == 1 and all(r.lineno < un[0].lineno for r in raises) and len(raises) >= 5, '', ctx.where(ld))
    up = [c for c in own_nodes(ld) if isinstance(c, ast.Call) and norm(c.func) == 'struct.unpack']
    h = fl.in_try_catching(up[0], ('error',)) if up else None
    rep.ob('header.short-file', 'a truncated header raises', h is not None and any(isinstance(r, ast.Raise) for r in own_nodes(h)), '', ctx.where(ld))
    # getstate / setstate pairing
    impl_set = ctx.fn(IMPL + ':Implementation.__setstate__')
    global_restored = {}
    if any(isinstance(c, ast.Call) and norm(c) == 'self.parser.init_callbacks(self)' for c in own_nodes(impl_set)):
        ic = ctx.fn('pcbasic/basic/parser/statements.py:Parser.init_callbacks')
        calls = [norm(c.func) for c in own_nodes(ic) if isinstance(c, ast.Call)]
        if 'self.init_statements' in calls:
            global_restored[('Parser', '_callbacks')] = True
        if 'self.expression_parser.init_functions' in calls:
            global_restored[('ExpressionParser', '_callbacks')] = True
    n_pairs = 0
    for (path, cname), cls in sorted(ctx.idx.class_table().items()):
        if not path.startswith('pcbasic/basic/'):
            continue
        m = class_methods(cls)
        if '__getstate__' not in m:
            continue
        gs = m['__getstate__']
        nulled = []
        for n in own_nodes(gs):
            if isinstance(n, ast.Assign) and isinstance(n.targets[0], ast.Subscript) and isinstance(n.value, ast.Constant) and n.value.value is None:
                k = ctx.fold(n.targets[0].slice)
                if isinstance(k, str):
                    nulled.append(k)
            if isinstance(n, ast.Delete):
                for t in n.targets:
                    if isinstance(t, ast.Subscript):
                        k = ctx.fold(t.slice)
                        if isinstance(k, str):
                            nulled.append(k)
        if not nulled:
            continue
        ss = m.get('__setstate__')
        restored = set()
        if ss is not None:
            work = [ss]
            seen = set()
            while work:
                f = work.pop()
                if id(f) in seen:
                    continue
                seen.add(id(f))
                for n in own_nodes(f):
                    if isinstance(n, ast.Assign):
                        for t in n.targets:
                            for e in (t.elts if isinstance(t, ast.Tuple) else [t]):
                                if isinstance(e, ast.Attribute) and norm(e.value) == 'self':
                                    restored.add(e.attr)
                    if isinstance(n, ast.Call) and isinstance(n.func, ast.Attribute) and norm(n.func.value) == 'self' and n.func.attr in m:
                        work.append(m[n.func.attr])
        for k in nulled:
            n_pairs += 1
            ok = k in restored or global_restored.get((cname, k), False) or _lazy_cache(m, k)
            rep.ob('pickle.dropped-attribute-restored', '%s.%s dropped by __getstate__ is re-established on resume' % (cname, k), ok,
                   'not assigned by __setstate__ (or a method it calls) nor by Implementation.__setstate__', ctx.where(gs))
    rep.floor('pickle.dropped-attribute-restored', n_pairs, 8, 'dropped attributes')
    # init_statements / init_functions do assign the tables
    for spec, attr in (('pcbasic/basic/parser/statements.py:Parser.init_statements', 'self._callbacks'), ('pcbasic/basic/parser/expressions.py:ExpressionParser.init_functions', 'self._callbacks')):
        fn = ctx.fn(spec)
        rep.ob('pickle.callback-tables', '%s assigns %s' % (spec.split(':')[1], attr), any(isinstance(a_, ast.Assign) and norm(a_.targets[0]) == attr for a_ in own_nodes(fn)), '', ctx.where(fn))
    st = [norm(s) for s in impl_set.body if not (isinstance(s, ast.Expr) and isinstance(s.value, ast.Constant))]
    rep.ob('resume.callbacks-first', 'Implementation.__setstate__ restores the dict, then the callbacks', st[:2] == ['self.__dict__.update(pickle_dict)', 'self.parser.init_callbacks(self)'], repr(st[:2]), ctx.where(impl_set))
    iss = ctx.fn(INTERP + ':Interpreter.__setstate__')
    t = [norm(s) for s in iss.body]
    rep.ob('resume.statement-restart', 'Interpreter.__setstate__ seeks back to the start of the current statement',
           'ins = self.get_codestream()' in t and 'ins.seek(self.current_statement)' in t and t.index('ins = self.get_codestream()') < t.index('ins.seek(self.current_statement)'), repr(t), ctx.where(iss))
    skip = [n for n in iss.body if isinstance(n, ast.If) and norm(n.test) == 'not self.parser.redo_on_break']
    rep.ob('resume.statement-restart', 'the statement is skipped only if it is not to be redone', len(skip) == 1 and 'ins.skip_to(tk.END_STATEMENT)' in [norm(s) for s in skip[0].body], '', ctx.where(iss))


def _lazy_cache(methods, k):
    """
    `self.k = None` is a valid 'not loaded' state if a loader method tests it for None and
    assigns it, and every other method reading self.k calls the loader first.
    """
    attr = 'self.' + k
    loaders = []
    for name, fn in methods.items():
        tests = any(isinstance(n, ast.If) and norm(n.test) in ('%s is not None' % attr, '%s is None' % attr) for n in own_nodes(fn))
        assigns = any(isinstance(n, ast.Assign) and norm(n.targets[0]) == attr and not (isinstance(n.value, ast.Constant) and n.value.value is None) for n in own_nodes(fn))
        if tests and assigns:
            loaders.append(name)
    if not loaders:
        return False
    for name, fn in methods.items():
        if name in loaders or name in ('__init__', '__getstate__', '__setstate__'):
            continue
        reads = [n for n in own_nodes(fn) if isinstance(n, ast.Attribute) and norm(n) == attr and isinstance(n.ctx, ast.Load)]
        if not reads:
            continue
        first_read = min(r.lineno for r in reads)
        calls = [c.lineno for c in own_nodes(fn) if isinstance(c, ast.Call) and norm(c.func) in ['self.' + l for l in loaders]]
        if not calls or min(calls) > first_read:
            return False
    return True


def variants(ctx):
    Va = mu.Variant

    def in_fn(path_fn, f):
        return lambda tree: f(mu.find_def(tree, path_fn))

    return [
        mu.Variant('random-files-opened-unbuffered', 'break', 'pcbasic/basic/devices/disk.py',
                   lambda tree: mu.replace_expr(mu.find_def(tree, 'DiskDevice.open_stream'), mu.text_is("io.open(native_name, access_mode + 'b')"), "io.open(native_name, access_mode + 'b', 0)"),
                   expect='suspend.open-files-are-picklable-kinds'),
        mu.Variant('prompt-suppressed-inside-a-running-program', 'break', 'pcbasic/basic/implementation.py',
                   lambda tree: mu.replace_expr(mu.find_def(tree, 'Implementation.__setstate__'), mu.text_is('not self.interpreter.parse_mode'), 'self.interpreter.parse_mode'),
                   expect='resume.prompt-suppressed-only-outside-a-program'),
        mu.Variant('writable-file-rebuilt-whole', 'break', 'pcbasic/basic/state.py',
                   lambda tree: mu.replace_expr(mu.find_def(tree, 'unpickle_file'), mu.text_is('f.read(pos)'), 'f.read()'), expect='resume.writable-file-rebuilt-to-position'),
        mu.Variant('redo-flag-lowered-on-the-wrong-object', 'break', 'pcbasic/basic/implementation.py',
                   lambda tree: mu.replace_stmt(mu.find_def(tree, 'Implementation.line_input_'), mu.text_is('self.parser.redo_on_break = False'), 'self.interpreter.redo_on_break = False'),
                   expect='resume.redo-flag-paired'),
        Va('resume-does-not-skip-line-header', 'break', INTERP,
           lambda tree: mu.replace_stmt(mu.find_def(tree, 'Interpreter.__setstate__'), lambda st: isinstance(st, ast.If) and 'tk.END_LINE' in norm(st.test), 'ins.read(1)'), expect='resume.line-header'),
        Va('field-buffer-position-lost', 'break', 'pcbasic/basic/devices/diskfiles.py',
           lambda tree: mu.remove_stmt(mu.find_def(tree, 'FieldFile.__setstate__'), mu.text_is('self._fhandle.seek(pos)')), expect='state.rebuilt-stream'),
        Va('format-version-unchecked', 'break', ST,
           in_fn('load_session', lambda fn: mu.remove_stmt(fn, lambda st: isinstance(st, ast.If) and "header_dict['format_version']" in norm(st.test))), expect='header.every-field'),
        Va('minor-version-unchecked', 'break', ST,
           in_fn('load_session', lambda fn: mu.replace_expr(fn, lambda n: isinstance(n, ast.BoolOp) and "HEADER['pcbasic_minor']" in norm(n), "HEADER['pcbasic_major'] != header_dict['pcbasic_major']")),
           expect='header.every-field'),
        Va('checksum-of-prefix', 'break', ST,
           in_fn('load_session', lambda fn: mu.replace_expr(fn, mu.text_is('zlib.crc32(blob) & 4294967295'), 'zlib.crc32(blob[:1024]) & 4294967295')), expect='checksum'),
        Va('checksum-compared-after-unpickle', 'break', ST, in_fn('load_session', _checks_last), expect='checks-before'),
        Va('save-reorders-header', 'break', ST,
           in_fn('save_session', lambda fn: mu.replace_expr(fn, mu.text_is('(header_dict[_key] for _key in HEADER_KEYS)'), '(header_dict[_key] for _key in sorted(HEADER_KEYS))')), expect='header.same-order'),
        Va('parser-setstate-forgets-syntax', 'break', 'pcbasic/basic/parser/statements.py',
           in_fn('Parser.__setstate__', lambda fn: mu.remove_stmt(fn, mu.text_is('self._init_syntax()'))), expect='pickle.dropped'),
        Va('implementation-forgets-callbacks', 'break', IMPL,
           in_fn('Implementation.__setstate__', lambda fn: mu.remove_stmt(fn, mu.text_is('self.parser.init_callbacks(self)'))), expect='pickle'),
        Va('interpreter-step-not-restored', 'break', INTERP,
           in_fn('Interpreter.__setstate__', lambda fn: mu.remove_stmt(fn, mu.stmt_has('self.step = lambda', ast.Assign))), expect='pickle.dropped'),
        Va('resume-does-not-rewind', 'break', INTERP,
           in_fn('Interpreter.__setstate__', lambda fn: mu.remove_stmt(fn, mu.text_is('ins.seek(self.current_statement)'))), expect='resume.statement'),
        Va('new-header-field-unchecked', 'break', ST, _add_header_field, expect='header'),
        Va('neutral', 'neutral', ST, in_fn('load_session', lambda fn: mu.rename_local(fn, 'in_file', 'fh'))),
    ]


def _checks_last(fn):
    ck = [s for s in fn.body if isinstance(s, ast.If) and "header_dict['checksum']" in norm(s.test)][0]
    fn.body.remove(ck)
    fn.body.insert(len(fn.body) - 1, ck)
    return True


def _add_header_field(tree):
    ok1 = mu.replace_stmt(tree, lambda st: isinstance(st, ast.Assign) and norm(st.targets[0]) == 'HEADER_FORMAT', "HEADER_FORMAT = '<LIIIIII'")
    for n in ast.walk(tree):
        if isinstance(n, ast.Assign) and norm(n.targets[0]) == 'HEADER_KEYS':
            n.value.elts.append(ast.Constant(value='platform'))
        if isinstance(n, ast.Assign) and norm(n.targets[0]) == 'HEADER' and isinstance(n.value, ast.Dict):
            n.value.keys.append(ast.Constant(value='platform'))
            n.value.values.append(ast.Constant(value=1))
    return ok1

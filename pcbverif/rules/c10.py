"""
C10 -- string variables keep their values through any memory history
(structural half).

Decides:
 (i)   ownership: StringSpace._strings / _temp / current are written only by
       StringSpace methods (typed who-may-write over the whole package);
 (ii)  collector roots: DataSegment._collect_garbage passes views from all
       holders of string pointers -- scalars.get_strings(), arrays.get_strings(),
       every frame of the evaluation stack, temp_values -- and the two
       get_strings() return *views* (memoryview) of exactly the `$` variables;
 (iii) the collector re-stores every pointer it was given that lives in string
       space and rewrites that same view in the same loop (view[:] = pack(store(..)))
       after clearing the space, in descending address order, with check_free
       disabled only there;
 (iv)  StringSpace.store checks free space before moving `current`, unless
       check_free=False, which only collect_garbage passes; overlong strings
       raise String too long before anything changes;
 (v)   roots are unwound and collection is re-enabled on *every* exit: the
       context managers get_stack / hold_garbage restore in `finally` (their
       with-bodies evaluate expressions / load files and can raise BASIC
       errors) -- the defect repaired in /repo dc447e15; generally, every
       @contextmanager in pcbasic/basic whose with-body can raise a BASIC error
       restores its state in a finally;
 (vi)  FRE = strings.current - var_current() - arrays.current, FRE("") collects
       first; check_free collects once and raises the caller's error if space
       is still short;
 (vii) temporaries: reset_temporaries deletes only the string on top of the
       space and only if it is newer than the mark; assignments
       (Scalars.set / Arrays.set) fix temporaries before storing a string.
Not decided: value preservation over histories.
"""
import ast

from ..source import class_methods, norm, short, qualname, enclosing_class, decorators
from ..flow import own_nodes
from ..resolve import FieldEffects
from .. import mutate as mu

PROP = 'C10'
LEVEL = 'other'
TECHNIQUE = 'static analysis: typed who-may-write, root-set completeness of the collector call, restore-in-finally for context managers whose bodies can raise (call-graph raise reachability)'
EXPLANATION = __doc__

ST = 'pcbasic/basic/values/strings.py'
M = 'pcbasic/basic/memory/memory.py'
S = 'pcbasic/basic/memory/scalars.py'
A = 'pcbasic/basic/memory/arrays.py'


def _raisers(ctx):
    """ids of functions that can raise a BASIC error, transitively over resolved calls."""
    cg = ctx.cg_precise
    direct = set()
    for fn in ctx.idx.functions('pcbasic/basic/'):
        if ctx.throwers(fn):
            direct.add(id(fn))
    can = set(direct)
    changed = True
    while changed:
        changed = False
        for fid, edges in cg.edges.items():
            if fid in can:
                continue
            for call, callee in edges:
                if id(callee) in can:
                    can.add(fid)
                    changed = True
                    break
    return can


def _held_values_are_roots(ctx, rep):
    """Values kept in Python locals across an expression parse (DEF FN's saved variables and arguments) must be
    registered as collector roots: shared with C20, whose rule module owns the analysis."""
    from . import c20
    sub = type(rep)('C20')
    c20.check(ctx, sub)
    n = 0
    for rule, (tot, ok) in sub.by_rule.items():
        if rule.startswith('gc-roots'):
            n += tot
    for f in sub.findings:
        if f.rule.startswith('gc-roots'):
            rep.ob('roots.values-held-across-a-parse', f.construct, False, f.detail or 'a string held outside the four root holders is not seen by the collector', f.where)
    rep.ob('roots.values-held-across-a-parse', 'DEF FN registers the values it holds across the body parse in temp_values and releases them (%d obligations of C20)' % n,
           not [e for e in sub.errors if 'gc-roots' in e], '; '.join(sub.errors))
    rep.floor('roots.values-held-across-a-parse', n, 4, 'obligations')


DEREF = ('to_pointer', 'to_value', 'to_str', 'dereference', 'view', 'address')


def _values_read_after_a_possible_collection(ctx, rep):
    """StringSpace.check_modify copies a program literal into string space before it is modified in place; that
    allocation can collect garbage, which moves or frees every string that is not a collector root.  In each
    String method that calls it, a String *argument* must either be turned into host bytes before the call, or --
    if it is dereferenced afterwards -- every caller must have registered it in temp_values for the duration."""
    scls = ctx.cls(ST + ':String')
    n_methods = 0
    for m in class_methods(scls).values():
        cms = [c for c in own_nodes(m) if isinstance(c, ast.Call) and isinstance(c.func, ast.Attribute) and c.func.attr == 'check_modify']
        if not cms:
            continue
        n_methods += 1
        first = min(c.lineno for c in cms)
        params = [a.arg for a in m.args.args[1:]]
        late = []
        for c in own_nodes(m):
            if isinstance(c, ast.Call) and isinstance(c.func, ast.Attribute) and c.func.attr in DEREF and isinstance(c.func.value, ast.Name) \
                    and c.func.value.id in params and c.lineno > first and c.func.value.id not in late:
                late.append(c.func.value.id)
        if not late:
            rep.ob('roots.argument-read-after-collection', 'String.%s reads its string arguments before check_modify can collect' % m.name, True)
            continue
        # every call site must hold those arguments as roots
        sites = 0
        for fn in ctx.idx.functions('pcbasic/basic/'):
            for call in own_nodes(fn):
                if isinstance(call, ast.Call) and isinstance(call.func, ast.Attribute) and call.func.attr == m.name and len(call.args) + len(call.keywords) == len(params):
                    sites += 1
                    fl = ctx.flow(fn)
                    for p_ in late:
                        k_ = params.index(p_)
                        argn = call.args[k_] if k_ < len(call.args) else [kw.value for kw in call.keywords if kw.arg == p_][0]
                        arg = norm(argn)
                        adds = [c for c in own_nodes(fn) if isinstance(c, ast.Call) and norm(c.func).endswith('temp_values.add') and c.args and norm(c.args[0]) == arg
                                and c.lineno < call.lineno]
                        rel = [c for c in own_nodes(fn) if isinstance(c, ast.Call) and norm(c.func).split('.')[-1] in ('discard', 'remove') and 'temp_values' in norm(c.func)
                               and c.args and norm(c.args[0]) == arg]
                        in_try = [t for t in own_nodes(fn) if isinstance(t, ast.Try) and t.finalbody and any(x is call for x in ast.walk(t))
                                  and any(r is y for r in rel for fb in t.finalbody for y in ast.walk(fb))]
                        rep.ob('roots.argument-read-after-collection',
                               '%s: `%s` is a collector root while String.%s runs' % (qualname(fn).split(':')[1], arg, m.name),
                               bool(adds) and bool(in_try),
                               'String.%s dereferences `%s` after check_modify, which may have collected garbage: the value must be registered in temp_values around the call (and released in a finally)' % (m.name, p_),
                               ctx.where(call))
        rep.floor('roots.call-sites-of-%s' % m.name, sites, 1, 'call sites')
    rep.floor('roots.argument-read-after-collection', n_methods, 2, 'String methods that call check_modify')


def _temporaries_boundary(ctx, rep):
    """`_temp` separates permanent strings (addr > _temp) from temporaries.  After a collection it is re-derived from
    the new address A of the lowest permanent string; with the strict reader test, the writer must store A - 1, or
    that string itself counts as a temporary and the next expression frees it."""
    from ..algebra import lin
    readers = []

    def pairs(c):
        left = c.left
        for op, right in zip(c.ops, c.comparators):
            yield left, op, right
            left = right
    for name in ('is_permanent', 'collect_garbage'):
        fn = ctx.fn(ST + ':StringSpace.' + name)
        for c in own_nodes(fn):
            if not isinstance(c, ast.Compare):
                continue
            for left, op, right in pairs(c):
                if 'self._temp' in (norm(left), norm(right)) and isinstance(op, (ast.Gt, ast.GtE, ast.Lt, ast.LtE)):
                    strict_above = (isinstance(op, ast.Gt) and norm(right) == 'self._temp') or (isinstance(op, ast.Lt) and norm(left) == 'self._temp')
                    readers.append((name, strict_above, c))
    for name, ok, c in readers:
        rep.ob('temporaries.boundary-readers', 'StringSpace.%s: permanent means addr > _temp' % name, ok, norm(c), ctx.where(c))
    rep.floor('temporaries.boundary-readers', len(readers), 2, 'comparisons with _temp')
    ip = ctx.fn(ST + ':StringSpace.is_permanent')
    rets_ = [r for r in own_nodes(ip) if isinstance(r, ast.Return)]
    okb = len(rets_) == 1 and isinstance(rets_[0].value, ast.BoolOp) and isinstance(rets_[0].value.op, ast.And) and norm(rets_[0].value.values[0]) == 'self._temp is not None'
    rep.ob('temporaries.no-boundary-means-nothing-permanent', 'is_permanent answers False while there is no boundary (a collection found no permanent string)', okb,
           'the address is compared with None: TypeError in the statement that triggered the collection', ctx.where(ip))
    # the sentinel (lowest permanent string) is never an empty string: those share their address with the newest
    # allocated string, so re-storing one first would put the boundary above a live string
    cgf = ctx.fn(ST + ':StringSpace.collect_garbage')
    flc = ctx.flow(cgf)
    picks = [a for a in own_nodes(cgf) if isinstance(a, ast.Assign) and isinstance(a.targets[0], ast.Tuple) and 'last_perm_view' in [norm(e) for e in a.targets[0].elts]]
    rep.floor('temporaries.sentinel-not-empty', len(picks), 1, 'sentinel selections')
    for a in picks:
        facts = set((f.text, f.pol) for f in flc.facts(a))
        nonempty = bool(facts & {('length > 0', True), ('length != 0', True), ('length', True), ('length == 0', False), ('not length', False), ('length >= 1', True), ('0 < length', True)})
        rep.ob('temporaries.sentinel-not-empty', 'collect_garbage: the sentinel is chosen among strings of length > 0 only', nonempty,
               'an empty string can become the sentinel; it shares its address with an allocated string, and after the collection that string lies below the boundary and is freed as a temporary',
               ctx.where(a))
        rep.ob('temporaries.sentinel-not-empty', 'collect_garbage: the sentinel is a permanent string (addr > _temp) and the lowest one (addr < last_permanent)',
               ('addr > self._temp', True) in facts or ('self._temp < addr', True) in facts, '', ctx.where(a))
    cg = ctx.fn(ST + ':StringSpace.collect_garbage')
    ws = [a for a in own_nodes(cg) if isinstance(a, ast.Assign) and norm(a.targets[0]) == 'self._temp' and not (isinstance(a.value, ast.Constant) and a.value.value is None)]
    ok = len(ws) == 1
    detail = ''
    if ok:
        l = lin(ws[0].value)
        consts = [v for k, v in l.items() if k in ('', 1, '1', None)] if isinstance(l, dict) else []
        others = [(k, v) for k, v in l.items() if k not in ('', 1, '1', None)] if isinstance(l, dict) else []
        ok = consts == [-1] and len(others) == 1 and others[0][1] == 1 and 'last_perm_view' in str(others[0][0])
        detail = 'boundary = %s' % norm(ws[0].value)
    rep.ob('temporaries.boundary-below-sentinel', 'after a collection the boundary is one below the address of the lowest permanent string', ok, detail, ctx.where(cg))


REGISTRATION_EXEMPT = {
    ('StringFunctions.string_', 'char'): 'the registered value is a bytes object, not a String: the collector only follows String values, so a stale entry is never dereferenced',
}


def _registrations_released(ctx, rep):
    """A value registered as a collector root (temp_values.add) is released on every exit: the release sits in a
    `finally` that runs whenever the registration has happened.  A stale root that was a temporary string is
    dereferenced by the next collection after the temporary has been freed (KeyError)."""
    from ..pairing import registrations
    n = 0
    for fn in ctx.idx.functions('pcbasic/basic/'):
        who = qualname(fn).split(':')[1]
        for call, text, rel in registrations(fn):
            n += 1
            reason = REGISTRATION_EXEMPT.get((who, text))
            rep.ob('roots.registration-released-on-every-exit', '%s: temp_values.add(%s)' % (who, text), bool(rel) or reason is not None,
                   reason or 'no `finally` releases `%s` on the paths that leave after the registration (early return, BASIC error): the value stays a collector root for ever; '
                   'if it is a temporary string the next garbage collection dereferences freed string space' % text, ctx.where(call))
    rep.floor('roots.registration-released-on-every-exit', n, 8, 'registrations in temp_values')


def check(ctx, rep):
    # LSET / RSET on a variable that still points at a program literal work on a copy in string space; the statement stores the
    # result back into the variable, which makes that copy permanent -- otherwise it is freed as a temporary at the next expression
    for meth in ('lset_', 'rset_'):
        fn = ctx.fn(M + ':DataSegment.' + meth)
        ls = [c for c in own_nodes(fn) if isinstance(c, ast.Call) and isinstance(c.func, ast.Attribute) and c.func.attr == 'lset' and norm(c.func.value) == 'v']
        stored = [c for c in own_nodes(fn) if isinstance(c, ast.Call) and norm(c.func) == 'self.set_variable' and any(any(x is l for x in ast.walk(a)) for a in c.args for l in ls)]
        rep.ob('roots.justified-copy-stored-back', 'DataSegment.%s stores the result of v.lset(...) back with set_variable' % meth, len(ls) == 1 and len(stored) == 1,
               'the copy LSET/RSET made of a program literal stays a temporary: the variable points at freed string space after the next expression', ctx.where(fn))
    _values_read_after_a_possible_collection(ctx, rep)
    _registrations_released(ctx, rep)
    _temporaries_boundary(ctx, rep)
    from . import c12, _share
    _share.share(ctx, rep, c12, ('erase.',), 'ERASE removes the array (and with it its strings) from every table the collector reads')
    _held_values_are_roots(ctx, rep)
    # ---- (i) ownership -------------------------------------------------------------
    fe = FieldEffects(ctx)
    n = 0
    for fn in ctx.idx.functions('pcbasic/'):
        for kind, owners, attr, node in fe.direct(fn):
            hit = ('StringSpace' in owners and attr in ('_strings', '_temp', 'current')) or \
                  (attr in ('_strings', '_temp') and any(o.startswith('?') for o in owners))
            if hit:
                n += 1
                cls = enclosing_class(fn)
                rep.ob('owner.string-space-fields', '%s: %s' % (qualname(fn).split(':')[1], short(node, 60)),
                       cls is not None and cls.name == 'StringSpace', 'string space internals written outside StringSpace', ctx.where(node))
    rep.floor('owner.string-space-fields', n, 10, 'writes')
    # ---- (ii) roots ------------------------------------------------------------------
    cgb = ctx.fn(M + ':DataSegment._collect_garbage')
    a = dict((norm(x.targets[0]), norm(x.value)) for x in own_nodes(cgb) if isinstance(x, ast.Assign))
    roots = set(t.strip() for t in a.get('string_ptrs', '').split('+'))
    rep.ob('roots.all-four-holders', '_collect_garbage: scalars + arrays + stack frames + temp values',
           roots == {'self.scalars.get_strings()', 'self.arrays.get_strings()', 'stack_strings', 'temp_strings'}, repr(sorted(roots)), ctx.where(cgb))
    rep.ob('roots.every-stack-frame', 'stack roots come from every frame of self._stack',
           a.get('stack_strings') == '[value.view() for stack in self._stack for value in stack if isinstance(value, values.String)]', a.get('stack_strings', ''), ctx.where(cgb))
    rep.ob('roots.temp-values', 'temp roots come from self.temp_values',
           a.get('temp_strings') == '[value.view() for value in self.temp_values if isinstance(value, values.String)]', a.get('temp_strings', ''), ctx.where(cgb))
    call = [c for c in own_nodes(cgb) if isinstance(c, ast.Call) and norm(c.func) == 'self.strings.collect_garbage']
    rep.ob('roots.passed-to-collector', 'the root list is what the collector receives', len(call) == 1 and [norm(x) for x in call[0].args] == ['string_ptrs'], '', ctx.where(cgb))
    sg = ctx.fn(S + ':Scalars.get_strings')
    r = [x for x in own_nodes(sg) if isinstance(x, ast.Return)][0].value
    rep.ob('roots.scalar-views', 'Scalars.get_strings returns memoryviews of the `$` variables',
           norm(r) == '[memoryview(value) for name, value in iteritems(self._vars) if name[-1:] == values.STR]', norm(r), ctx.where(sg))
    ag = ctx.fn(A + ':Arrays.get_strings')
    r = [x for x in own_nodes(ag) if isinstance(x, ast.Return)][0].value
    rep.ob('roots.array-views', 'Arrays.get_strings returns a 3-byte view for every element of every `$` array',
           norm(r) == '[memoryview(buf)[i:i + 3] for name, buf in iteritems(self._buffers) if name[-1:] == values.STR for i in range(0, len(buf), 3)]', norm(r), ctx.where(ag))
    # ---- (iii) collector ----------------------------------------------------------------
    cg_ = ctx.fn(ST + ':StringSpace.collect_garbage')
    loops = [l for l in cg_.body if isinstance(l, ast.For)]
    rest = [l for l in loops if norm(l.iter) == 'string_list']
    ok = False
    once = False
    if len(rest) == 1:
        lp = rest[0]
        fl_ = ctx.flow(cg_)
        # every iteration ends by writing a pointer into the view of that iteration, unconditionally
        wr = [s for s in lp.body if isinstance(s, ast.Assign) and norm(s.targets[0]) == 'view[:]']
        stores = [c for c in own_nodes(lp) if isinstance(c, ast.Call) and norm(c) == 'self.store(string, check_free=False)']
        if len(wr) == 1 and lp.body[-1] is wr[0] and len(stores) == 1:
            v = wr[0].value
            if norm(v) == "struct.pack('<BH', *self.store(string, check_free=False))":
                ok = True           # stored on every iteration
            elif isinstance(v, ast.Name):
                # the pointer written is either freshly packed from store(), or the one kept from the previous iteration
                defs_ = [a for a in own_nodes(lp) if isinstance(a, ast.Assign) and norm(a.targets[0]) == v.id]
                fresh = [a for a in defs_ if norm(a.value) == "struct.pack('<BH', *self.store(string, check_free=False))"]
                kept = [a for a in defs_ if a not in fresh]
                # the kept pointer is used only for a string with the same old address and length as one stored before
                same = all(any(f.pol and '(addr, len(string))' in f.text and ('==' in f.text or ' in ' in f.text) for f in fl_.facts(a)) for a in kept)
                ok = len(fresh) == 1 and len(kept) <= 1 and same
                once = len(kept) == 1 and same
    rep.ob('collector.rewrites-same-view', 'every root gets the pointer of its re-stored string written into its own view', ok, '', ctx.where(cg_))
    rep.ob('collector.one-copy-per-string', 'roots that point at the same string (same old address and length) share one re-stored copy', once,
           'the string is stored once per pointer: with a variable and its value on the expression stack both live, string space grows into the array area', ctx.where(cg_))
    stmts = [norm(s) for s in cg_.body]
    try:
        i_sort = [i for i, s in enumerate(stmts) if s.startswith('string_list.sort(')][0]
        i_clear = stmts.index('self.clear()')
        i_loop = cg_.body.index(rest[0])
        ok = i_sort < i_clear < i_loop and stmts[i_sort] == 'string_list.sort(key=itemgetter(1), reverse=True)'
    except (IndexError, ValueError):
        ok = False
    rep.ob('collector.order', 'sort by address (largest first), clear, then re-store', ok, '', ctx.where(cg_))
    gather = [l for l in loops if norm(l.iter) == 'string_ptrs']
    ok = False
    if len(gather) == 1:
        app = [c for c in own_nodes(gather[0]) if isinstance(c, ast.Call) and norm(c.func) == 'string_list.append']
        fl = ctx.flow(cg_)
        ok = len(app) == 1 and norm(app[0].args[0]) == '(view, addr, self._retrieve(length, addr))' and fl.knows(app[0], 'addr >= self._memory.var_start()', True)
    rep.ob('collector.keeps-every-live-string', 'every root pointing into string space is kept (with its current contents)', ok, '', ctx.where(cg_))
    # ---- (iv) store -----------------------------------------------------------------------
    st = ctx.fn(ST + ':StringSpace.store')
    fl = ctx.flow(st)
    cf = [c for c in own_nodes(st) if isinstance(c, ast.Call) and norm(c.func) == 'self._memory.check_free']
    mv = [x for x in own_nodes(st) if isinstance(x, ast.AugAssign) and norm(x.target) == 'self.current']
    rep.ob('store.check-before-move', 'store checks free space (Out of string space) before moving `current`',
           len(cf) == 1 and len(mv) == 1 and cf[0].lineno < mv[0].lineno and fl.knows(cf[0], 'check_free', True)
           and [norm(x) for x in cf[0].args] == ['length', 'error.OUT_OF_STRING_SPACE'], '', ctx.where(st))
    tl = [r for r, c in ctx.raises_in(st) if c == 'STRING_TOO_LONG']
    rep.ob('store.too-long', 'strings over 255 bytes raise String too long before anything changes',
           len(tl) == 1 and fl.knows(tl[0], 'length > 255', True) and bool(mv) and tl[0].lineno < mv[0].lineno, '', ctx.where(st))
    nocheck = []
    for fn in ctx.idx.functions('pcbasic/'):
        for c in own_nodes(fn):
            if isinstance(c, ast.Call) and isinstance(c.func, ast.Attribute) and c.func.attr == 'store':
                for kw in c.keywords:
                    if kw.arg == 'check_free' and norm(kw.value) != 'True':
                        nocheck.append(qualname(fn).split(':')[1])
    rep.ob('store.unchecked-only-in-collector', 'check_free=False is passed only by collect_garbage', nocheck == ['StringSpace.collect_garbage'], repr(nocheck), ST)
    # ---- (v) restore-in-finally ------------------------------------------------------------
    can = _raisers(ctx)
    cg = ctx.cg_precise
    n_cm = 0
    for fn in ctx.idx.functions('pcbasic/basic/'):
        if not any(d.endswith('contextmanager') for d in decorators(fn)):
            continue
        ys = [y for y in own_nodes(fn) if isinstance(y, ast.Expr) and isinstance(y.value, ast.Yield)]
        after = []
        for y in ys:
            blk = None
            p = y._parent
            for name in ('body', 'orelse', 'finalbody'):
                b = getattr(p, name, None)
                if isinstance(b, list) and y in b:
                    blk = b
            if blk is None:
                continue
            tail = blk[blk.index(y) + 1:]
            in_try = isinstance(p, ast.Try) and y in p.body
            if tail and not in_try:
                after.append((y, tail))
        if not after:
            continue
        # state restored after yield outside finally: does any with-body using this manager raise?
        n_cm += 1
        users = []
        for f2 in ctx.idx.functions('pcbasic/basic/'):
            for w in own_nodes(f2):
                if isinstance(w, (ast.With, ast.AsyncWith)):
                    for it in w.items:
                        c = it.context_expr
                        if isinstance(c, ast.Call) and isinstance(c.func, ast.Attribute) and c.func.attr == fn.name:
                            users.append((f2, w))
        risky = []
        for f2, w in users:
            body_raises = any(isinstance(x, ast.Raise) for s in w.body for x in own_nodes(s)) or \
                any(isinstance(x, ast.Expr) and isinstance(x.value, ast.Yield) for s in w.body for x in own_nodes(s))
            for s in w.body:
                for c in own_nodes(s):
                    if isinstance(c, ast.Call):
                        for call, callee in cg.callees(f2):
                            if call is c and id(callee) in can:
                                body_raises = True
                        f = norm(c.func)
                        if f.endswith('throw_if') or f.endswith('range_check'):
                            body_raises = True
            if body_raises:
                risky.append(qualname(f2).split(':')[1])
        # only *restoration* matters: a post-yield statement that undoes a pre-yield one
        # (same attribute assigned before and after, or append/add before and pop/remove after on the same receiver)
        pre_targets, pre_pushes = set(), set()
        first_yield_line = min(y.lineno for y, _ in after)
        for x in own_nodes(fn):
            if getattr(x, 'lineno', 10 ** 9) >= first_yield_line:
                continue
            if isinstance(x, ast.Assign):
                for t in x.targets:
                    for e in (t.elts if isinstance(t, ast.Tuple) else [t]):
                        if isinstance(e, ast.Attribute):
                            pre_targets.add(norm(e))
            if isinstance(x, ast.Call) and isinstance(x.func, ast.Attribute) and x.func.attr in ('append', 'add', 'set_attr'):
                pre_pushes.add(norm(x.func.value))
        restoring = False
        for y, tail in after:
            for s_ in tail:
                for x in own_nodes(s_):
                    if isinstance(x, ast.Assign) and any(norm(t) in pre_targets for t in x.targets):
                        restoring = True
                    if isinstance(x, ast.Call) and isinstance(x.func, ast.Attribute) and x.func.attr in ('pop', 'remove', 'discard', 'set_attr') \
                            and norm(x.func.value) in pre_pushes:
                        restoring = True
        rep.ob('unwind.restore-in-finally', '%s restores its state even if the with-body raises' % qualname(fn).split(':')[1],
               not (restoring and risky),
               'state restored after `yield` without try/finally, and these with-bodies can raise a BASIC error: %s' % risky[:4], ctx.where(fn))
    for name, restore in (('get_stack', 'self._stack.pop()'), ('hold_garbage', 'self._allow_collect = True')):
        fn = ctx.fn('%s:DataSegment.%s' % (M, name))
        tries = [t for t in own_nodes(fn) if isinstance(t, ast.Try) and t.finalbody]
        ok = len(tries) == 1 and any(isinstance(x, ast.Expr) and isinstance(x.value, ast.Yield) for s in tries[0].body for x in own_nodes(s)) \
            and restore in [norm(s) for s in tries[0].finalbody]
        rep.ob('unwind.restore-in-finally', 'DataSegment.%s: `%s` runs in a finally around the yield' % (name, restore), ok,
               'an error inside the with-body leaves %s' % ('a stale frame as a collector root' if name == 'get_stack' else 'garbage collection disabled'), ctx.where(fn))
    hg = ctx.fn(M + ':DataSegment.hold_garbage')
    first = [norm(s) for s in hg.body if isinstance(s, ast.Assign)][:1]
    rep.ob('unwind.hold-sets-flag', 'hold_garbage switches collection off before the body', first == ['self._allow_collect = False'], repr(first), ctx.where(hg))
    # ---- (vi) FRE / check_free ----------------------------------------------------------------
    gf = ctx.fn(M + ':DataSegment._get_free')
    r = norm([x for x in own_nodes(gf) if isinstance(x, ast.Return)][0].value)
    rep.ob('fre.formula', 'free = strings.current - var_current() - arrays.current', r == 'self.strings.current - self.var_current() - self.arrays.current', r, ctx.where(gf))
    fre = ctx.fn(M + ':DataSegment.fre_')
    fl = ctx.flow(fre)
    c = [x for x in own_nodes(fre) if isinstance(x, ast.Call) and norm(x.func) == 'self._collect_garbage']
    r = norm([x for x in own_nodes(fre) if isinstance(x, ast.Return)][0].value)
    rep.ob('fre.collects-for-string-argument', 'FRE("") collects, then reports _get_free()',
           len(c) == 1 and fl.knows(c[0], 'isinstance(val, values.String)', True) and r == 'self.values.new_single().from_int(self._get_free())', r, ctx.where(fre))
    ck = ctx.fn(M + ':DataSegment.check_free')
    fl = ctx.flow(ck)
    c = [x for x in own_nodes(ck) if isinstance(x, ast.Call) and norm(x.func) == 'self._collect_garbage']
    rs = [x for x in own_nodes(ck) if isinstance(x, ast.Raise)]
    ok = len(c) == 1 and len(rs) == 1 and fl.knows(c[0], 'self._get_free() <= size', True) and norm(rs[0].exc) == 'error.BASICError(err)' \
        and c[0].lineno < rs[0].lineno and fl.knows(rs[0], 'self._get_free() <= size', True)
    rep.ob('check_free.collect-then-raise', 'check_free collects once, re-tests, and only then raises the caller\'s error', ok, '', ctx.where(ck))
    # ---- (vii) temporaries ------------------------------------------------------------------------
    rt = ctx.fn(ST + ':StringSpace.reset_temporaries')
    fl = ctx.flow(rt)
    d = [x for x in own_nodes(rt) if isinstance(x, ast.Call) and norm(x.func) == 'self._delete_last']
    rep.ob('temporaries.delete-only-top', 'reset_temporaries deletes the top string only if it was allocated after the mark',
           len(d) == 1 and fl.knows(d[0], 'self._temp is not None and self._temp != self.current', True), '', ctx.where(rt))
    dl = ctx.fn(ST + ':StringSpace._delete_last')
    a2 = dict((norm(x.targets[0]), norm(x.value)) for x in own_nodes(dl) if isinstance(x, ast.Assign))
    dels = [norm(x.targets[0]) for x in own_nodes(dl) if isinstance(x, ast.Delete)]
    rep.ob('temporaries.delete-only-top', '_delete_last removes the string at current+1 and gives its length back',
           a2.get('last_address') == 'self.current + 1' and dels == ['self._strings[last_address]'] and
           any(norm(x) == 'self.current += length' for x in own_nodes(dl) if isinstance(x, ast.AugAssign)), '', ctx.where(dl))
    for spec in (S + ':Scalars.set', A + ':Arrays.set'):
        fn = ctx.fn(spec)
        fl = ctx.flow(fn)
        f = [x for x in own_nodes(fn) if isinstance(x, ast.Call) and norm(x.func) == 'self._memory.strings.fix_temporaries']
        rep.ob('temporaries.fixed-on-assignment', '%s fixes temporaries before storing a string' % spec.split(':')[1],
               len(f) == 1 and fl.knows(f[0], 'isinstance(value, values.String)', True) and f[0].lineno < min(
                   [x.lineno for x in own_nodes(fn) if isinstance(x, ast.Assign) and isinstance(x.targets[0], ast.Subscript)] + [10 ** 9]), '', ctx.where(fn))
    sv = ctx.fn(M + ':DataSegment.set_variable')
    w = [x for x in own_nodes(sv) if isinstance(x, ast.With) and norm(x.items[0].context_expr) == 'self.get_stack()']
    ok = len(w) == 1 and norm(w[0].body[0]) == 'stack.append(value)' and all(
        x.lineno > w[0].body[0].lineno for x in own_nodes(w[0]) if isinstance(x, ast.Call) and norm(x.func) in ('self.scalars.set', 'self.arrays.set'))
    rep.ob('roots.value-being-assigned', 'set_variable keeps the value on the evaluation stack while storing it', ok, '', ctx.where(sv))


def variants(ctx):
    Va = mu.Variant

    def in_fn(path_fn, f):
        return lambda tree: f(mu.find_def(tree, path_fn))

    def unfinally(fname):
        def t(tree):
            fn = mu.find_def(tree, fname)
            tr = [s for s in fn.body if isinstance(s, ast.Try)][0]
            i = fn.body.index(tr)
            fn.body[i:i + 1] = tr.body + tr.finalbody
            return True
        return t

    return [
        Va('lset-result-not-stored-back', 'break', M,
           in_fn('DataSegment.lset_', lambda fn: mu.replace_expr(fn, mu.text_is('self.set_variable(name, index, v.lset(s, justify_right=False))'), 'v.lset(s, justify_right=False)')),
           expect='roots.justified-copy-stored-back'),
        Va('boundary-on-the-sentinel', 'break', ST,
           in_fn('StringSpace.collect_garbage', lambda fn: mu.replace_expr(fn, lambda n: isinstance(n, ast.BinOp) and norm(n).startswith('-1 + struct.unpack_from'), "struct.unpack_from('<H', last_perm_view.tobytes(), 1)[0]")), expect='temporaries.boundary-below'),
        Va('mid-value-not-a-root', 'break', M, in_fn('DataSegment.mid_', _unroot_mid), expect='roots.argument-read-after-collection'),
        Va('lset-reads-source-after-copy', 'break', ST, in_fn('String.lset', _lset_late), expect='roots.argument-read-after-collection'),
        Va('get-stack-no-finally', 'break', M, unfinally('DataSegment.get_stack'), expect='unwind'),
        Va('hold-garbage-no-finally', 'break', M, unfinally('DataSegment.hold_garbage'), expect='unwind'),
        Va('collector-forgets-arrays', 'break', M,
           in_fn('DataSegment._collect_garbage', lambda fn: mu.replace_expr(fn, mu.text_is('self.scalars.get_strings() + self.arrays.get_strings() + stack_strings + temp_strings'),
                                                                          'self.scalars.get_strings() + stack_strings + temp_strings')), expect='roots.all-four'),
        Va('collector-top-frame-only', 'break', M,
           in_fn('DataSegment._collect_garbage', lambda fn: mu.replace_expr(fn, mu.text_is('[value.view() for stack in self._stack for value in stack if isinstance(value, values.String)]'),
                                                                          '[value.view() for value in (self._stack[-1] if self._stack else []) if isinstance(value, values.String)]')),
           expect='roots.every-stack-frame'),
        Va('scalar-roots-are-copies', 'break', S,
           in_fn('Scalars.get_strings', lambda fn: mu.replace_expr(fn, mu.text_is('memoryview(value)'), 'memoryview(bytearray(value))')), expect='roots.scalar-views'),
        Va('collector-does-not-rewrite', 'break', ST,
           in_fn('StringSpace.collect_garbage', lambda fn: mu.replace_stmt(fn, mu.text_is('view[:] = pointer'), 'pass')),
           expect='collector.rewrites'),
        Va('is-permanent-compares-with-a-missing-boundary', 'break', ST,
           in_fn('StringSpace.is_permanent', lambda fn: mu.replace_expr(fn, mu.text_is('self._temp is not None and addr > self._temp'), 'addr > self._temp')), expect='temporaries.no-boundary'),
        Va('collector-stores-once-per-pointer', 'break', ST,
           in_fn('StringSpace.collect_garbage', lambda fn: mu.replace_expr(fn, mu.text_is('string and (addr, len(string)) in stored'), 'False')),
           expect='collector.one-copy-per-string'),
        Va('left-releases-on-normal-path-only', 'break', 'pcbasic/basic/values/values.py', in_fn('StringFunctions.left_', _release_inline), expect='roots.registration-released-on-every-exit'),
        Va('store-moves-before-check', 'break', ST, in_fn('StringSpace.store', _move_check_after), expect='store.check-before-move'),
        Va('sentinel-may-be-empty', 'break', ST,
           in_fn('StringSpace.collect_garbage', lambda fn: mu.replace_expr(fn, mu.text_is('self._temp is not None and length > 0'), 'self._temp is not None')),
           expect='temporaries.sentinel-not-empty'),
        Va('sentinel-test-chained', 'neutral', ST,
           in_fn('StringSpace.collect_garbage', lambda fn: mu.replace_expr(fn, mu.text_is('addr > self._temp and addr < last_permanent'), 'self._temp < addr < last_permanent'))),
        Va('string-space-written-by-memory', 'break', M,
           in_fn('DataSegment.clear', lambda fn: mu.append_last(fn, 'self.strings._temp = None')), expect='owner'),
        Va('fre-ignores-arrays', 'break', M,
           in_fn('DataSegment._get_free', lambda fn: mu.replace_expr(fn, mu.text_is('self.strings.current - self.var_current() - self.arrays.current'),
                                                                   'self.strings.current - self.var_current()')), expect='fre.formula'),
        Va('check-free-raises-without-collecting', 'break', M,
           in_fn('DataSegment.check_free', lambda fn: mu.remove_stmt(fn, mu.text_is('self._collect_garbage()'))), expect='check_free'),
        Va('array-set-does-not-fix-temporaries', 'break', A,
           in_fn('Arrays.set', lambda fn: mu.remove_stmt(fn, lambda st: isinstance(st, ast.If) and 'values.String' in norm(st.test))), expect='temporaries.fixed'),
        Va('new-contextmanager-with-finally', 'neutral', M,
           in_fn('DataSegment.hold_garbage', lambda fn: mu.insert_first(fn, 'pass'))),
    ]


def _move_check_after(fn):
    for n in ast.walk(fn):
        if isinstance(n, ast.If) and norm(n.test) == 'address is None':
            chk = [s for s in n.body if isinstance(s, ast.If) and norm(s.test) == 'check_free'][0]
            n.body.remove(chk)
            k = [i for i, s in enumerate(n.body) if norm(s) == 'self.current -= length'][0]
            n.body.insert(k + 1, chk)
            return True
    return False


def _unroot_mid(fn):
    ok = mu.remove_stmt(fn, mu.text_is('self.temp_values.add(val)'))
    return ok


def _lset_late(fn):
    st = [x for x in fn.body if norm(x) == 'in_str = in_str.to_value()']
    cm = [x for x in fn.body if 'check_modify' in norm(x)]
    if len(st) != 1 or len(cm) != 1:
        return False
    # move the copy of the literal (check_modify + from_pointer) in front of reading the source
    i = fn.body.index(cm[0])
    block = fn.body[i:i + 2]
    del fn.body[i:i + 2]
    j = fn.body.index(st[0])
    fn.body[j:j] = block
    return True


def _release_inline(fn):
    """Undo the try/finally of left_: the release only happens before the last return (the pinned tree's shape)."""
    tr = [t for t in fn.body if isinstance(t, ast.Try) and t.finalbody]
    if len(tr) != 1:
        return False
    tr = tr[0]
    body = list(tr.body)
    last = body[-1]
    if not isinstance(last, ast.Return):
        return False
    i = fn.body.index(tr)
    fn.body[i:i + 1] = body[:-1] + ast.parse('result = 0').body[:0] + tr.finalbody + [last]
    return True

"""
C34 -- video memory reflects and controls the screen content (thin, structural
half).

Decides, per memory mapper (CGA, EGA, Tandy-6, text):
 * reader/writer agreement: get_memory and set_memory iterate the *same*
   memory walk -- self._walk_memory(addr, n [, factor]) with the same factor --
   unpack the same five fields (page, x, y, ofs, length) and use the same
   pixels-per-byte when packing and unpacking (CGA self._ppb, EGA 8, Tandy
   2*self._ppb) and the same pixel row start (display.pages[page].pixels[y, x:...]);
 * text mapper: reader and writer compute page/row/col with the same divmod
   chain and use the same odd/even rule for attribute vs character bytes;
 * byte vs block: Memory._get_video_memory / _get_video_memory_block (and the
   two setters) call the same mapper routine of the current mode, the byte
   forms with length 1 / a one-element list, and both setters collect screen
   updates;
 * planes: the EGA writer only touches the bits of the enabled plane mask
   (new = (pixels & mask) | (old & ~mask)), and the Tandy writer likewise.
Not decided: the stride arithmetic of _walk_memory, including the known
disagreement of block and byte reads that start in the middle of an interlace
bank -- loop arithmetic, out of static reach.
"""
import ast

from ..source import norm, short, class_methods
from ..flow import own_nodes
from .. import mutate as mu

PROP = 'C34'
LEVEL = 'other'
TECHNIQUE = 'static analysis: sibling agreement of reader/writer per memory mapper and of byte/block access paths'
EXPLANATION = __doc__

FB = 'pcbasic/basic/display/framebuffer.py'
MA = 'pcbasic/basic/machine.py'


def _walk(fn):
    out = []
    for n in own_nodes(fn):
        if isinstance(n, ast.For) and isinstance(n.iter, ast.Call) and norm(n.iter.func) == 'self._walk_memory':
            out.append(([norm(e) for e in n.target.elts] if isinstance(n.target, ast.Tuple) else [norm(n.target)], [norm(a) for a in n.iter.args], n))
    return out


def _page_step_resets_bank_state(ctx, rep):
    """Block access walks video memory row by row; a bank step changes some of the walk's variables, and a page step
    (the last bank of a page was passed) must put every one of those back to its start-of-page value 0 -- a variable
    left over from the previous page sends the rest of the block to the wrong scan lines."""
    wm = ctx.fn(FB + ':GraphicsMemoryMapper._walk_memory')
    banks = [n for n in own_nodes(wm) if isinstance(n, ast.If) and norm(n.test) == 'offset >= bank_size']
    ok = len(banks) == 1
    pages = [n for n in (own_nodes(banks[0]) if ok else []) if isinstance(n, ast.If) and norm(n.test) == 'bank_offset >= page_size']
    ok = ok and len(pages) == 1
    if not ok:
        rep.error('_walk_memory: bank / page step structure not recognised')
        return

    def assigned(nodes, skip=None):
        out = {}
        for n in nodes:
            if skip is not None and any(n is x for x in ast.walk(skip)):
                continue
            if isinstance(n, ast.Assign):
                t, v = n.targets[0], n.value
                if isinstance(t, ast.Tuple) and isinstance(v, ast.Tuple) and len(t.elts) == len(v.elts):
                    for a, b in zip(t.elts, v.elts):
                        out[norm(a)] = norm(b)
                elif isinstance(t, ast.Name):
                    out[t.id] = norm(v)
            elif isinstance(n, ast.AugAssign) and isinstance(n.target, ast.Name):
                out[n.target.id] = 'aug'
        return out
    bank_vars = assigned(own_nodes(banks[0]), skip=pages[0])
    page_vars = assigned(own_nodes(pages[0]))
    need = sorted(bank_vars)
    missing = [v for v in need if page_vars.get(v) != '0']
    rep.ob('walk.page-step-resets-bank-state', 'entering the next page resets every variable the bank step moves (%s) to 0' % ', '.join(need), not missing and len(need) >= 4,
           'not reset to 0 at a page step: %s' % missing, ctx.where(pages[0]))
    rep.ob('walk.page-step-advances', 'a page step advances the page and the page offset', page_vars.get('page') == 'aug' and page_vars.get('page_offset') == 'aug', repr(page_vars), ctx.where(pages[0]))


def _text_block_is_bytewise(ctx, rep):
    """Text-mode video memory has unbacked addresses between the pages.  Block access = byte access repeated, so
    the per-address loop of TextMemoryMapper.get_memory / set_memory must carry on after an address it cannot map
    (no break / return inside the loop; the IndexError handler only skips)."""
    for meth in ('get_memory', 'set_memory'):
        fn = ctx.fn(FB + ':TextMemoryMapper.' + meth)
        loops = [n for n in fn.body if isinstance(n, ast.For)]
        ok = len(loops) == 1
        exits = [x for x in (own_nodes(loops[0]) if ok else []) if isinstance(x, (ast.Break, ast.Return))]
        handlers = [h for t in (own_nodes(loops[0]) if ok else []) if isinstance(t, ast.Try) for h in t.handlers]
        rep.ob('text.block-equals-bytes', 'TextMemoryMapper.%s handles every address of the block independently' % meth,
               ok and not exits and len(handlers) == 1 and norm(handlers[0].type) == 'IndexError' and [norm(x) for x in handlers[0].body] == ['pass'],
               'the loop stops at the first unmapped address (%s): the rest of the block, e.g. the next page, is not transferred' % [type(x).__name__ for x in exits], ctx.where(fn))


def check(ctx, rep):
    # Tandy SCREEN 6: an even byte and the odd byte after it hold the low and the high attribute bit of the SAME eight pixels, so
    # byte columns 0,1 -> x 0; 2,3 -> x 8; ...  (evaluated from the expression itself for the first byte columns)
    t6 = ctx.fn('pcbasic/basic/display/framebuffer.py:Tandy6MemoryMapper._get_coords')
    xs = [a for a in own_nodes(t6) if isinstance(a, ast.Assign) and norm(a.targets[0]) == 'x']
    vals = None
    if len(xs) == 1:
        try:
            code = compile(ast.Expression(body=xs[0].value), '<x>', 'eval')
            names = set(n.id for n in ast.walk(xs[0].value) if isinstance(n, ast.Name))
            attrs = [n for n in ast.walk(xs[0].value) if isinstance(n, (ast.Attribute, ast.Call))]
            if names <= {'col'} and not attrs:
                vals = [eval(code, {'__builtins__': {}}, {'col': c}) for c in range(6)]
        except Exception:
            vals = None
    rep.ob('tandy6.byte-pair-shares-pixels', 'Tandy6MemoryMapper._get_coords: byte columns 2k and 2k+1 map to x = 8k', vals == [0, 0, 8, 8, 16, 16],
           'x(col) for col 0..5 = %r (%s): an odd byte is mapped to other pixels than the even byte it belongs to' % (vals, norm(xs[0].value) if xs else None), ctx.where(t6))
    _page_step_resets_bank_state(ctx, rep)
    _text_block_is_bytewise(ctx, rep)
    for cname, ipb in (('CGAMemoryMapper', 'self._ppb'), ('EGAMemoryMapper', '8'), ('Tandy6MemoryMapper', None)):
        cls = ctx.cls('%s:%s' % (FB, cname))
        m = class_methods(cls)
        g, s = m['get_memory'], m['set_memory']
        wg, ws = _walk(g), _walk(s)
        ok = len(wg) == 1 and len(ws) == 1
        rep.ob('mapper.one-walk-each', '%s: reader and writer each iterate one memory walk' % cname, ok, '', ctx.where(g))
        if not ok:
            continue
        rep.ob('mapper.same-fields', '%s: both unpack (page, x, y, ofs, length)' % cname, wg[0][0] == ws[0][0] == ['page', 'x', 'y', 'ofs', 'length'], '%r %r' % (wg[0][0], ws[0][0]), ctx.where(g))
        ga, sa = wg[0][1], ws[0][1]
        rep.ob('mapper.same-walk', '%s: same start address, byte count and factor' % cname,
               ga[0] == sa[0] == 'addr' and ga[1] == 'num_bytes' and sa[1] == 'len(byte_array)' and ga[2:] == sa[2:], '%r %r' % (ga, sa), ctx.where(g))
        # items per byte
        pk = [c for c in own_nodes(g) if isinstance(c, ast.Call) and isinstance(c.func, ast.Attribute) and c.func.attr == 'packed']
        up = [c for c in own_nodes(s) if isinstance(c, ast.Call) and norm(c.func).endswith('frompacked')]
        pipb = [norm(c.args[0]) for c in pk if c.args]
        uipb = [norm(k.value) for c in up for k in c.keywords if k.arg == 'items_per_byte']
        want = ipb
        if cname == 'Tandy6MemoryMapper':
            okp = len(pipb) == 1 and len(uipb) == 1 and {pipb[0], uipb[0]} <= {'self._ppb * 2', '2 * self._ppb'}
        else:
            okp = pipb == [want] and uipb == [want]
        rep.ob('mapper.same-density', '%s: pack and unpack use the same pixels per byte' % cname, okp, '%r %r' % (pipb, uipb), ctx.where(g))
        rd = [norm(n) for n in own_nodes(g) if isinstance(n, ast.Subscript) and norm(n.value) == 'display.pages[page].pixels']
        wr = [norm(n.targets[0]) for n in own_nodes(s) if isinstance(n, ast.Assign) and isinstance(n.targets[0], ast.Subscript) and norm(n.targets[0].value) == 'display.pages[page].pixels']
        rep.ob('mapper.same-pixel-row', '%s: both address display.pages[page].pixels[y, x:...]' % cname, len(rd) >= 1 and len(wr) == 1 and all(r.startswith('display.pages[page].pixels[y, x:x +') for r in rd + wr),
               '%r %r' % (rd, wr), ctx.where(g))
        if cname in ('EGAMemoryMapper', 'Tandy6MemoryMapper'):
            st = [n for n in own_nodes(s) if isinstance(n, ast.Assign) and isinstance(n.targets[0], ast.Subscript) and norm(n.targets[0].value) == 'display.pages[page].pixels']
            sub = [norm(a.value) for a in own_nodes(s) if isinstance(a, ast.Assign) and norm(a.targets[0]) == 'substrate']
            rep.ob('mapper.plane-masking', '%s: the writer changes only the bits of the written plane(s)' % cname,
                   len(st) == 1 and norm(st[0].value) == 'pixarray & mask | substrate' and sub == ['display.pages[page].pixels[y, x:x + width] & ~mask'], '%r' % sub, ctx.where(s))
            sh = [norm(n) for n in own_nodes(g) if isinstance(n, ast.BinOp) and isinstance(n.op, ast.RShift)]
            rep.ob('mapper.plane-select', '%s: the reader selects the plane by shifting right by its number' % cname, sh == ['pixarray >> plane'], repr(sh), ctx.where(g))
    # text mapper
    t = ctx.cls(FB + ':TextMemoryMapper')
    m = class_methods(t)
    def core(fn):
        a = [norm(x) for x in own_nodes(fn) if isinstance(x, ast.Assign) and isinstance(x.value, ast.Call) and norm(x.value.func) == 'divmod']
        c = [norm(x) for x in own_nodes(fn) if isinstance(x, ast.Assign) and norm(x.targets[0]) == 'col']
        i = [norm(x.test) for x in own_nodes(fn) if isinstance(x, ast.If) and '% 2' in norm(x.test)]
        return a, c, i
    rep.ob('text.same-addressing', 'text mapper: reader and writer compute page/row/col identically and agree on odd = attribute', core(m['get_memory']) == core(m['set_memory']) and
           core(m['get_memory'])[2] == ['(addr + i) % 2'], repr(core(m['get_memory'])), ctx.where(m['get_memory']))
    tg, tsn = norm(m['get_memory']), norm(m['set_memory'])
    rep.ob('text.same-addressing', 'odd bytes are attributes, even bytes characters, on both sides',
           'mem_bytes[i] = display.pages[page].get_attr(1 + row, 1 + col)' in tg and 'mem_bytes[i] = display.pages[page].get_byte(1 + row, 1 + col)' in tg and
           'display.pages[page].put_char_attr(1 + row, 1 + col, int2byte(c), a)' in tsn, '', ctx.where(m['set_memory']))
    # machine paths
    want = {
        '_get_video_memory': 'self._display.mode.memorymap.get_memory(self._display, addr, 1)',
        '_get_video_memory_block': 'self._display.mode.memorymap.get_memory(self._display, addr, length)',
        '_set_video_memory': 'self._display.mode.memorymap.set_memory(self._display, addr, [val])',
        '_set_video_memory_block': 'self._display.mode.memorymap.set_memory(self._display, addr, some_bytes)',
    }
    for name, call in sorted(want.items()):
        fn = ctx.fn('%s:Memory.%s' % (MA, name))
        c = [norm(x) for x in own_nodes(fn) if isinstance(x, ast.Call) and 'memorymap' in norm(x.func)]
        rep.ob('access.same-mapper-routine', 'Memory.%s -> %s' % (name, call.split('memorymap.')[1].split('(')[0]), c == [call], repr(c), ctx.where(fn))
        if name.startswith('_set'):
            w = [x for x in own_nodes(fn) if isinstance(x, ast.With) and norm(x.items[0].context_expr) == 'self._display.text_screen.collect_updates()']
            rep.ob('access.updates-collected', 'Memory.%s collects screen updates' % name, len(w) == 1, '', ctx.where(fn))
    gm = ctx.fn(MA + ':Memory._get_memory_block')
    t_ = norm(gm)
    rep.ob('access.block-uses-block-reader', 'BSAVE reads video memory with the block routine and the rest byte by byte',
           'block += self._get_video_memory_block(addr, min(length, video_len))' in t_ and 'block.append(max(0, self._get_memory(a)))' in t_, '', ctx.where(gm))
    # interleaved modes: the address decoder and the block walker use the same stride between the rows of a bank -- the mode's
    # interleave factor (2 for CGA, 4 for Hercules / Olivetti / Tandy SCREEN 5), never a literal
    from ..algebra import lin as _lin
    FB_ = 'pcbasic/basic/display/framebuffer.py'
    gc = ctx.fn(FB_ + ':CGAMemoryMapper._get_coords')
    ys = [a for a in own_nodes(gc) if isinstance(a, ast.Assign) and norm(a.targets[0]) == 'y']
    form = _lin(ys[0].value) if len(ys) == 1 else None
    rep.ob('interleave.same-stride', 'CGAMemoryMapper._get_coords: scan line = bank + interleave factor * row within the bank',
           form == {'bank': 1, 'row*self._interleave_times': 1}, repr(form), ctx.where(gc))
    wm = ctx.fn(FB_ + ':GraphicsMemoryMapper._walk_memory')
    steps = [norm(a.value) for a in own_nodes(wm) if isinstance(a, ast.AugAssign) and norm(a.target) == 'y' and isinstance(a.op, ast.Add)]
    rep.ob('interleave.same-stride', '_walk_memory steps to the next row of a bank by the same interleave factor', steps == ['self._interleave_times'], repr(steps), ctx.where(wm))
    # BLOAD takes off exactly one end-of-file marker: payload bytes that happen to be 0x1A are data
    bl = ctx.fn(MA + ':Memory.bload_')
    flb = ctx.flow(bl)
    cuts = [a for a in own_nodes(bl) if isinstance(a, ast.Assign) and norm(a.targets[0]) == 'buf' and norm(a.value) == 'buf[:-1]']
    strips = [c for c in own_nodes(bl) if isinstance(c, ast.Call) and isinstance(c.func, ast.Attribute) and c.func.attr in ('rstrip', 'strip', 'lstrip') and norm(c.func.value) == 'buf']
    rep.ob('bload.one-marker-only', 'bload_ drops one trailing 0x1A, and only if the last byte is one',
           len(cuts) == 1 and not strips and any(f.pol and f.text in ('buf[-1] == 26', 'buf and buf[-1] == 26') for f in flb.facts(cuts[0])),
           'every trailing 0x1A is removed: a memory image that ends in byte 26 is loaded short', ctx.where(bl))
    # every operation the rest of the interpreter asks of `mode.memorymap` exists on every mapper a mode can carry (text and
    # graphics families alike): the port and memory code does not know which one is current
    called = {}
    for fn in ctx.idx.functions('pcbasic/basic/'):
        for c in own_nodes(fn):
            if isinstance(c, ast.Call) and isinstance(c.func, ast.Attribute) and norm(c.func.value).endswith('.mode.memorymap'):
                called.setdefault(c.func.attr, c)
    FB2 = 'pcbasic/basic/display/framebuffer.py'
    table = ctx.idx.class_table()
    mappers = [c for (path, nm), c in sorted(table.items()) if path == FB2 and nm.endswith('MemoryMapper') and not nm.startswith('_')]
    n_if = 0
    for cls in mappers:
        have = set()
        for k in ctx.idx.mro(cls) if hasattr(ctx.idx, 'mro') else [cls]:
            have |= set(class_methods(k)) if k is not None else set()
        for meth, site in sorted(called.items()):
            n_if += 1
            rep.ob('access.mapper-interface-complete', '%s has %s()' % (cls.name, meth), meth in have,
                   'called on mode.memorymap (%s) but missing from this mapper: AttributeError while that mode is current' % ctx.where(site), FB2)
    rep.floor('access.mapper-interface-complete', n_if, 20, 'mapper class x operation pairs')
    # the part of a block that lies in video memory has a length >= 0 (the window ends; beyond it nothing is video memory):
    # reader and writer compute it the same way, clamped at 0
    lens = {}
    for name in ('_get_memory_block', '_set_memory_block'):
        fn = ctx.fn(MA + ':Memory.' + name)
        a = [x for x in own_nodes(fn) if isinstance(x, ast.Assign) and norm(x.targets[0]) == 'video_len']
        lens[name] = [norm(x.value) for x in a]
        for x in a:
            v = x.value
            ok = isinstance(v, ast.Call) and norm(v.func) == 'max' and len(v.args) == 2 and '0' in [norm(q) for q in v.args]
            rep.ob('access.video-part-length-not-negative', 'Memory.%s: %s' % (name, short(x, 70)), ok,
                   'for an address beyond the video window the length is negative: BSAVE ends in ValueError, BLOAD drops the tail of the block', ctx.where(x))
    rep.ob('access.video-part-length-not-negative', 'reader and writer compute the video part of a block identically',
           lens['_get_memory_block'] == lens['_set_memory_block'] and len(lens['_get_memory_block']) == 1, repr(lens), MA)


def variants(ctx):
    Va = mu.Variant

    def in_fn(f_name, f):
        return lambda tree: f(mu.find_def(tree, f_name))

    return [
        mu.Variant('tandy6-odd-byte-maps-four-pixels-right', 'break', 'pcbasic/basic/display/framebuffer.py',
                   lambda tree: mu.replace_expr(mu.find_def(tree, 'Tandy6MemoryMapper._get_coords'), mu.text_is('col // 2 * 8'), 'col * 8 // 2'), expect='tandy6.byte-pair-shares-pixels'),
        mu.Variant('text-mapper-lacks-plane-registers', 'break', 'pcbasic/basic/display/framebuffer.py',
                   lambda tree: _drop_method(tree, 'TextMemoryMapper', 'set_plane'), expect='access.mapper-interface-complete'),
        mu.Variant('cga-decoder-assumes-two-way-interleave', 'break', 'pcbasic/basic/display/framebuffer.py',
                   lambda tree: mu.replace_expr(mu.find_def(tree, 'CGAMemoryMapper._get_coords'), mu.text_is('self._interleave_times * row'), '2 * row'), expect='interleave.same-stride'),
        mu.Variant('bload-strips-every-trailing-marker', 'break', MA,
                   lambda tree: mu.replace_stmt(mu.find_def(tree, 'Memory.bload_'), lambda st: isinstance(st, ast.If) and 'buf[-1] == 26' in norm(st.test), "buf = buf.rstrip(b'\\x1a')"), expect='bload.one-marker-only'),
        mu.Variant('video-part-length-unclamped', 'break', MA,
                   lambda tree: mu.replace_expr(mu.find_def(tree, 'Memory._get_memory_block'), mu.text_is('max(0, 131072 - (addr - self.video_segment * 16))'), '131072 - (addr - self.video_segment * 16)'),
                   expect='access.video-part-length-not-negative'),
        Va('text-block-stops-at-gap', 'break', FB,
           lambda tree: mu.replace_stmt(mu.find_def(tree, 'TextMemoryMapper.set_memory'), lambda st: isinstance(st, ast.Pass), 'break'), expect='text.block-equals'),
        Va('page-step-keeps-start-row', 'break', FB,
           lambda tree: mu.replace_stmt(mu.find_def(tree, 'GraphicsMemoryMapper._walk_memory'), mu.text_is('y, start_y = (0, 0)'), 'y = 0'), expect='walk.page-step-resets'),
        Va('cga-writer-other-density', 'break', FB,
           in_fn('CGAMemoryMapper.set_memory', lambda fn: mu.replace_expr(fn, mu.text_is('self._ppb'), '8')), expect='mapper.same-density'),
        Va('ega-reader-no-plane-shift', 'break', FB,
           in_fn('EGAMemoryMapper.get_memory', lambda fn: mu.replace_expr(fn, mu.text_is('(pixarray >> plane).packed(8)'), 'pixarray.packed(8)')), expect='mapper.plane-select'),
        Va('ega-writer-overwrites-other-planes', 'break', FB,
           in_fn('EGAMemoryMapper.set_memory', lambda fn: mu.replace_expr(fn, mu.text_is('pixarray & mask | substrate'), 'pixarray & mask')), expect='mapper.plane-masking'),
        Va('tandy-reader-factor-1', 'break', FB,
           in_fn('Tandy6MemoryMapper.get_memory', lambda fn: mu.replace_expr(fn, mu.text_is('self._walk_memory(addr, num_bytes, 2)'), 'self._walk_memory(addr, num_bytes)')), expect='mapper.same-walk'),
        Va('text-writer-even-is-attribute', 'break', FB,
           in_fn('TextMemoryMapper.set_memory', lambda fn: mu.replace_expr(fn, mu.text_is('(addr + i) % 2'), '(addr + i + 1) % 2')), expect='text'),
        Va('byte-read-bypasses-mapper', 'break', MA,
           in_fn('Memory._get_video_memory', lambda fn: mu.replace_expr(fn, mu.text_is('self._display.mode.memorymap.get_memory(self._display, addr, 1)[0]'),
                                                                       'self._display.mode.memorymap.get_memory(self._display, addr + 1, 1)[0]')), expect='access.same'),
        Va('cga-writer-row-shifted', 'break', FB,
           in_fn('CGAMemoryMapper.set_memory', lambda fn: mu.replace_stmt(fn, mu.stmt_has('display.pages[page].pixels[y, x:x + pixarray.width]', ast.Assign),
                                                                         'display.pages[page].pixels[y + 1, x:x + pixarray.width] = pixarray')), expect='mapper.same-pixel-row'),
        Va('neutral', 'neutral', FB, in_fn('CGAMemoryMapper.get_memory', lambda fn: mu.rename_local(fn, 'pixarray', 'row'))),
    ]


def _drop_method(tree, cls, meth):
    for n in ast.walk(tree):
        if isinstance(n, ast.ClassDef) and n.name == cls:
            for st in list(n.body):
                if isinstance(st, ast.FunctionDef) and st.name == meth:
                    n.body.remove(st)
                    return True
    return False


"""
C28 -- DOS file names map to host files consistently (structural half).

Decides:
 * created names: on the create path of DiskDevice._get_native_name the
   returned name is dos_normalise_name(...) of the requested name, and
   that return is dominated by the dos_is_legal_name test (else Bad file name);
   dos_normalise_name upper-cases *before* it splits and truncates to 8.3, and
   '.'/'..' pass unchanged;
 * case-insensitive lookup: dos_to_native_name compares the *normalised* form of
   every legal directory entry with the normalised requested name; wildcard
   matching upper-cases both the mask and the name;
 * default extension: .BAS is appended iff a default extension is given and
   the name contains no dot; the default extension is set exactly for
   program/memory file types (M P B A) and empty for data files; the lock name
   uses the same rule;
 * legality: length limits 8/3, no leading/trailing blanks, allowable
   character set; illegal names raise Bad file name before any host call;
 * FILES lists entries under their display name: a legal name shows as the
   normalised name that opens it.
Not decided: matching against real directory contents.
"""
import ast

from ..source import norm, short
from ..flow import own_nodes
from .. import mutate as mu

PROP = 'C28'
LEVEL = 'other'
TECHNIQUE = 'static analysis: dominance of the legality test over the create path, dataflow order upper()->split->truncate, sibling agreement of the default-extension rule'
EXPLANATION = __doc__

DISK = 'pcbasic/basic/devices/disk.py'


def _masks_and_characters(ctx, rep):
    """A mask is matched against a name field by field (trunk with trunk, extension with extension) everywhere a mask is
    used, so `DATA.` matches the file DATA for KILL as it does for OPEN / FILES; the legal-character set is the DOS one."""
    D = 'pcbasic/basic/devices/disk.py'
    n = 0
    for fn in ctx.idx.functions(D):
        halves = {}
        for a in own_nodes(fn):
            if isinstance(a, ast.Assign) and isinstance(a.targets[0], ast.Tuple) and len(a.targets[0].elts) == 2 and isinstance(a.value, ast.Call) \
                    and norm(a.value.func) == 'dos_splitext' and all(isinstance(e, ast.Name) for e in a.targets[0].elts):
                for i, e in enumerate(a.targets[0].elts):
                    halves[e.id] = i
        split_lists = set(norm(a.targets[0]) for a in own_nodes(fn) if isinstance(a, ast.Assign) and isinstance(a.value, (ast.ListComp, ast.GeneratorExp))
                          and isinstance(a.value.elt, ast.Call) and norm(a.value.elt.func) == 'dos_splitext')
        for g in own_nodes(fn):
            if isinstance(g, ast.comprehension) and isinstance(g.target, ast.Tuple) and len(g.target.elts) == 2 and norm(g.iter) in split_lists \
                    and all(isinstance(e, ast.Name) for e in g.target.elts):
                for i, e in enumerate(g.target.elts):
                    halves[e.id] = i
        for c in own_nodes(fn):
            if isinstance(c, ast.Call) and norm(c.func) == 'dos_name_matches' and len(c.args) == 2:
                n += 1
                a0, a1 = c.args
                ok = isinstance(a0, ast.Name) and isinstance(a1, ast.Name) and a0.id in halves and a1.id in halves and halves[a0.id] == halves[a1.id] and a0.id != a1.id
                rep.ob('mask.matched-field-by-field', '%s: %s' % (fn.name, short(c, 60)), ok,
                       'a mask is compared with something other than the same field of a split name: `NAME.` no longer matches the file NAME', ctx.where(c))
    rep.floor('mask.matched-field-by-field', n, 3, 'calls of dos_name_matches')
    allowed = ctx.const(D, 'ALLOWABLE_CHARS')
    dos = set(b" !#$%&'()-@^_`{}~")
    got = set(x if isinstance(x, int) else ord(x) for x in allowed) if isinstance(allowed, (set, frozenset, list, tuple, bytes)) else None
    rep.ob('legal.character-set', 'ALLOWABLE_CHARS has every punctuation character DOS allows in a name', got is not None and dos <= got,
           'missing: %r' % (bytes(sorted(dos - got)) if got is not None else None,), D)
    rep.ob('legal.character-set', 'ALLOWABLE_CHARS has no separator or wildcard', got is not None and not (got & set(b'.*?/:;,=+<>|"[]' + bytes([92]))), '', D)



def check(ctx, rep):
    # FILES lists every visible file: on POSIX hosts only dot files are hidden -- `~` is a legal DOS character and a name that
    # ends in it is a file like any other
    ih = ctx.fn('pcbasic/compat/posix.py:is_hidden')
    preds = [c for c in own_nodes(ih) if isinstance(c, ast.Call) and isinstance(c.func, ast.Attribute) and c.func.attr in ('startswith', 'endswith', 'find', 'index', 'count')]
    preds += [c for c in own_nodes(ih) if isinstance(c, ast.Compare) and any(isinstance(o, ast.In) for o in c.ops)]
    rep.ob('files.only-dot-files-hidden', 'posix is_hidden: a file is hidden iff its name starts with a dot (and is not . or ..)',
           [norm(p_) for p_ in preds] == ["base.startswith('.')"] or [norm(p_) for p_ in preds] == ["base.startswith(u'.')"],
           'hidden by %s: files that BASIC can create and open are left out of FILES and cannot be KILLed' % [norm(p_) for p_ in preds], ctx.where(ih))
    _masks_and_characters(ctx, rep)
    gn = ctx.fn(DISK + ':DiskDevice._get_native_name')
    fl = ctx.flow(gn)
    created = [r for r in own_nodes(gn) if isinstance(r, ast.Return) and 'norm_name' in norm(r.value)]
    ok = len(created) == 1 and norm(created[0].value) == "norm_name.decode('ascii', errors='replace')"
    rep.ob('create.normalised-name', 'a newly created file gets the normalised name', ok, repr([norm(c.value) for c in created]), ctx.where(gn))
    if created:
        c = created[0]
        rep.ob('create.only-when-allowed', 'a name is created only on the create path', fl.knows(c, 'create', True), '', ctx.where(c))
        rep.ob('create.legal-name-checked', 'the created name passed dos_is_legal_name', fl.knows(c, 'not dos_is_legal_name(norm_name)', False) or
               fl.knows(c, 'dos_is_legal_name(norm_name)', True), 'legality test does not dominate the create path', ctx.where(c))
    # between the user's name and the legality test the name may only lose a *single* trailing dot (the
    # GW-BASIC "NAME." == "NAME" rule): any other shortening turns illegal names (A.B., A..) into legal ones
    cuts = [a for a in own_nodes(gn) if isinstance(a, ast.Assign) and norm(a.targets[0]) == 'dos_name' and isinstance(a.value, ast.Subscript)
            and norm(a.value.value) == 'dos_name' and isinstance(a.value.slice, ast.Slice)]
    for a in cuts:
        facts = set()
        for f in fl.facts(a):
            if f.pol:
                facts |= set(x.strip() for x in f.text.split(' and '))
        # facts are killed by the re-assignment itself; take them at the enclosing block
        p_ = a._parent
        if isinstance(p_, ast.If) and a in p_.body:
            t = p_.test
            facts |= set(norm(v) for v in (t.values if isinstance(t, ast.BoolOp) and isinstance(t.op, ast.And) else [t]))
        ok = norm(a.value.slice) in (':-1',) and "b'.' not in dos_name[:-1]" in facts and ("dos_name[-1:] == b'.'" in facts or "dos_name.endswith(b'.')" in facts)
        rep.ob('illegal.only-single-trailing-dot-dropped', 'the name is shortened before the legality test only by one trailing dot of a name with no other dot', ok,
               'shortened under %s: names such as A.B. or A.. lose their illegal trailing dot and are accepted' % sorted(facts), ctx.where(a))
    rep.floor('illegal.only-single-trailing-dot-dropped', len(cuts), 1, 'shortenings of the user name')
    gde = ctx.fn(DISK + ':DiskDevice._get_dos_name_defext')
    body_ = [x for x in gde.body if not (isinstance(x, ast.Expr) and isinstance(x.value, ast.Constant))]
    strip_i = [i for i, x in enumerate(body_) if norm(x) == 'dos_name = dos_name.rstrip()']
    ext_i = [i for i, x in enumerate(body_) if isinstance(x, ast.If) and 'defext' in norm(x.test) and "b'.' + defext" in norm(x)]
    rep.ob('defext.strip-before-extension', 'trailing blanks are dropped before the default extension is appended (`PROG ` is PROG.BAS, not `PROG .BAS`)',
           len(strip_i) == 1 and len(ext_i) == 1 and strip_i[0] < ext_i[0], '', ctx.where(gde))
    nn = [a for a in own_nodes(gn) if isinstance(a, ast.Assign) and norm(a.targets[0]) == 'norm_name']
    rep.ob('create.normalised-name', 'norm_name = dos_normalise_name(dos_name)', len(nn) == 1 and norm(nn[0].value) == 'dos_normalise_name(dos_name)', '', ctx.where(gn))
    bad = [n for n in own_nodes(gn) if isinstance(n, ast.If) and norm(n.test) == 'not dos_is_legal_name(norm_name)']
    rep.ob('illegal.bad-file-name', 'illegal names raise Bad file name', len(bad) == 1 and ctx.basic_error_code(bad[0].body[0]) == 'BAD_FILE_NAME', '', ctx.where(gn))
    nf = [r for r, c in ctx.raises_in(gn) if norm(r.exc) == 'error.BASICError(name_err)']
    rep.ob('lookup.not-found', 'a missing file without create raises File/Path not found', len(nf) >= 1 and
           any(norm(a.value) == 'error.PATH_NOT_FOUND if isdir else error.FILE_NOT_FOUND' for a in own_nodes(gn) if isinstance(a, ast.Assign) and norm(a.targets[0]) == 'name_err'),
           '', ctx.where(gn))
    # normalise: upper before split before truncate
    dn = ctx.fn(DISK + ':dos_normalise_name')
    st = [norm(s) for s in dn.body if not (isinstance(s, ast.Expr) and isinstance(s.value, ast.Constant))]

    def pos(t):
        return st.index(t) if t in st else None
    order = [pos('dos_name = dos_name.upper()'), pos('trunk, ext = dos_splitext(dos_name)'), pos('trunk, ext = (trunk[:8], ext[:3])')]
    rep.ob('normalise.upper-split-truncate', 'dos_normalise_name: upper-case, split at the first dot, truncate to 8.3', None not in order and order == sorted(order), repr(st), ctx.where(dn))
    real = [x for x in dn.body if not (isinstance(x, ast.Expr) and isinstance(x.value, ast.Constant))]
    first = real[0] if real else None
    rep.ob('normalise.dot-names', "'.' and '..' are returned unchanged", isinstance(first, ast.If) and norm(first.test) == "dos_name in (b'.', b'..')"
           and norm(first.body[0]) == 'return dos_name', '', ctx.where(dn))
    rets = [norm(r.value) for r in own_nodes(dn) if isinstance(r, ast.Return)]
    rep.ob('normalise.result', 'the result is trunk + ("." + ext if ext)', 'norm_name' in rets and 'norm_name = trunk + ext' in st and
           any(isinstance(n, ast.If) and norm(n.test) == 'ext' and norm(n.body[0]) == "ext = b'.' + ext" for n in own_nodes(dn)), repr(rets), ctx.where(dn))
    se = ctx.fn(DISK + ':dos_splitext')
    rep.ob('normalise.split-first-dot', 'dos_splitext splits at the first dot', any(norm(a.value) == "dos_name.split(b'.', 1)" for a in own_nodes(se) if isinstance(a, ast.Assign)), '', ctx.where(se))
    # legality
    il = ctx.fn(DISK + ':dos_is_legal_name')
    r = [x for x in own_nodes(il) if isinstance(x, ast.Return) and isinstance(x.value, ast.BoolOp)]
    parts = [norm(v) for v in r[0].value.values] if r else []
    rep.ob('legal.definition', 'legal = lengths <= 8/3, no outer blanks, allowable characters only',
           parts == ['len(trunk) <= 8 and len(ext) <= 3', 'trunk == trunk.strip() and ext == ext.strip()', 'set(trunk) | set(ext) <= ALLOWABLE_CHARS'], repr(parts), ctx.where(il))
    allow = ctx.const(DISK, 'ALLOWABLE_CHARS')
    rep.ob('legal.charset', 'allowable characters contain all letters and digits and no dot, separator or wildcard',
           set(b'ABCXYZabcxyz0189') <= set(allow) and not set(allow) & set(b'.\\/:*?"<>|'), '', DISK)
    # lookup: normalised comparison
    tn = ctx.fn(DISK + ':dos_to_native_name')
    fl2 = ctx.flow(tn)
    lp = [n for n in own_nodes(tn) if isinstance(n, ast.For) and norm(n.iter) == 'sorted(all_names)']
    lv = norm(lp[0].target) if lp else '?'
    cmpret = [x for x in own_nodes(tn) if isinstance(x, ast.Return) and norm(x.value) == lv]
    rep.ob('lookup.case-insensitive', 'directory entries are compared in normalised (upper-case 8.3) form',
           len(cmpret) == 1 and fl2.knows(cmpret[0], 'try_name == dosname and istype(native_path, %s, isdir)' % lv, True) and
           any(norm(a) == 'try_name = dos_normalise_name(ascii_name)' for a in own_nodes(tn) if isinstance(a, ast.Assign)) and
           fl2.knows(cmpret[0], 'dos_is_legal_name(ascii_name)', True), '', ctx.where(tn))
    rep.ob('lookup.exact-first', 'an exact upper-case 8.3 entry is preferred', any(isinstance(n, ast.If) and norm(n.test) == 'istype(native_path, uni_name, isdir)'
                                                                                  and norm(n.body[0]) == 'return uni_name' for n in tn.body), '', ctx.where(tn))
    rep.ob('lookup.deterministic-order', 'other entries are tried in sorted order', any(isinstance(n, ast.For) and norm(n.iter) == 'sorted(all_names)' for n in own_nodes(tn)), '', ctx.where(tn))
    nm = ctx.fn(DISK + ':dos_name_matches')
    t = norm(nm)
    rep.ob('wildcards.case-insensitive', 'wildcard matching upper-cases mask and name', 'iterchar(mask.upper())' in t and 'cregexp.match(name.upper())' in t, '', ctx.where(nm))
    rep.ob('wildcards.anchored', 'the mask must match the whole name', "regexp = b'\\\\A'" in t and "regexp += b'\\\\Z'" in t, '', ctx.where(nm))
    # default extension
    de = ctx.fn(DISK + ':DiskDevice._get_dos_name_defext')
    fl3 = ctx.flow(de)
    app = [a for a in own_nodes(de) if isinstance(a, ast.AugAssign) and norm(a) == "dos_name += b'.' + defext"]
    rep.ob('defext.iff-no-dot', 'the default extension is appended iff one is given and the name has no dot',
           len(app) == 1 and fl3.knows(app[0], "defext and b'.' not in dos_name", True), '', ctx.where(de))
    op = ctx.fn(DISK + ':DiskDevice.open')
    fl4 = ctx.flow(op)
    d = dict((norm(a.value), [f.text for f in fl4.facts(a) if f.text.startswith('set(filetype)')] + [f.pol for f in fl4.facts(a) if f.text.startswith('set(filetype)')])
             for a in own_nodes(op) if isinstance(a, ast.Assign) and norm(a.targets[0]) == 'defext')
    rep.ob('defext.program-types-only', '.BAS is the default for file types M P B A and nothing for data files',
           d == {"b'BAS'": ["set(filetype).intersection(set(b'MPBA'))", True], "b''": ["set(filetype).intersection(set(b'MPBA'))", False]}, repr(d), ctx.where(op))
    uses = [norm(c) for c in own_nodes(op) if isinstance(c, ast.Call) and 'defext' in [norm(a) for a in c.args]]
    rep.ob('defext.same-rule-for-lock-name', 'the sharing/lock name applies the same default-extension rule',
           'self._get_dos_name_defext(filespec, defext)' in uses and any(norm(c.func) == 'self._get_dos_name_defext' for c in own_nodes(gn) if isinstance(c, ast.Call)), repr(uses), ctx.where(op))
    # display name
    dd = ctx.fn(DISK + ':DiskDevice._get_dos_display_name')
    fl5 = ctx.flow(dd)
    r = [x for x in own_nodes(dd) if isinstance(x, ast.Return) and norm(x.value) == 'dos_normalise_name(ascii_name)']
    rep.ob('files.display-name-opens', 'FILES shows a legal entry under its normalised name', len(r) == 1 and fl5.knows(r[0], 'dos_is_legal_name(ascii_name)', True), '', ctx.where(dd))
    k = ctx.fn(DISK + ':DiskDevice.kill')
    rep.ob('kill.only-legal-display-names', 'KILL only removes entries whose display name is a legal DOS name (never "+"-shortened ones)',
           'dos_is_legal_name(_dos_name)' in norm(k), '', ctx.where(k))


def variants(ctx):
    Va = mu.Variant

    def in_fn(f_name, f):
        return lambda tree: f(mu.find_def(tree, f_name))

    return [
        mu.Variant('names-ending-in-tilde-hidden', 'break', 'pcbasic/compat/posix.py',
                   lambda tree: mu.replace_expr(mu.find_def(tree, 'is_hidden'), lambda n: isinstance(n, ast.Call) and isinstance(n.func, ast.Attribute) and n.func.attr == 'startswith', "(base.startswith(u'.') or base.endswith(u'~'))"),
                   expect='files.only-dot-files-hidden'),
        mu.Variant('kill-matches-whole-name-against-mask', 'break', 'pcbasic/basic/devices/disk.py',
                   lambda tree: mu.replace_expr(mu.find_def(tree, 'DiskDevice.kill'), mu.text_is('dos_name_matches(trunk, trunkmask) and dos_name_matches(ext, extmask)'), 'dos_name_matches(dos_name, dos_mask)'),
                   expect='mask.matched-field-by-field'),
        mu.Variant('apostrophe-dropped-from-legal-characters', 'break', 'pcbasic/basic/devices/disk.py',
                   lambda tree: mu.replace_expr(tree, lambda n: isinstance(n, ast.Constant) and isinstance(n.value, bytes) and n.value.startswith(b' !#$%&'), "b' !#$%&()-@^_`{}~'"),
                   expect='legal.character-set'),
        Va('extension-before-strip', 'break', DISK, in_fn('DiskDevice._get_dos_name_defext', _strip_last), expect='defext.strip-before'),
        Va('any-trailing-dot-dropped', 'break', DISK,
           in_fn('DiskDevice._get_native_name', lambda fn: mu.replace_expr(fn, mu.text_is("dos_name[-1:] == b'.' and b'.' not in dos_name[:-1]"), "dos_name.endswith(b'.')")), expect='illegal.only-single'),
        Va('created-name-not-normalised', 'break', DISK,
           in_fn('DiskDevice._get_native_name', lambda fn: mu.replace_expr(fn, mu.text_is("norm_name.decode('ascii', errors='replace')"), "dos_name.decode('ascii', errors='replace')")),
           expect='create'),
        Va('legality-check-after-create', 'break', DISK, in_fn('DiskDevice._get_native_name', _legal_last), expect='create.legal'),
        Va('normalise-truncates-before-upper', 'break', DISK, in_fn('dos_normalise_name', _upper_last), expect='normalise'),
        Va('normalise-no-upper', 'break', DISK, in_fn('dos_normalise_name', lambda fn: mu.remove_stmt(fn, mu.text_is('dos_name = dos_name.upper()'))), expect='normalise'),
        Va('lookup-case-sensitive', 'break', DISK,
           in_fn('dos_to_native_name', lambda fn: mu.replace_stmt(fn, mu.text_is('try_name = dos_normalise_name(ascii_name)'), 'try_name = ascii_name')), expect='lookup.case'),
        Va('defext-always', 'break', DISK,
           in_fn('DiskDevice._get_dos_name_defext', lambda fn: mu.replace_expr(fn, mu.text_is("defext and b'.' not in dos_name"), 'defext')), expect='defext.iff'),
        Va('defext-for-data-files', 'break', DISK,
           in_fn('DiskDevice.open', lambda fn: mu.replace_expr(fn, mu.text_is("set(b'MPBA')"), "set(b'MPBAD')")), expect='defext.program'),
        Va('nine-char-trunk-legal', 'break', DISK,
           in_fn('dos_is_legal_name', lambda fn: mu.replace_expr(fn, mu.text_is('len(trunk) <= 8'), 'len(trunk) <= 9')), expect='legal.definition'),
        Va('wildcard-case-sensitive', 'break', DISK,
           in_fn('dos_name_matches', lambda fn: mu.replace_expr(fn, mu.text_is('name.upper()'), 'name')), expect='wildcards'),
        Va('illegal-name-file-not-found', 'break', DISK,
           in_fn('DiskDevice._get_native_name', lambda fn: mu.replace_expr(fn, mu.text_is('error.BAD_FILE_NAME'), 'error.FILE_NOT_FOUND')), expect='illegal'),
        Va('neutral', 'neutral', DISK, in_fn('dos_to_native_name', lambda fn: mu.rename_local(fn, 'f', 'entry'))),
    ]


def _legal_last(fn):
    g = [s for s in fn.body if isinstance(s, ast.If) and norm(s.test) == 'not dos_is_legal_name(norm_name)'][0]
    fn.body.remove(g)
    fn.body.append(g)
    return True


def _upper_last(fn):
    u = [s for s in fn.body if norm(s) == 'dos_name = dos_name.upper()'][0]
    fn.body.remove(u)
    k = [i for i, s in enumerate(fn.body) if norm(s) == 'trunk, ext = (trunk[:8], ext[:3])'][0]
    fn.body.insert(k + 1, u)
    return True


def _strip_last(fn):
    st = [x for x in fn.body if norm(x) == 'dos_name = dos_name.rstrip()']
    ret = [x for x in fn.body if isinstance(x, ast.Return)]
    if len(st) != 1 or len(ret) != 1:
        return False
    fn.body.remove(st[0])
    fn.body.insert(fn.body.index(ret[0]), st[0])
    return True

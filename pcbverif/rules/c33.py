"""
C33 -- DRAW moves the pen exactly as its commands specify (structural half).

Decides:
 * direction table: folding the two membership chains in Graphics._draw over
   all eight move letters gives U(0,-) D(0,+) L(-,0) R(+,0) E(+,-) F(+,+)
   G(-,+) H(-,-) times the step;
 * scaling: _draw_step multiplies each offset by scale/4 and truncates toward
   zero (int(math.trunc(scale*s / 4.))); without rotation the offset is used
   as is; the new position is start + offset;
 * B and N: `B` clears the plot flag and `N` sets the go-back flag; every move
   branch (single-letter moves and M) resets both afterwards; with go-back the
   pen returns to the start of the move;
 * drawn segments are drawn by _draw_line (the LINE primitive) from the start
   to the end of the move, only when the plot flag is set;
 * absolute M assigns the position; relative M (sign prefix) goes through
   _draw_step like the letters; a missing comma is Illegal function call;
 * POINT(0)/POINT(1) report `_draw_current or _last_point`, and after DRAW the
   last point follows the pen (unless WINDOW is active);
 * argument ranges: S 1..255, A 0..3, TA -360..360, moves +-99999, M +-9999;
   unknown commands raise Illegal function call.
"""
import ast

from ..source import norm, short
from ..consts import is_unknown
from ..flow import own_nodes
from ..intervals import bounds
from .. import mutate as mu

PROP = 'C33'
LEVEL = 'other'
TECHNIQUE = 'static analysis: direction table folded from the membership chains, flag-reset pairing per branch, scaling expression shape'
EXPLANATION = __doc__

G = 'pcbasic/basic/display/graphics.py'
WANT = {b'U': (0, -1), b'D': (0, 1), b'L': (-1, 0), b'R': (1, 0), b'E': (1, -1), b'F': (1, 1), b'G': (-1, 1), b'H': (-1, -1)}


def _colour_in_mode_range(ctx, rep):
    """The colour DRAW (and the next DRAW after another statement) plots with is an attribute of the screen mode: every value
    stored in `_last_attr` comes from `_get_attr_index` (which clamps to the mode), is the mode's default attribute, or is 0.
    A raw number ends in a ValueError when the pixel is written (C256), or plots an attribute the mode does not have."""
    n = 0
    for fn in ctx.idx.functions(G):
        locals_ok = {}
        for a in own_nodes(fn):
            if isinstance(a, ast.Assign):
                tg = a.targets[0]
                v = norm(a.value)
                names = [tg] if isinstance(tg, ast.Name) else (list(tg.elts) if isinstance(tg, ast.Tuple) else [])
                for i, t in enumerate(names):
                    if not isinstance(t, ast.Name):
                        continue
                    if isinstance(a.value, ast.Tuple) and len(a.value.elts) == len(names):
                        vv = norm(a.value.elts[i])
                    else:
                        vv = v
                    locals_ok.setdefault(t.id, []).append(vv.startswith('self._get_attr_index(') or vv in ('0', 'self._mode.attr'))
        for a in own_nodes(fn):
            if isinstance(a, ast.Assign) and norm(a.targets[0]) == 'self._last_attr':
                n += 1
                v = a.value
                ok = norm(v).startswith('self._get_attr_index(') or norm(v) in ('0', 'self._mode.attr', 'None') \
                    or (isinstance(v, ast.Name) and locals_ok.get(v.id) and all(locals_ok[v.id]))
                params = [p_.arg for p_ in fn.args.args]
                if not ok and isinstance(v, ast.Name) and v.id in params and v.id not in locals_ok:
                    # a parameter: every caller in this module passes a converted value in that position
                    k = params.index(v.id) - 1
                    passed = []
                    for caller in ctx.idx.functions(G):
                        cl_ok = {}
                        for a2 in own_nodes(caller):
                            if isinstance(a2, ast.Assign) and isinstance(a2.targets[0], ast.Name):
                                cl_ok.setdefault(a2.targets[0].id, []).append(norm(a2.value).startswith('self._get_attr_index('))
                        for c in own_nodes(caller):
                            if isinstance(c, ast.Call) and norm(c.func) == 'self.' + fn.name and len(c.args) > k:
                                arg = c.args[k]
                                passed.append(isinstance(arg, ast.Name) and bool(cl_ok.get(arg.id)) and all(cl_ok[arg.id]))
                    ok = bool(passed) and all(passed)
                rep.ob('colour.within-mode-range', '%s: %s' % (fn.name, short(a, 60)), ok,
                       'the value stored as the drawing colour has not been brought into the range of the screen mode', ctx.where(a))
    rep.floor('colour.within-mode-range', n, 8, 'stores to _last_attr')


def check(ctx, rep):
    _colour_in_mode_range(ctx, rep)
    dr = ctx.fn(G + ':Graphics._draw')
    fl = ctx.flow(dr)
    # the move branch
    mv = None
    for n in own_nodes(dr):
        if isinstance(n, ast.If) and isinstance(n.test, ast.Compare) and norm(n.test.left) == 'c' and isinstance(n.test.ops[0], ast.In):
            letters = ctx.fold(n.test.comparators[0])
            if isinstance(letters, tuple) and set(letters) == set(WANT):
                mv = n
    rep.ob('moves.branch', 'one branch handles exactly the letters U D L R E F G H', mv is not None, '', ctx.where(dr))
    if mv is not None:
        table = {}
        for letter in sorted(WANT):
            x = y = 0
            for st in mv.body:
                node = st
                while isinstance(node, ast.If):
                    v = ctx.cf.fold(node.test, dr._module, {'c': letter})
                    if is_unknown(v):
                        break
                    if v:
                        for s in node.body:
                            if isinstance(s, ast.AugAssign) and norm(s.value) == 'step':
                                d = 1 if isinstance(s.op, ast.Add) else -1
                                if norm(s.target) == 'x1':
                                    x += d
                                elif norm(s.target) == 'y1':
                                    y += d
                        break
                    node = node.orelse[0] if len(node.orelse) == 1 and isinstance(node.orelse[0], ast.If) else None
            table[letter] = (x, y)
        for letter in sorted(WANT):
            rep.ob('moves.direction-table', '%s moves by (%+d, %+d) x step' % ((letter.decode(),) + WANT[letter]), table.get(letter) == WANT[letter], 'folded: %r' % (table.get(letter),), ctx.where(mv))
        init = [norm(s) for s in mv.body if isinstance(s, ast.Assign)]
        rep.ob('moves.offsets-start-at-zero', 'the offset starts at (0, 0) and the move starts at the pen position', 'x1, y1 = (0, 0)' in init and 'x0, y0 = self._draw_current' in init, repr(init), ctx.where(mv))
        calls = [norm(c) for st_ in mv.body for c in own_nodes(st_) if isinstance(c, ast.Call) and norm(c.func) == 'self._draw_step']
        rep.ob('moves.step-call', 'the move is executed by _draw_step(start, offset, plot, goback)', calls == ['self._draw_step(x0, y0, x1, y1, plot, goback)'], repr(calls), ctx.where(mv))
        sp = [c for st_ in mv.body for c in own_nodes(st_) if isinstance(c, ast.Call) and norm(c.func) == 'gmls.parse_number']
        rep.ob('moves.default-count', 'a move without a number moves by 1', len(sp) == 1 and [norm(k.value) for k in sp[0].keywords if k.arg == 'default'] == ['1'], '', ctx.where(mv))
    # a leading minus applies to every operand form (literal, =variable;, =VARPTR$): the negation is a statement
    # of the function body placed after all of them, or every branch multiplies by the sign itself
    pn = ctx.fn('pcbasic/basic/mlparser.py:MLParser.parse_number')
    srcs = [a for a in own_nodes(pn) if isinstance(a, ast.Assign) and norm(a.targets[0]) == 'step' and not isinstance(a.value, ast.UnaryOp)
            and norm(a.value) != 'default']
    negs = [st for st in pn.body if isinstance(st, ast.If) and norm(st.test) in ('sgn == -1', 'sgn < 0')
            and [norm(x) for x in st.body] == ['step = -step']]
    def top(st):
        while st._parent is not pn:
            st = st._parent
        return st
    for a in srcs:
        ok = 'sgn' in [x.id for x in ast.walk(a.value) if isinstance(x, ast.Name)] or (len(negs) == 1 and pn.body.index(negs[0]) > pn.body.index(top(a)))
        rep.ob('numbers.sign-applies-to-every-form', 'parse_number: the sign is applied to `%s`' % short(a.value, 50), ok,
               'a minus sign before this operand form is ignored (e.g. DRAW "U-=A;" moves up instead of down)', ctx.where(a))
    rep.floor('numbers.sign-applies-to-every-form', len(srcs), 3, 'operand forms')
    # a variable (or VARPTR$) operand is converted the way BASIC converts a number to an integer -- the value's own to_int,
    # which rounds; Python's int() truncates (A=7.6: DRAW "R=A;" moves 8, not 7)
    var_forms = [a for a in srcs if 'stepval' in [x.id for x in ast.walk(a.value) if isinstance(x, ast.Name)]]
    for a in var_forms:
        v = a.value
        ok = isinstance(v, ast.Call) and isinstance(v.func, ast.Attribute) and v.func.attr == 'to_int' and not v.args and not v.keywords \
            and norm(v.func.value) == 'values.pass_number(stepval)'
        rep.ob('numbers.variable-operand-rounded', 'parse_number: %s' % short(a, 60), ok,
               'the operand is not converted with the value`s own to_int(): a fractional variable is truncated instead of rounded, or a string is accepted', ctx.where(a))
    rep.floor('numbers.variable-operand-rounded', len(var_forms), 2, 'variable operand forms')
    # after `=` a byte above the largest VARPTR$ type code starts a variable *name*; the type codes are the value
    # sizes 2, 3, 4, 8, so the boundary is the size of a double
    flp = ctx.flow(pn)
    thr = [n for n in own_nodes(pn) if isinstance(n, ast.If) and isinstance(n.test, ast.Compare) and norm(n.test.left) == 'ord(c)']
    dbl = ctx.fold(ctx.idx.locate('pcbasic/basic/values/numbers.py:Double.size'))
    okt = len(thr) == 1 and isinstance(thr[0].test.ops[0], ast.Gt) and ctx.fold(thr[0].test.comparators[0]) == dbl == 8
    rep.ob('numbers.varptr-type-byte-boundary', 'parse_number: a byte is a name character iff it is greater than the largest VARPTR$ type code (%s)' % dbl, okt,
           norm(thr[0].test) if thr else 'no test', ctx.where(pn))
    # the DRAW state (pen, scale, angle) that __init__ declares is put back by reset() (CLS, SCREEN, RUN, CLEAR):
    # after a reset DRAW starts from the centre, at scale 4 and angle 0
    gi = ctx.fn(G + ':Graphics.__init__')
    rs_ = ctx.fn(G + ':Graphics.reset')
    declared = sorted(set(norm(a.targets[0]) for a in own_nodes(gi) if isinstance(a, ast.Assign) and norm(a.targets[0]).startswith('self._draw_')))
    reset_vals = dict((norm(a.targets[0]), norm(a.value)) for a in rs_.body if isinstance(a, ast.Assign))
    missing = [d for d in declared if d not in reset_vals]
    rep.ob('reset.draw-state', 'Graphics.reset puts back every DRAW field declared in __init__ (%s)' % ', '.join(d.split('.')[-1] for d in declared), not missing and len(declared) >= 3
           and reset_vals.get('self._draw_current') == 'None' and reset_vals.get('self._draw_scale') == '4' and reset_vals.get('self._draw_angle') == '0',
           'not reset: %s; values %s' % (missing, dict((k, v) for k, v in reset_vals.items() if '_draw_' in k)), ctx.where(rs_))
    rep.ob('reset.pen-default', 'with no DRAW pen the position is the last graphics point, which reset puts at the centre of the viewport',
           reset_vals.get('self._last_point') == 'self.graph_view.get_mid()', '', ctx.where(rs_))
    # flags
    assigns = [(norm(a.targets[0]), norm(a.value), a) for a in own_nodes(dr) if isinstance(a, ast.Assign) and norm(a.targets[0]) in ('plot', 'goback')]
    setb = [a for t, v, a in assigns if t == 'plot' and v == 'False']
    setn = [a for t, v, a in assigns if t == 'goback' and v == 'True']
    rep.ob('flags.B-and-N', "B clears plot; N sets goback", len(setb) == 1 and fl.knows(setb[0], "c == b'B'", True) and len(setn) == 1 and fl.knows(setn[0], "c == b'N'", True), '', ctx.where(dr))
    resets_p = [a for t, v, a in assigns if t == 'plot' and v == 'True']
    resets_g = [a for t, v, a in assigns if t == 'goback' and v == 'False']
    mbranch = [n for n in own_nodes(dr) if isinstance(n, ast.If) and norm(n.test) == "c == b'M'"]
    ok = mv is not None and len(mbranch) == 1
    if ok:
        for br in (mv, mbranch[0]):
            tail = [norm(s) for s in br.body[-2:]]
            ok = ok and tail == ['plot = True', 'goback = False']
    rep.ob('flags.reset-after-every-move', 'every move branch ends by resetting plot and goback', ok, '', ctx.where(dr))
    rep.ob('flags.initial', 'a DRAW string starts with plot on and goback off', any(norm(a) == 'plot, goback = (True, False)' for a in own_nodes(dr) if isinstance(a, ast.Assign)), '', ctx.where(dr))
    # M
    if mbranch:
        mb = mbranch[0]
        flm = fl
        rel = [a for a in own_nodes(mb) if isinstance(a, ast.Assign) and norm(a.targets[0]) == 'relative']
        rep.ob('M.relative-iff-signed', 'M is relative iff the first number has a sign', len(rel) == 1 and norm(rel[0].value) == "gmls.skip_blank() in (b'+', b'-')", '', ctx.where(mb))
        st = [c for c in own_nodes(mb) if isinstance(c, ast.Call) and norm(c) == 'self._draw_step(x0, y0, x, y, plot, goback)']
        rep.ob('M.relative-through-step', 'relative M goes through _draw_step (scaled like the letters)', len(st) == 1 and flm.knows(st[0], 'relative', True), '', ctx.where(mb))
        ab = [a for a in own_nodes(mb) if isinstance(a, ast.Assign) and norm(a) == 'self._draw_current = (x, y)']
        ln = [c for c in own_nodes(mb) if isinstance(c, ast.Call) and norm(c) == 'self._draw_line(x0, y0, x, y, self._last_attr)']
        gb = [a for a in own_nodes(mb) if isinstance(a, ast.Assign) and norm(a) == 'self._draw_current = (x0, y0)']
        rep.ob('M.absolute-sets-position', 'absolute M draws a line (if plotting) and sets the pen to (x, y), or back to the start with N',
               len(ab) == 1 and flm.knows(ab[0], 'relative', False) and len(ln) == 1 and flm.knows(ln[0], 'plot', True) and len(gb) == 1 and flm.knows(gb[0], 'goback', True)
               and ab[0].lineno < gb[0].lineno, '', ctx.where(mb))
        ifc = [r for r, c in ctx.raises_in(dr) if c == 'ILLEGAL_FUNCTION_CALL' and flm.knows(r, "gmls.skip_blank() != b','", True)]
        rep.ob('M.comma-required', 'M without a comma raises IFC', len(ifc) == 1, '', ctx.where(mb))
        for var in ('x', 'y'):
            c = [x for x in own_nodes(mb) if isinstance(x, ast.Call) and norm(x) == 'error.range_check(-9999, 9999, %s)' % var]
            rep.ob('ranges', 'M %s within -9999..9999' % var, len(c) == 1, '', ctx.where(mb))
    # _draw_step
    ds = ctx.fn(G + ':Graphics._draw_step')
    a = dict((norm(x.targets[0]), norm(x.value)) for x in ds.body if isinstance(x, ast.Assign))
    rep.ob('step.scale-over-4-truncated', 'offset = trunc(scale * s / 4) for both axes', a.get('x1') == 'int(math.trunc(scale * sx / 4.0))' and a.get('y1') == 'int(math.trunc(scale * sy / 4.0))',
           '%r %r' % (a.get('x1'), a.get('y1')), ctx.where(ds))
    rep.ob('step.scale-source', 'scale and angle come from the DRAW state', a.get('scale') == 'self._draw_scale' and a.get('rotate') == 'self._draw_angle', '', ctx.where(ds))
    rot = [n for n in ds.body if isinstance(n, ast.If) and 'rotate' in norm(n.test)]
    rep.ob('step.no-rotation-identity', 'angle 0 (or 360) leaves the offset unchanged', len(rot) == 1 and norm(rot[0].test) == 'rotate == 0 or rotate == 360' and
           [norm(s) for s in rot[0].body] == ['pass'], '', ctx.where(ds))
    aug = [norm(x) for x in ds.body if isinstance(x, ast.AugAssign)]
    rep.ob('step.end-is-start-plus-offset', 'end point = start + offset', sorted(aug) == ['x1 += x0', 'y1 += y0'], repr(aug), ctx.where(ds))
    fls = ctx.flow(ds)
    ln = [c for c in own_nodes(ds) if isinstance(c, ast.Call) and norm(c) == 'self._draw_line(x0, y0, x1, y1, self._last_attr)']
    rep.ob('step.segment-is-a-LINE', 'the segment is drawn by the LINE primitive, only when plotting', len(ln) == 1 and fls.knows(ln[0], 'plot', True), '', ctx.where(ds))
    pos = dict((norm(x.value), fls.knows(x, 'goback', True)) for x in own_nodes(ds) if isinstance(x, ast.Assign) and norm(x.targets[0]) == 'self._draw_current')
    rep.ob('step.goback', 'N returns the pen to the start; otherwise it stays at the end', pos == {'(x0, y0)': True, '(x1, y1)': False}, repr(pos), ctx.where(ds))
    # ranges for S, A, TA, moves
    texts = [norm(c) for c in own_nodes(dr) if isinstance(c, ast.Call) and norm(c.func) == 'error.range_check']
    for want in ('error.range_check(1, 255, scale)', 'error.range_check(0, 3, angle)', 'error.range_check(-360, 360, angle)', 'error.range_check(-99999, 99999, step)'):
        rep.ob('ranges', want, want in texts, '', ctx.where(dr))
    sc = [x for x in own_nodes(dr) if isinstance(x, ast.Assign) and norm(x) == 'self._draw_scale = scale']
    rep.ob('ranges', 'the scale is stored only after its range check', len(sc) == 1 and (bounds(ctx, fl.facts(sc[0]), 'scale').lo(), bounds(ctx, fl.facts(sc[0]), 'scale').hi()) == (1, 255), '', ctx.where(dr))
    # unknown command
    last = dr.body[-2] if isinstance(dr.body[-1], ast.If) else None
    els = []
    for n in own_nodes(dr):
        if isinstance(n, ast.While):
            node = [s for s in n.body if isinstance(s, ast.If)][0]
            while isinstance(node, ast.If):
                if len(node.orelse) == 1 and isinstance(node.orelse[0], ast.If):
                    node = node.orelse[0]
                else:
                    els = node.orelse
                    node = None
    rep.ob('unknown-command', 'an unknown command raises IFC', len(els) == 1 and ctx.basic_error_code(els[0]) == 'ILLEGAL_FUNCTION_CALL', '', ctx.where(dr))
    # start position and POINT
    st0 = [n for n in own_nodes(dr) if isinstance(n, ast.If) and norm(n.test) == 'not self._draw_current']
    rep.ob('pen.start', 'DRAW starts at the last graphics point unless a DRAW position is pending', len(st0) == 1 and norm(st0[0].body[0]) == 'self._draw_current = self._last_point', '', ctx.where(dr))
    endp = [n for n in dr.body if isinstance(n, ast.If) and norm(n.test) == 'self._window_bounds is None']
    rep.ob('pen.end', 'after DRAW the last point follows the pen (no WINDOW)', len(endp) == 1 and norm(endp[0].body[0]) == 'self._last_point = self._draw_current', '', ctx.where(dr))
    pt = ctx.fn(G + ':Graphics.point_')
    cur = [norm(a_.value) for a_ in own_nodes(pt) if isinstance(a_, ast.Assign) and norm(a_.targets[0]) == 'current']
    rep.ob('pen.point-reports', 'POINT(0/1) report the DRAW position if set, else the last point', cur == ['self._draw_current or self._last_point'] and
           any(norm(a_) == 'point = current[fn]' for a_ in own_nodes(pt) if isinstance(a_, ast.Assign)), repr(cur), ctx.where(pt))


def variants(ctx):
    Va = mu.Variant

    def in_fn(f_name, f):
        return lambda tree: f(mu.find_def(tree, f_name))

    return [
        mu.Variant('draw-colour-stored-as-given', 'break', G,
                   lambda tree: mu.replace_expr(mu.find_def(tree, 'Graphics._draw'), mu.text_is('self._get_attr_index(max(0, attr))'), 'attr'), expect='colour.within-mode-range'),
        Va('reset-keeps-draw-pen', 'break', G, in_fn('Graphics.reset', lambda fn: mu.remove_stmt(fn, mu.text_is('self._draw_current = None'))), expect='reset.draw-state'),
        Va('double-varptr-taken-for-a-name', 'break', 'pcbasic/basic/mlparser.py',
           lambda tree: mu.replace_expr(mu.find_def(tree, 'MLParser.parse_number'), mu.text_is('ord(c) > 8'), 'ord(c) >= 8'), expect='numbers.varptr'),
        Va('variable-operand-truncated', 'break', 'pcbasic/basic/mlparser.py',
           lambda tree: mu.replace_expr(mu.find_def(tree, 'MLParser.parse_number'), mu.text_is('values.pass_number(stepval).to_int()'), 'int(values.pass_number(stepval).to_value())', count=2),
           expect='numbers.variable-operand-rounded'),
        Va('minus-ignored-before-variable', 'break', 'pcbasic/basic/mlparser.py', lambda tree: _sign_literal_only(mu.find_def(tree, 'MLParser.parse_number')), expect='numbers.sign'),
        Va('E-goes-down', 'break', G, in_fn('Graphics._draw', lambda fn: mu.replace_expr(fn, mu.text_is("c in (b'U', b'E', b'H')"), "c in (b'U', b'H')")), expect='moves.direction'),
        Va('L-and-R-swapped', 'break', G, in_fn('Graphics._draw', _swap_lr), expect='moves.direction'),
        Va('scale-over-4-rounded', 'break', G, in_fn('Graphics._draw_step', lambda fn: mu.replace_expr(fn, mu.text_is('int(math.trunc(scale * sx / 4.0))'), 'int(round(scale * sx / 4.0))')), expect='step.scale'),
        Va('B-not-reset', 'break', G, in_fn('Graphics._draw', _drop_reset), expect='flags.reset'),
        Va('N-stays-at-end', 'break', G, in_fn('Graphics._draw_step', lambda fn: mu.replace_stmt(fn, mu.text_is('self._draw_current = (x0, y0)'), 'self._draw_current = (x1, y1)')), expect='step.goback'),
        Va('segment-not-via-line', 'break', G,
           in_fn('Graphics._draw_step', lambda fn: mu.replace_stmt(fn, lambda st: isinstance(st, ast.If) and norm(st.test) == 'plot', 'if plot:\n    self.graph_view[y1, x1] = self._last_attr')),
           expect='step.segment'),
        Va('absolute-M-relative', 'break', G, in_fn('Graphics._draw', lambda fn: mu.replace_stmt(fn, mu.text_is('self._draw_current = (x, y)'), 'self._draw_current = (x0 + x, y0 + y)')), expect='M.absolute'),
        Va('unknown-command-ignored', 'break', G, in_fn('Graphics._draw', _ignore_unknown), expect='unknown'),
        Va('scale-range-256', 'break', G, in_fn('Graphics._draw', lambda fn: mu.replace_expr(fn, mu.text_is('error.range_check(1, 255, scale)'), 'error.range_check(0, 256, scale)')), expect='ranges'),
        Va('point-ignores-draw-position', 'break', G, in_fn('Graphics.point_', lambda fn: mu.replace_expr(fn, mu.text_is('self._draw_current or self._last_point'), 'self._last_point')), expect='pen.point'),
        Va('neutral', 'neutral', G, in_fn('Graphics._draw_step', lambda fn: mu.rename_local(fn, 'yfac', 'aspect_factor'))),
    ]


def _swap_lr(fn):
    ok1 = mu.replace_expr(fn, mu.text_is("c in (b'L', b'G', b'H')"), "c in (b'R', b'G', b'H')")
    ok2 = mu.replace_expr(fn, mu.text_is("c in (b'R', b'E', b'F')"), "c in (b'L', b'E', b'F')")
    return ok1 and ok2


def _drop_reset(fn):
    for n in ast.walk(fn):
        if isinstance(n, ast.If) and isinstance(n.test, ast.Compare) and isinstance(n.test.ops[0], ast.In) and "b'U'" in norm(n.test) and "b'D'" in norm(n.test) and len(n.test.comparators[0].elts) == 8:
            n.body = [s for s in n.body if norm(s) != 'plot = True']
            return True
    return False


def _ignore_unknown(fn):
    for n in ast.walk(fn):
        if isinstance(n, ast.If) and norm(n.test) == "c == b'P'":
            n.orelse = [ast.Pass()]
            return True
    return False


def _sign_literal_only(fn):
    neg = [st for st in fn.body if isinstance(st, ast.If) and norm(st.test) == 'sgn == -1']
    if len(neg) != 1:
        return False
    fn.body.remove(neg[0])
    return mu.replace_expr(fn, mu.text_is('self._parse_literal()'), 'sgn * self._parse_literal()')

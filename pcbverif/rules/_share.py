"""
Several properties rest on the same construct (Program.merge is the ASCII loader of C15 and the MERGE of C13;
Arrays.index is the element address of C11 and the subscript map of C12).  The module that owns the analysis
of a construct keeps the rule; the others take over its obligations through share(), so that each property's
own check reports a violation of a necessary condition of *that* property.
"""


def share(ctx, rep, owner_mod, prefixes, label, rule_prefix='shared.', tolerate_missing_anchor=False):
    from ..source import AnchorMissing
    prefixes = tuple(prefixes)
    sub = type(rep)(owner_mod.PROP)
    try:
        owner_mod.check(ctx, sub)
    except AnchorMissing as e:
        if not tolerate_missing_anchor:
            raise
        # the owner's own check reports the vanished anchor (exit 2); the borrower goes on without these obligations
        rep.note('shared.%s.unavailable' % owner_mod.PROP, str(e))
        return 0
    n = 0
    for r, v in sub.by_rule.items():
        if r.startswith(prefixes):
            n += v[0]
    for f in sub.findings:
        if f.rule.startswith(prefixes):
            rep.ob(rule_prefix + f.rule, f.construct, False, f.detail, f.where)
    errs = [e for e in sub.errors]
    rep.ob('%s%s' % (rule_prefix, owner_mod.PROP), '%s (%d obligations owned by %s)' % (label, n, owner_mod.PROP), n > 0 and not errs, '; '.join(errs))
    return n

"""
C35 -- the displayed picture always equals the emulator's screen state
(structural half: signal protocol agreement).

Decides:
 * every video signal the interpreter emits (signals.Event(signals.VIDEO_x,
   (args...)) anywhere under pcbasic/basic) has a handler in the interface
   base class VideoPlugin._handlers, and the number of values sent equals the
   handler's parameter count; for the three state-carrying signals the order of
   the values agrees with the handler's parameters by role
   (CLEAR_ROWS: background, first row, last row; SCROLL: direction, first row,
   last row, background; UPDATE: row, col, text, attrs, y0, x0, pixels);
 * same colour on both sides: in every VideoBuffer method that sends a
   background attribute in a signal, that same value is stored into the
   method's own pixel buffer over the affected rows (def-use inside the
   method) -- scroll_up/scroll_down sent `back` while ByteMatrix.move filled
   with 0 (repaired in /repo 04dfb666);
 * every VideoBuffer method that changes the pixel buffer or the text rows
   tells the interface: it reaches _submit (directly, via _update/force_submit/
   resubmit) or sends its own signal; signals are sent only for the visible
   page (`if self._visible`);
 * the reference consumer semantics used by the rule: VideoSDL2.scroll fills
   the vacated row with back_attr and clear_rows fills start..stop with
   back_attr (checked so that the rule's model of the consumer stays true).
Not decided: histories.
"""
import ast

from ..source import norm, short, qualname, class_methods
from ..flow import own_nodes
from .. import mutate as mu

PROP = 'C35'
LEVEL = 'other'
TECHNIQUE = 'static analysis: sender/handler table agreement (arity and role order), def-use of the fill colour, must-reach of the submit path'
EXPLANATION = __doc__

BUF = 'pcbasic/basic/display/buffers.py'
VID = 'pcbasic/interface/video.py'
SDL = 'pcbasic/interface/video_sdl2.py'
ROLES = {
    'VIDEO_CLEAR_ROWS': (['back', 'start', 'stop'], ['back_attr', 'start_row', 'stop_row']),
    'VIDEO_SCROLL': (['DIR', 'from_row', 'to_row', 'back'], ['direction', 'start_row', 'stop_row', 'back_attr']),
    'VIDEO_UPDATE': (['top', 'left', 'text', 'attrs', 'y0', 'x0', 'PIXELS'], ['row', 'col', 'unicode_matrix', 'attr_matrix', 'y0', 'x0', 'sprite']),
}


def _reaches_submit(ctx, cls, fn, depth=0, seen=None):
    seen = seen or set()
    if id(fn) in seen or depth > 6:
        return False
    seen.add(id(fn))
    meths = class_methods(cls)
    for c in own_nodes(fn):
        if isinstance(c, ast.Call) and isinstance(c.func, ast.Attribute) and norm(c.func.value) == 'self':
            if c.func.attr == '_submit':
                return True
            m = meths.get(c.func.attr)
            if m is not None and _reaches_submit(ctx, cls, m, depth + 1, seen):
                return True
        if isinstance(c, ast.Call) and norm(c.func) == 'self._queues.video.put':
            return True
    return False


import re as _re

_XNAME = _re.compile(r'^(x|col)\d*$')
_YNAME = _re.compile(r'^(y|row)\d*$')


def _axis(node):
    """Set of axes ('X', 'Y') whose quantities occur in an expression: x/col/width vs y/row/height."""
    ax = set()
    for n in ast.walk(node):
        if isinstance(n, ast.Name):
            if _XNAME.match(n.id):
                ax.add('X')
            elif _YNAME.match(n.id):
                ax.add('Y')
        elif isinstance(n, ast.Attribute):
            if n.attr in ('width', '_width'):
                ax.add('X')
            elif n.attr in ('height', '_height'):
                ax.add('Y')
    return ax


def _geometry(ctx, rep):
    """Which text cells a drawing operation dirties (and hence which pixels are sent to the display) is computed
    by four small conversions; each arithmetic term must stay on one axis (x, columns, font width / y, rows,
    font height) and feed a result of that axis."""
    n = 0
    for name in ('pixel_to_text_pos', 'pixel_to_text_area', 'text_to_pixel_pos', 'text_to_pixel_area'):
        fn = ctx.fn(BUF + ':VideoBuffer.' + name)
        terms = []
        for a in own_nodes(fn):
            if isinstance(a, ast.Assign) and isinstance(a.targets[0], ast.Name):
                terms.append((a.targets[0].id, a.value))
            elif isinstance(a, ast.Return) and isinstance(a.value, ast.Tuple):
                for e in a.value.elts:
                    if not isinstance(e, ast.Name):
                        terms.append((None, e))
        for target, e in terms:
            ax = _axis(e)
            if not ax:
                continue
            n += 1
            want = ('X' if _XNAME.match(target) else 'Y' if _YNAME.match(target) else None) if target else None
            ok = len(ax) == 1 and (want is None or want in ax)
            rep.ob('geometry.axis-consistent', '%s: %s%s' % (name, (target + ' = ') if target else '', short(e, 60)), ok,
                   'the term mixes horizontal and vertical quantities: with non-square character cells (8x14 in SCREEN 9) drawn pixels are attributed to the wrong text rows and never sent to the display',
                   ctx.where(e))
    rep.floor('geometry.axis-consistent', n, 12, 'conversion terms')
    # a resumed session redraws: every page is resubmitted, not only the active one
    rb = ctx.fn('pcbasic/basic/display/display.py:Display.rebuild')
    rs = [c for c in own_nodes(rb) if isinstance(c, ast.Call) and isinstance(c.func, ast.Attribute) and c.func.attr == 'resubmit']
    ok = len(rs) == 1 and isinstance(rs[0]._parent._parent, ast.For) and norm(rs[0]._parent._parent.iter) == 'self.pages' \
        and norm(rs[0].func.value) == norm(rs[0]._parent._parent.target)
    rep.ob('rebuild.every-page-resubmitted', 'Display.rebuild resubmits every page of the mode', ok,
           'only %s is redrawn: after resume a visible page that is not the active page stays blank' % [norm(c.func.value) for c in rs], ctx.where(rb))


def _scroll_bookkeeping(ctx, rep):
    """A scroll keeps three representations of the page in step: the character rows (a Python list edited by one
    insert and one delete), the text sent to the display (_dbcs_text, edited by slice assignment) and the pixels.
    List edits shift indices, so the order of insert and delete decides which row is dropped: the edits are
    replayed symbolically (indices in linear normal form, from_row <= to_row) and must drop the row that leaves
    the region and put the blank row where the other two representations put it."""
    from ..algebra import lin

    def L(text):
        return lin(ast.parse(text, mode='eval').body)

    def plus(l, k):
        d = dict(l)
        d[''] = d.get('', 0) + k
        if d[''] == 0:
            del d['']
        return d
    for name, blank_row, dropped_row in (('scroll_up', 'to_row', 'from_row'), ('scroll_down', 'from_row', 'to_row')):
        fn = ctx.fn(BUF + ':VideoBuffer.' + name)
        ops = []
        for st in fn.body:
            if isinstance(st, ast.Expr) and isinstance(st.value, ast.Call) and norm(st.value.func) == 'self._rows.insert' and len(st.value.args) == 2:
                ops.append(('ins', lin(st.value.args[0])))
            elif isinstance(st, ast.Delete) and len(st.targets) == 1 and isinstance(st.targets[0], ast.Subscript) and norm(st.targets[0].value) == 'self._rows':
                ops.append(('del', lin(st.targets[0].slice)))
        ok = sorted(o for o, _ in ops) == ['del', 'ins']
        detail = repr([o for o, _ in ops])
        if ok:
            # positions are 0-based list indices of *original* rows; original row r sits at index r-1
            (o1, i1), (o2, i2) = ops
            want_blank = L(blank_row + ' - 1')
            want_drop = L(dropped_row + ' - 1')
            if name == 'scroll_up':
                # insert index is above the delete index (from_row <= to_row)
                if o1 == 'ins':
                    blank, drop = plus(i1, -1), i2            # later delete below the insert point shifts the blank up by one
                else:
                    drop, blank = i1, i2                      # delete first: the insert index is already final ...
                    blank = i2                                # ... in the shortened list
            else:
                if o1 == 'ins':
                    blank, drop = i1, plus(i2, -1)            # the insert above moved the row to be dropped down by one
                else:
                    drop, blank = i1, i2
            ok = blank == want_blank and drop == want_drop
            detail = 'the blank row ends at list index %s (want %s), the row dropped is index %s (want %s)' % (blank, want_blank, drop, want_drop)
        rep.ob('scroll.row-list-edit', 'VideoBuffer.%s: the character rows drop row %s and get the blank row at %s' % (name, dropped_row, blank_row), ok, detail, ctx.where(fn))
        db = [a for a in fn.body if isinstance(a, ast.Assign) and isinstance(a.targets[0], ast.Subscript) and norm(a.targets[0].value) == 'self._dbcs_text'
              and not isinstance(a.targets[0].slice, ast.Slice)]
        rep.ob('scroll.display-text-blank-row', 'VideoBuffer.%s: the text sent to the display gets its blank row at %s' % (name, blank_row),
               len(db) == 1 and lin(db[0].targets[0].slice) == L(blank_row + ' - 1'), '', ctx.where(fn))
        fills = [a for a in fn.body if isinstance(a, ast.Assign) and norm(a.value) == 'back' and norm(a.targets[0]).startswith('self._pixels[')]
        area = [a for a in fn.body if isinstance(a, ast.Assign) and isinstance(a.value, ast.Call) and norm(a.value.func) == 'self.text_to_pixel_area'
                and norm(a.targets[0]) == '(x0, y0, x1, y1)']
        rep.ob('scroll.pixel-blank-row', 'VideoBuffer.%s: the pixel rows of text row %s are filled with the background' % (name, blank_row),
               len(fills) == 1 and len(area) == 1 and [norm(x) for x in area[0].value.args[:3:2]] == [blank_row, blank_row], '', ctx.where(fn))
    # inclusive pixel bounds: text_to_pixel_area returns inclusive maxima; Python slices and ByteMatrix.move take
    # exclusive ends, so every use of a maximum as an end is `+ 1`
    n_ends = 0
    cls = ctx.cls(BUF + ':VideoBuffer')
    for m in class_methods(cls).values():
        maxima = set()
        for a in own_nodes(m):
            if isinstance(a, ast.Assign) and isinstance(a.value, ast.Call) and norm(a.value.func) == 'self.text_to_pixel_area' and isinstance(a.targets[0], ast.Tuple) \
                    and len(a.targets[0].elts) == 4:
                maxima |= set(norm(e) for e in a.targets[0].elts[2:])
        if not maxima:
            continue
        for x in own_nodes(m):
            ends = []
            if isinstance(x, ast.Slice) and x.upper is not None:
                ends.append(x.upper)
            if isinstance(x, ast.Call) and isinstance(x.func, ast.Attribute) and x.func.attr == 'move' and len(x.args) >= 4:
                ends += [x.args[1], x.args[3]]
            for e in ends:
                used = [n_ for n_ in ast.walk(e) if isinstance(n_, ast.Name) and n_.id in maxima]
                if used:
                    n_ends += 1
                    l = lin(e)
                    rep.ob('pixels.inclusive-maximum-plus-one', '%s: %s as an exclusive end' % (m.name, norm(e)), l.get('', 0) == 1 and l.get(used[0].id) == 1,
                           'an inclusive maximum is used as an exclusive end without + 1: the last scan line / column of the area is left out', ctx.where(e))
    rep.floor('pixels.inclusive-maximum-plus-one', n_ends, 8, 'uses of an inclusive maximum as an end')
    # the page becomes visible *before* it is resubmitted: _submit sends nothing for an invisible page
    sv = ctx.fn(BUF + ':VideoBuffer.set_visible')
    setf = [a for a in own_nodes(sv) if isinstance(a, ast.Assign) and norm(a.targets[0]) == 'self._visible']
    rs = [c for c in own_nodes(sv) if isinstance(c, ast.Call) and norm(c.func) == 'self.resubmit']
    sb = ctx.fn(BUF + ':VideoBuffer._submit')
    gated = any(isinstance(n_, ast.If) and norm(n_.test) == 'self._visible' for n_ in sb.body)
    rep.ob('visible.flag-before-resubmit', 'set_visible raises the flag before resubmitting (the submit path is gated on the flag)',
           len(setf) == 1 and len(rs) == 1 and setf[0].lineno < rs[0].lineno and gated, '', ctx.where(sv))


def _dbcs_range_and_page_switch(ctx, rep):
    """(a) After a write, the cells whose *displayed character* changed can lie on either side of the cells written (a lead
    byte completed by a trail byte written later): the range that is redrawn and sent is extended to both sides.
    (b) A page switch lowers the visible flag of the page that WAS visible -- it reads the old page number before storing the new."""
    rf = ctx.fn('pcbasic/basic/display/buffers.py:VideoBuffer._refresh_dbcs')
    rets = [r for r in own_nodes(rf) if isinstance(r, ast.Return) and r.value is not None]
    defs = {}
    for a in own_nodes(rf):
        if isinstance(a, ast.Assign) and isinstance(a.targets[0], ast.Tuple) and isinstance(a.value, ast.Tuple) and len(a.targets[0].elts) == len(a.value.elts):
            for t, v in zip(a.targets[0].elts, a.value.elts):
                defs.setdefault(norm(t), []).append(v)
        elif isinstance(a, ast.Assign) and isinstance(a.targets[0], ast.Name):
            defs.setdefault(a.targets[0].id, []).append(a.value)

    def widened(e, fn_name, orig):
        if isinstance(e, ast.Call) and norm(e.func) == fn_name and orig in [norm(x) for x in e.args] and len(e.args) == 2:
            other = [x for x in e.args if norm(x) != orig][0]
            return not (isinstance(other, ast.Constant))
        if isinstance(e, ast.Name):
            return any(widened(v, fn_name, orig) for v in defs.get(e.id, []))
        return False
    ok = len(rets) == 1 and isinstance(rets[0].value, ast.Tuple) and len(rets[0].value.elts) == 2 \
        and widened(rets[0].value.elts[0], 'min', 'orig_start') and widened(rets[0].value.elts[1], 'max', 'orig_stop')
    rep.ob('dbcs.redraw-range-extends-both-ways', '_refresh_dbcs returns (min(first changed, orig_start), max(last changed, orig_stop))', ok,
           'the range is not extended to the left: a lead byte whose trail byte is written by a later statement keeps its old glyph on the display', ctx.where(rf))
    sp = ctx.fn('pcbasic/basic/display/display.py:Display.set_page')
    low = [c for c in own_nodes(sp) if isinstance(c, ast.Call) and norm(c) == 'self.pages[self.vpagenum].set_visible(False)']
    store = [a for a in own_nodes(sp) if isinstance(a, ast.Assign) and norm(a.targets[0]) == 'self.vpagenum']
    high = [c for c in own_nodes(sp) if isinstance(c, ast.Call) and norm(c.func).endswith('.set_visible') and norm(c.args[0]) == 'True']
    rep.ob('visible.old-page-lowered-before-switch', 'Display.set_page lowers the flag of the page that was visible, then stores the new page numbers',
           len(low) == 1 and len(store) == 1 and (low[0].lineno, low[0].col_offset) < (store[0].lineno, store[0].col_offset)
           and len(high) == 1 and norm(high[0].func) == 'self.pages[new_vpagenum].set_visible',
           'the new page number is stored first: the flag of the NEW page is lowered and raised, the old visible page stays flagged visible and keeps sending updates', ctx.where(sp))


def check(ctx, rep):
    # a scroll is sent to the display after everything written before it: the pending dirty rectangles are flushed first
    for meth in ('scroll_up', 'scroll_down'):
        fn = ctx.fn('pcbasic/basic/display/buffers.py:VideoBuffer.' + meth)
        fl_ = [c for c in own_nodes(fn) if isinstance(c, ast.Call) and norm(c.func) == 'self.force_submit']
        sg = [c for c in own_nodes(fn) if isinstance(c, ast.Call) and norm(c.func) == 'signals.Event' and c.args and norm(c.args[0]) == 'signals.VIDEO_SCROLL']
        rep.ob('scroll.pending-updates-flushed-first', 'VideoBuffer.%s flushes pending updates before it signals the scroll' % meth,
               len(fl_) == 1 and len(sg) == 1 and fl_[0].lineno < sg[0].lineno,
               'text written just before the scroll reaches the display after it, one row off', ctx.where(fn))
    _geometry(ctx, rep)
    _dbcs_range_and_page_switch(ctx, rep)
    _scroll_bookkeeping(ctx, rep)
    vp = ctx.cls(VID + ':VideoPlugin')
    init = class_methods(vp)['__init__']
    handlers = {}
    for n in own_nodes(init):
        if isinstance(n, ast.Assign) and norm(n.targets[0]) == 'self._handlers' and isinstance(n.value, ast.Dict):
            for k, v in zip(n.value.keys, n.value.values):
                handlers[norm(k).split('.')[-1]] = norm(v).split('.')[-1]
    rep.floor('protocol.handlers', len(handlers), 10, 'handlers')
    vmeth = class_methods(vp)
    n_sig = 0
    for fn in ctx.idx.functions('pcbasic/basic/'):
        for c in own_nodes(fn):
            if isinstance(c, ast.Call) and norm(c.func) == 'signals.Event' and c.args and norm(c.args[0]).startswith('signals.VIDEO_'):
                sig = norm(c.args[0]).split('.')[-1]
                n_sig += 1
                who = qualname(fn).split(':')[1]
                h = handlers.get(sig)
                rep.ob('protocol.has-handler', '%s sends %s' % (who, sig), h is not None and h in vmeth, 'no handler in VideoPlugin._handlers', ctx.where(c))
                if h is None or h not in vmeth:
                    continue
                params = [a.arg for a in vmeth[h].args.args if a.arg != 'self']
                payload = c.args[1] if len(c.args) > 1 else None
                if isinstance(payload, ast.Tuple):
                    rep.ob('protocol.arity', '%s: %s carries %d values for %s(%s)' % (who, sig, len(payload.elts), h, ', '.join(params)),
                           len(payload.elts) == len(params), 'values sent: %s' % [norm(e) for e in payload.elts], ctx.where(c))
                    if sig in ROLES:
                        want_send, want_params = ROLES[sig]
                        sent = [norm(e) for e in payload.elts]
                        ok = params == want_params and len(sent) == len(want_send) and all(
                            w.isupper() or s == w for s, w in zip(sent, want_send))
                        rep.ob('protocol.role-order', '%s: %s values are in the handler\'s parameter order' % (who, sig), ok,
                               'sent %s, handler takes %s' % (sent, params), ctx.where(c))
                elif payload is not None:
                    rep.ob('protocol.arity', '%s: %s payload %s' % (who, sig, short(payload, 40)), True, 'payload not a literal tuple: arity not decided')
    rep.floor('protocol.signals', n_sig, 12, 'signal emission sites')
    # fill colour
    vb = ctx.cls(BUF + ':VideoBuffer')
    meths = class_methods(vb)
    n_back = 0
    for name, fn in sorted(meths.items()):
        sends_back = [c for c in own_nodes(fn) if isinstance(c, ast.Call) and norm(c.func) == 'signals.Event' and len(c.args) > 1 and isinstance(c.args[1], ast.Tuple)
                      and 'back' in [norm(e) for e in c.args[1].elts]]
        if not sends_back:
            continue
        n_back += 1
        stores = [s for s in own_nodes(fn) if isinstance(s, ast.Assign) and isinstance(s.targets[0], ast.Subscript) and norm(s.targets[0].value) == 'self._pixels'
                  and norm(s.value) == 'back']
        rep.ob('colour.same-fill-in-own-buffer', 'VideoBuffer.%s: the background sent to the interface is also stored in the page pixels' % name, len(stores) >= 1,
               'the signal carries `back` but no `self._pixels[...] = back` in this method', ctx.where(fn))
        defs = [norm(a.value) for a in own_nodes(fn) if isinstance(a, ast.Assign) and 'back' in norm(a.targets[0])]
        rep.ob('colour.back-from-attr', 'VideoBuffer.%s: `back` is the background component of the attribute' % name,
               defs == ['self._colourmap.split_attr(attr)'], repr(defs), ctx.where(fn))
        vis = ctx.flow(fn)
        rep.ob('visible-only', 'VideoBuffer.%s signals only for the visible page' % name, all(vis.knows(c, 'self._visible', True) for c in sends_back), '', ctx.where(fn))
    rep.floor('colour.same-fill-in-own-buffer', n_back, 3, 'methods sending a background')
    # vacated row geometry in scroll
    for name, row in (('scroll_up', 'to_row'), ('scroll_down', 'from_row')):
        fn = meths[name]
        areas = [norm(a.value) for a in own_nodes(fn) if isinstance(a, ast.Assign) and isinstance(a.value, ast.Call) and norm(a.value.func) == 'self.text_to_pixel_area']
        rep.ob('colour.vacated-row', 'VideoBuffer.%s fills text row %s' % (name, row), 'self.text_to_pixel_area(%s, 1, %s, self._width)' % (row, row) in areas, repr(areas), ctx.where(fn))
        mv = [c for c in own_nodes(fn) if isinstance(c, ast.Call) and norm(c.func) == 'self._pixels.move']
        fill = [s for s in own_nodes(fn) if isinstance(s, ast.Assign) and isinstance(s.targets[0], ast.Subscript) and norm(s.targets[0].value) == 'self._pixels' and norm(s.value) == 'back']
        rep.ob('colour.vacated-row', 'VideoBuffer.%s fills after moving the pixels' % name, len(mv) == 1 and bool(fill) and all(mv[0].lineno < f.lineno for f in fill), '', ctx.where(fn))
    # mutators reach submit
    n_mut = 0
    for name, fn in sorted(meths.items()):
        if name in ('__init__',):
            continue
        mut = False
        for s in own_nodes(fn):
            if isinstance(s, ast.Assign) and isinstance(s.targets[0], ast.Subscript) and norm(s.targets[0].value) == 'self._pixels':
                mut = True
            if isinstance(s, ast.Call) and norm(s.func) == 'self._pixels.move':
                mut = True
            if isinstance(s, ast.Assign) and isinstance(s.targets[0], ast.Subscript) and ('.chars' in norm(s.targets[0].value) or '.attrs' in norm(s.targets[0].value)):
                mut = True
        if not mut:
            continue
        n_mut += 1
        def reported(m, depth=0, seen=None):
            seen = seen or set()
            if id(m) in seen or depth > 5:
                return False
            seen.add(id(m))
            if _reaches_submit(ctx, vb, m):
                return True
            callers = [x for x in meths.values() if any(isinstance(c, ast.Call) and norm(c.func) == 'self.' + m.name for c in own_nodes(x))]
            return bool(callers) and all(reported(x, depth + 1, seen) for x in callers)
        reaches = reported(fn)
        rep.ob('submit.mutation-is-reported', 'VideoBuffer.%s changes the page and tells the interface' % name, reaches,
               'no path to _submit / a video signal', ctx.where(fn))
    rep.floor('submit.mutation-is-reported', n_mut, 8, 'mutating methods')
    pa = ctx.fn(BUF + ':_PixelAccess.__setitem__')
    st = [norm(s) for s in pa.body if not (isinstance(s, ast.Expr) and isinstance(s.value, ast.Constant))]
    rep.ob('submit.pixel-access', 'graphics pixel stores go through _PixelAccess.__setitem__, which stores and then reports the rectangle',
           st[:1] == ['self._pixels[index] = data'] and st[-1] == 'self._video_buffer._update_pixels(yslice.start, xslice.start, yslice.stop - 1, xslice.stop - 1)', repr(st), ctx.where(pa))
    sb = meths['_submit']
    ev = [c for c in own_nodes(sb) if isinstance(c, ast.Call) and norm(c.func) == 'signals.Event']
    rep.ob('submit.carries-own-pixels', '_submit sends the page\'s own pixels of the rectangle', len(ev) == 1 and 'self._pixels[y0:y1, x0:x1]' in norm(ev[0]), '', ctx.where(sb))
    # reference consumer
    sc = ctx.fn(SDL + ':VideoSDL2.scroll')
    t = norm(sc)
    rep.ob('consumer.scroll-fills-background', 'VideoSDL2.scroll fills the vacated row with back_attr', 'pixels[hi_y1:lo_y1, :] = back_attr' in t and 'pixels[hi_y0:lo_y0, :] = back_attr' in t, '', ctx.where(sc))
    cr = ctx.fn(SDL + ':VideoSDL2.clear_rows')
    rep.ob('consumer.clear-fills-background', 'VideoSDL2.clear_rows fills rows start..stop with back_attr', '] = back_attr' in norm(cr) and '(start - 1) * self._font_height:stop * self._font_height' in norm(cr), '', ctx.where(cr))


def variants(ctx):
    Va = mu.Variant

    def in_fn(f_name, f):
        return lambda tree: f(mu.find_def(tree, f_name))

    return [
        mu.Variant('scroll-signalled-before-pending-updates', 'break', 'pcbasic/basic/display/buffers.py',
                   lambda tree: _flush_after_signal(mu.find_def(tree, 'VideoBuffer.scroll_up')), expect='scroll.pending-updates-flushed-first'),
        mu.Variant('dbcs-redraw-range-not-extended-left', 'break', 'pcbasic/basic/display/buffers.py',
                   lambda tree: mu.replace_expr(mu.find_def(tree, 'VideoBuffer._refresh_dbcs'), mu.text_is('min(start, orig_start)'), 'orig_start'), expect='dbcs.redraw-range-extends-both-ways'),
        mu.Variant('page-numbers-stored-before-old-page-hidden', 'break', 'pcbasic/basic/display/display.py',
                   lambda tree: _store_first(mu.find_def(tree, 'Display.set_page')), expect='visible.old-page-lowered-before-switch'),
        Va('scroll-down-drops-row-above', 'break', BUF,
           lambda tree: mu.replace_stmt(mu.find_def(tree, 'VideoBuffer.scroll_down'), mu.text_is('del self._rows[to_row]'), 'del self._rows[to_row - 1]'), expect='scroll.row-list-edit'),
        Va('scroll-up-deletes-before-insert', 'break', BUF, lambda tree: _del_first(mu.find_def(tree, 'VideoBuffer.scroll_up')), expect='scroll.row-list-edit'),
        Va('scroll-move-without-last-scanline', 'break', BUF,
           lambda tree: mu.replace_expr(mu.find_def(tree, 'VideoBuffer.scroll_up'), mu.text_is('self._pixels.move(sy0, sy1 + 1, sx0, sx1 + 1, ty0, tx0)'), 'self._pixels.move(sy0, sy1, sx0, sx1 + 1, ty0, tx0)'), expect='pixels.inclusive'),
        Va('resubmit-before-visible', 'break', BUF, lambda tree: _resubmit_first(mu.find_def(tree, 'VideoBuffer.set_visible')), expect='visible.flag'),
        Va('text-area-row-from-font-width', 'break', BUF,
           lambda tree: mu.replace_expr(mu.find_def(tree, 'VideoBuffer.pixel_to_text_area'), mu.text_is('1 + y0 // self._font.height'), '1 + y0 // self._font.width'), expect='geometry.axis'),
        Va('rebuild-active-page-only', 'break', 'pcbasic/basic/display/display.py',
           lambda tree: mu.replace_stmt(mu.find_def(tree, 'Display.rebuild'), lambda st: isinstance(st, ast.For) and 'resubmit' in norm(st), 'self.apage.resubmit()'), expect='rebuild.every-page'),
        Va('scroll-up-fill-dropped', 'break', BUF,
           in_fn('VideoBuffer.scroll_up', lambda fn: mu.remove_stmt(fn, lambda st: isinstance(st, ast.Assign) and norm(st.value) == 'back' and 'self._pixels[' in norm(st.targets[0]))),
           expect='colour'),
        Va('scroll-down-fills-wrong-row', 'break', BUF,
           in_fn('VideoBuffer.scroll_down', lambda fn: mu.replace_expr(fn, mu.text_is('self.text_to_pixel_area(from_row, 1, from_row, self._width)'),
                                                                      'self.text_to_pixel_area(to_row, 1, to_row, self._width)')), expect='colour.vacated'),
        Va('clear-rows-sends-attr', 'break', BUF,
           in_fn('VideoBuffer.clear_rows', lambda fn: mu.replace_expr(fn, mu.text_is('(back, start, stop)'), '(attr, start, stop)')), expect='protocol.role'),
        Va('scroll-signal-reordered', 'break', BUF,
           in_fn('VideoBuffer.scroll_up', lambda fn: mu.replace_expr(fn, mu.text_is('(-1, from_row, to_row, back)'), '(-1, to_row, from_row, back)')), expect='protocol.role'),
        Va('signal-arity', 'break', BUF,
           in_fn('VideoBuffer.clear_rows', lambda fn: mu.replace_expr(fn, mu.text_is('(back, start, stop)'), '(back, start)')), expect='protocol.arity'),
        Va('handler-removed', 'break', VID,
           lambda tree: mu.del_dict_key(mu.find_assign_value(mu.find_def(tree, 'VideoPlugin.__init__'), 'self._handlers'), 'signals.VIDEO_SCROLL'), expect='protocol.has-handler'),
        Va('pixel-access-silent', 'break', BUF,
           in_fn('_PixelAccess.__setitem__', lambda fn: mu.remove_stmt(fn, mu.stmt_has('self._video_buffer._update_pixels', ast.Expr))), expect='submit'),
        Va('copy-from-no-resubmit', 'break', BUF,
           in_fn('VideoBuffer.copy_from', lambda fn: mu.remove_stmt(fn, mu.text_is('self.resubmit()'))), expect='submit.mutation'),
        Va('signal-for-hidden-page', 'break', BUF,
           in_fn('VideoBuffer.clear_rows', lambda fn: mu.replace_stmt(fn, lambda st: isinstance(st, ast.If) and norm(st.test) == 'self._visible',
                                                                      'self._queues.video.put(signals.Event(signals.VIDEO_CLEAR_ROWS, (back, start, stop)))')), expect='visible'),
        Va('neutral', 'neutral', BUF, in_fn('VideoBuffer.scroll_up', lambda fn: mu.rename_local(fn, 'new_row', 'blank'))),
    ]


def _del_first(fn):
    ins = [s for s in fn.body if isinstance(s, ast.Expr) and 'self._rows.insert' in norm(s)]
    dl = [s for s in fn.body if isinstance(s, ast.Delete)]
    if len(ins) != 1 or len(dl) != 1:
        return False
    fn.body.remove(ins[0])
    fn.body.insert(fn.body.index(dl[0]) + 1, ins[0])
    return True


def _resubmit_first(fn):
    new = ast.parse("if visible and not self._visible:\n    self.resubmit()\nself._visible = visible").body
    keep = [s for s in fn.body if isinstance(s, ast.Expr) and isinstance(s.value, ast.Constant)]
    fn.body[:] = keep + new
    return True


def _store_first(fn):
    st = [x for x in fn.body if isinstance(x, ast.Assign) and norm(x.targets[0]) in ('self.vpagenum', 'self.apagenum')]
    tr = [x for x in fn.body if isinstance(x, ast.Try)]
    if len(st) != 2 or len(tr) != 1:
        return False
    for x in st:
        fn.body.remove(x)
    i = fn.body.index(tr[0])
    fn.body[i:i] = st
    return True


def _flush_after_signal(fn):
    fl = [st for st in fn.body if norm(st) == 'self.force_submit()']
    sg = [st for st in fn.body if isinstance(st, ast.If) and 'VIDEO_SCROLL' in norm(st)]
    if len(fl) != 1 or len(sg) != 1:
        return False
    fn.body.remove(fl[0])
    fn.body.insert(fn.body.index(sg[0]) + 1, fl[0])
    return True


"""
C42 -- PLAY emits the notes its music string specifies (structural half).

Decides:
 * note table: NOTES folds to the chromatic scale C=0 C#/D-=1 D=2 D#/E-=3 E=4
   F=5 F#/G-=6 G=7 G#/A-=8 A=9 A#/B-=10 B=11 (flats equal the preceding sharp);
 * frequency table: NOTE_FREQ folds to 84 entries, NOTE_FREQ[i] =
   440*2^((i-33)/12): every A (index 12*o+9) is 440*2^(o-2) exactly, and each
   semitone step multiplies by 2^(1/12) (checked numerically on the folded
   table by the checker, relative error < 1e-12);
 * consistent numbering: letter notes index NOTE_FREQ[octave*12 + NOTES[n]]
   and `N n` indexes NOTE_FREQ[n-1], so N n with n = octave*12 + semitone + 1
   is the same tone; N 0 is a pause;
   (taken literally the property's formula 440*2^((n-33)/12) with 1-based n
   puts no A on 440 Hz; the code -- and GW-BASIC: O2 A = N34 = 440 Hz -- uses the
   0-based index; the rule checks "every A is 440*2^k" and the internal
   consistency and does not arm the literal n-33 anchor);
 * argument ranges: L 1..64, T 32..255, O 0..6, N 0..84, note length suffix
   0..64; < and > clamp the octave to 0..6; the largest index 6*12+11 = 83 fits
   the 84-entry table;
 * durations: L sets length 1/n, T sets tempo 240/T (a whole note lasts
   (60*4)/T seconds), each dot multiplies by 1.5, the tone lasts
   duration*tempo; MN/ML/MS set the fill to 7/8, 1, 3/4 and emit_tone emits
   fill*duration of sound plus a (1-fill)*duration gap (no gap for legato);
 * malformed strings: unknown commands, unknown M-modes, unknown note names
   (KeyError of NOTES -> IFC), a pause without length raise Illegal function call.
"""
import ast

from ..source import norm, short
from ..flow import own_nodes
from ..intervals import bounds
from .. import mutate as mu

PROP = 'C42'
LEVEL = 'other'
TECHNIQUE = 'static analysis: constant-folded note/frequency tables checked by the checker, guard intervals for arguments, index-expression agreement'
EXPLANATION = __doc__

S = 'pcbasic/basic/sound.py'
CHROMATIC = {b'C': 0, b'C#': 1, b'D-': 1, b'D': 2, b'D#': 3, b'E-': 3, b'E': 4, b'F': 5, b'F#': 6, b'G-': 6, b'G': 7, b'G#': 8, b'A-': 8, b'A': 9, b'A#': 10, b'B-': 10, b'B': 11}


def check(ctx, rep):
    # X substring: the rest of the string is read, the stream is cut at the X position, and substring + rest are written back THERE
    plx = ctx.fn(S + ':Sound.play_')
    xb = [i for i in own_nodes(plx) if isinstance(i, ast.If) and norm(i.test) == "c == b'X'"]
    seq = []
    if len(xb) == 1:
        for st in xb[0].body:
            for c in own_nodes(st):
                if isinstance(c, ast.Call) and norm(c.func).startswith('mmls.'):
                    seq.append(norm(c))
    rep.ob('substring.spliced-in-place', 'play_: X reads the rest, seeks back, truncates, writes substring + rest, seeks back',
           seq == ['mmls.parse_string()', 'mmls.tell()', 'mmls.read()', 'mmls.seek(pos)', 'mmls.truncate()', 'mmls.write(sub)', 'mmls.write(rest)', 'mmls.seek(pos)'],
           repr(seq) + ': without the seek/truncate the substring is appended behind the rest, which is then played twice', ctx.where(plx))
    # every note starts without a length suffix: `length` is reset inside the note branch, so that a bare P (which needs one)
    # cannot borrow the suffix of an earlier note
    pl = ctx.fn(S + ':Sound.play_')
    flp_ = ctx.flow(pl)
    resets = [a for a in own_nodes(pl) if isinstance(a, ast.Assign) and norm(a.targets[0]) == 'length' and norm(a.value) == 'None']
    ok_ = len(resets) == 1 and any(f.pol and f.text.startswith("c in (b'A'") for f in flp_.facts(resets[0]))
    rep.ob('notes.length-suffix-per-note', 'play_: the length suffix is reset for every note, inside the note branch', ok_,
           'the reset is outside the note branch: `C8 P` takes the 8 of the C for the pause instead of raising Illegal function call', ctx.where(pl))
    from ..optargs import check as _optargs
    _optargs(ctx, rep, ['pcbasic/basic/sound.py'], 2)
    from . import c33 as _c33, _share as _sh
    _sh.share(ctx, rep, _c33, ('numbers.',), 'numbers in a music macro string (literal, =variable;, =VARPTR$) are read by the shared macro-language parser with their sign and type')
    notes = ctx.const(S, 'NOTES')
    rep.ob('table.notes', 'NOTES is the chromatic scale with enharmonic flats', notes == CHROMATIC, repr(notes), S)
    for path, k, _ in ctx.cf.duplicates:
        if path == S:
            rep.ob('table.notes', 'no duplicate key %s' % k, False, '', S)
    freq = ctx.const(S, 'NOTE_FREQ')
    ok = isinstance(freq, (list, tuple)) and len(freq) == 84
    rep.ob('table.frequencies', 'NOTE_FREQ has 84 entries (7 octaves)', ok, 'len %s' % (len(freq) if hasattr(freq, '__len__') else '?'), S)
    if ok:
        a_ok = all(abs(freq[12 * o + 9] / (440. * 2 ** (o - 2)) - 1) < 1e-12 for o in range(7))
        rep.ob('table.every-A-is-440-times-power-of-2', 'every A is 440 * 2^k Hz (O2 A = 440)', a_ok, repr([freq[12 * o + 9] for o in range(7)]), S)
        step = 2 ** (1 / 12.)
        s_ok = all(abs(freq[i + 1] / freq[i] / step - 1) < 1e-12 for i in range(83))
        rep.ob('table.equal-temperament', 'each semitone is a factor 2^(1/12)', s_ok, '', S)
    pl = ctx.fn(S + ':Sound.play_')
    fl = ctx.flow(pl)
    # index expressions
    subs = [n for n in own_nodes(pl) if isinstance(n, ast.Subscript) and norm(n.value) == 'NOTE_FREQ']
    texts = sorted(norm(s.slice) for s in subs)
    rep.ob('index.consistent-numbering', 'letters use octave*12 + NOTES[n]; N n uses n-1', texts == ['(vstate.octave + next_oct) * 12 + NOTES[note]', 'note - 1'], repr(texts), ctx.where(pl))
    no = [a for a in own_nodes(pl) if isinstance(a, ast.Assign) and norm(a.targets[0]) == 'next_oct']
    rep.ob('index.consistent-numbering', 'the octave offset is always 0', all(norm(a.value) == '0' for a in no) and bool(no), repr([norm(a.value) for a in no]), ctx.where(pl))
    for s in subs:
        if norm(s.slice) == 'note - 1':
            b = bounds(ctx, fl.facts(s), 'note')
            rep.ob('index.in-table', 'N n: 1 <= n <= 84 where the table is indexed', b.hi() == 84 and (b.lo() == 1 or (b.lo() == 0 and any(t == '0' for v, t in b.ne)) or fl.knows(s, 'note == 0', False)),
                   b.describe(), ctx.where(s))
    pause = [c for c in own_nodes(pl) if isinstance(c, ast.Call) and norm(c.func) == 'self.emit_tone' and norm(c.args[0]) == '0' and fl.knows(c, 'note == 0', True)]
    rep.ob('index.N0-is-pause', 'N 0 emits a pause', len(pause) == 1, '', ctx.where(pl))
    # ranges
    want = ['error.range_check(0, 84, note)', 'error.range_check(1, 64, recip)', 'error.range_check(32, 255, recip)', 'error.range_check(0, 6, octave)', 'error.range_check(0, 64, length)']
    got = [norm(c) for c in own_nodes(pl) if isinstance(c, ast.Call) and norm(c.func) == 'error.range_check']
    for w in want:
        rep.ob('ranges', w, w in got, '', ctx.where(pl))
    st = dict((norm(a.targets[0]), (norm(a.value), [f.text for f in fl.facts(a) if f.pol and f.text.startswith('c ==')])) for a in own_nodes(pl)
              if isinstance(a, ast.Assign) and norm(a.targets[0]) in ('vstate.length', 'vstate.tempo', 'vstate.octave') and 'recip' in norm(a.value) + 'recip' * (norm(a.value) == 'octave'))
    rep.ob('state.L', 'L n sets the default length to 1/n', st.get('vstate.length') == ('1.0 / recip', ["c == b'L'"]), repr(st.get('vstate.length')), ctx.where(pl))
    rep.ob('state.T', 'T n sets the tempo factor to 240/n seconds per whole note', st.get('vstate.tempo') == ('240.0 / recip', ["c == b'T'"]), repr(st.get('vstate.tempo')), ctx.where(pl))
    for a in own_nodes(pl):
        if isinstance(a, ast.Assign) and norm(a.targets[0]) in ('vstate.length', 'vstate.tempo'):
            b = bounds(ctx, fl.facts(a), 'recip')
            lo, hi = (1, 64) if 'length' in norm(a.targets[0]) else (32, 255)
            rep.ob('ranges.checked-before-store', '%s stored only after its range check %d..%d' % (norm(a.targets[0]), lo, hi), (b.lo(), b.hi()) == (lo, hi), b.describe(), ctx.where(a))
    oc = [a for a in own_nodes(pl) if isinstance(a, ast.Assign) and norm(a) == 'vstate.octave = octave']
    rep.ob('ranges.checked-before-store', 'O n stored only after its range check 0..6', len(oc) == 1 and (bounds(ctx, fl.facts(oc[0]), 'octave').lo(), bounds(ctx, fl.facts(oc[0]), 'octave').hi()) == (0, 6), '', ctx.where(pl))
    clamp = {}
    for n in own_nodes(pl):
        if isinstance(n, ast.If) and norm(n.test) in ('vstate.octave > 6', 'vstate.octave < 0'):
            clamp[norm(n.test)] = norm(n.body[0])
    rep.ob('octave.clamped', '> and < clamp the octave to 0..6', clamp == {'vstate.octave > 6': 'vstate.octave = 6', 'vstate.octave < 0': 'vstate.octave = 0'}, repr(clamp), ctx.where(pl))
    steps = sorted(norm(a) for a in own_nodes(pl) if isinstance(a, ast.AugAssign) and norm(a.target) == 'vstate.octave')
    rep.ob('octave.clamped', '> raises and < lowers the octave by one', steps == ['vstate.octave += 1', 'vstate.octave -= 1'], repr(steps), ctx.where(pl))
    rep.ob('index.in-table', 'largest letter index 6*12+11 fits the table', isinstance(freq, (list, tuple)) and 6 * 12 + max(CHROMATIC.values()) < len(freq), '', S)
    # dots and duration
    dots = [a for a in own_nodes(pl) if isinstance(a, ast.AugAssign) and norm(a) == 'dur *= 1.5']
    rep.ob('duration.dots', 'each dot multiplies the duration by 1.5 (both note forms)', len(dots) == 2 and all(isinstance(d._parent, ast.While) and "(b'.',)" in norm(d._parent.test) for d in dots), '', ctx.where(pl))
    tones = [c for c in own_nodes(pl) if isinstance(c, ast.Call) and norm(c.func) == 'self.emit_tone']
    durs = sorted(set(norm(c.args[1]) for c in tones))
    rep.ob('duration.tone', 'every tone/pause lasts duration * tempo', durs == ['dur * vstate.tempo'], repr(durs), ctx.where(pl))
    sfx = [a for a in own_nodes(pl) if isinstance(a, ast.Assign) and norm(a) == 'dur = 1.0 / float(length)']
    rep.ob('duration.suffix', 'a length suffix n > 0 sets this note to 1/n; 0 keeps the default', len(sfx) == 1 and fl.knows(sfx[0], 'length > 0', True), '', ctx.where(pl))
    fills = {}
    for a in own_nodes(pl):
        if isinstance(a, ast.Assign) and norm(a.targets[0]) == 'vstate.fill':
            c = [f.text for f in fl.facts(a) if f.pol and f.text.startswith('c == b')]
            fills[c[-1] if c else '?'] = ctx.fold(a.value)
    rep.ob('style.fill', 'MN -> 7/8, ML -> 1, MS -> 3/4', fills == {"c == b'N'": 7 / 8., "c == b'L'": 1.0, "c == b'S'": 0.75}, repr(fills), ctx.where(pl))
    ps = ctx.fn(S + ':PlayState.__init__')
    d = dict((norm(a.targets[0]), ctx.fold(a.value)) for a in ps.body if isinstance(a, ast.Assign))
    rep.ob('state.defaults', 'defaults: O4, MN, T120 (2 s per whole note), L4', d.get('self.octave') == 4 and d.get('self.fill') == 7 / 8. and d.get('self.tempo') == 2.0 and d.get('self.length') == 0.25, repr(d), ctx.where(ps))
    et = ctx.fn(S + ':Sound.emit_tone')
    fle = ctx.flow(et)
    evs = [c for c in own_nodes(et) if isinstance(c, ast.Call) and norm(c.func) == 'signals.Event']
    tone = [c for c in evs if 'fill * duration' in norm(c)]
    gap = [c for c in evs if '(1 - fill) * duration' in norm(c)]
    rep.ob('gap.split', 'emit_tone: fill*duration of tone, then (1-fill)*duration of silence, except legato',
           len(tone) == 1 and len(gap) == 1 and norm(tone[0].args[1]) == '(voice, frequency, fill * duration, loop, volume)' and norm(gap[0].args[1]) == '(voice, 0, (1 - fill) * duration, 0, 0)'
           and fle.knows(gap[0], 'fill != 1 and (not loop)', True), '', ctx.where(et))
    # malformed
    ifc = [r for r, c in ctx.raises_in(pl) if c == 'ILLEGAL_FUNCTION_CALL']
    rep.ob('malformed.ifc', 'unknown commands / styles / note names and a pause without length raise IFC', len(ifc) >= 4, '%d IFC raises' % len(ifc), ctx.where(pl))
    kn = [s for s in subs if norm(s.slice) != 'note - 1']
    h = fl.in_try_catching(kn[0], ('KeyError',)) if kn else None
    rep.ob('malformed.unknown-note', 'an unknown note name (e.g. B#) raises IFC', h is not None and [ctx.basic_error_code(r) for r in own_nodes(h) if isinstance(r, ast.Raise)] == ['ILLEGAL_FUNCTION_CALL'], '', ctx.where(pl))


def _variants0(ctx):
    Va = mu.Variant

    def in_fn(f_name, f):
        return lambda tree: f(mu.find_def(tree, f_name))

    return [
        Va('a-sharp-wrong', 'break', S, lambda tree: mu.set_dict_value(mu.find_assign_value(tree, 'NOTES'), "b'A#'", '11'), expect='table.notes'),
        Va('freq-base-32', 'break', S, lambda tree: mu.replace_expr(mu.find_assign_value(tree, 'NOTE_FREQ'), lambda n: isinstance(n, ast.Constant) and n.value == 33.0, '32.0'), expect='table.every-A'),
        Va('freq-83-entries', 'break', S, lambda tree: mu.replace_expr(mu.find_assign_value(tree, 'NOTE_FREQ'), lambda n: isinstance(n, ast.Constant) and n.value == 84, '83'), expect='table.frequencies'),
        Va('N-indexed-from-0', 'break', S, in_fn('Sound.play_', lambda fn: mu.replace_expr(fn, mu.text_is('NOTE_FREQ[note - 1]'), 'NOTE_FREQ[note]')), expect='index'),
        Va('octave-7-allowed', 'break', S, in_fn('Sound.play_', lambda fn: mu.replace_expr(fn, mu.text_is('error.range_check(0, 6, octave)'), 'error.range_check(0, 7, octave)')), expect='ranges'),
        Va('octave-up-unclamped', 'break', S, in_fn('Sound.play_', lambda fn: mu.remove_stmt(fn, lambda st: isinstance(st, ast.If) and norm(st.test) == 'vstate.octave > 6')), expect='octave'),
        Va('tempo-60-over-T', 'break', S, in_fn('Sound.play_', lambda fn: mu.replace_expr(fn, mu.text_is('240.0 / recip'), '60.0 / recip')), expect='state.T'),
        Va('dot-doubles', 'break', S, in_fn('Sound.play_', lambda fn: mu.replace_stmt(fn, mu.text_is('dur *= 1.5'), 'dur *= 2.0')), expect='duration.dots'),
        Va('staccato-half', 'break', S, in_fn('Sound.play_', lambda fn: mu.replace_expr(fn, lambda n: isinstance(n, ast.BinOp) and norm(n) == '3.0 / 4.0', '1.0 / 2.0')), expect='style'),
        Va('gap-for-legato', 'break', S, in_fn('Sound.emit_tone', lambda fn: mu.replace_expr(fn, mu.text_is('fill != 1 and (not loop)'), 'not loop')), expect='gap'),
        Va('unknown-note-keyerror', 'break', S, in_fn('Sound.play_', _unwrap_keyerror), expect='malformed.unknown'),
        Va('neutral', 'neutral', S, in_fn('Sound.play_', lambda fn: mu.rename_local(fn, 'numstr', 'digits'))),
    ]


def _unwrap_keyerror(fn):
    for n in ast.walk(fn):
        for fld in ('body', 'orelse'):
            b = getattr(n, fld, None)
            if isinstance(b, list):
                for i, s in enumerate(b):
                    if isinstance(s, ast.Try) and any(norm(h.type) == 'KeyError' for h in s.handlers if h.type is not None):
                        b[i:i + 1] = s.body
                        return True
    return False


def variants(ctx):
    return _variants0(ctx) + [
        mu.Variant('substring-appended-instead-of-spliced', 'break', S,
                   lambda tree: mu.remove_stmt(mu.find_def(tree, 'Sound.play_'), mu.text_is('mmls.truncate()')), expect='substring.spliced-in-place'),
        mu.Variant('length-suffix-reset-once-per-play', 'break', S,
                   lambda tree: _hoist_length(mu.find_def(tree, 'Sound.play_')), expect='notes.length-suffix-per-note'),
        mu.Variant('sound-voice-defaulted-by-truthiness', 'break', 'pcbasic/basic/sound.py',
                   lambda tree: (lambda fn: mu.insert_before(fn, lambda st: isinstance(st, ast.Expr) and norm(st.value) == 'list(args)', 'voice = voice or 0'))(mu.find_def(tree, 'Sound.sound_')), expect='arguments.zero-is-not-omitted'),
    ]


def _hoist_length(fn):
    hit = []
    for x in ast.walk(fn):
        b = getattr(x, 'body', None)
        if isinstance(b, list):
            for st in b:
                if isinstance(st, ast.Assign) and norm(st) == 'length = None':
                    hit.append((b, st))
    if len(hit) != 1:
        return False
    hit[0][0].remove(hit[0][1])
    k = [i for i, st in enumerate(fn.body) if norm(st) == 'next_oct = 0']
    fn.body.insert(k[0] if k else 1, hit[0][1])
    return True


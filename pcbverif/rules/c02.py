"""
C02 -- integer operators follow 16-bit two's-complement semantics.

Decides the guards, conversions and sign discipline -- not the arithmetic on
2^32 pairs:
 * zero divisor: in Integer.idiv_int / imod a ZeroDivisionError is raised under
   rhs.is_zero() before any `//` or `%`; values.intdiv / mod_ are @float_safe and
   FloatErrorHandler.handle maps ZeroDivisionError -> Division by zero,
   OverflowError -> Overflow;
 * range: Integer.from_int accepts exactly [-0x8000, 0x7fff] (signed) and
   raises Overflow otherwise; quotient and remainder are stored through it;
 * truncation toward zero / sign of MOD: `//` and `%` are only ever applied to
   operands whose quotient is non-negative (same-sign fact, abs(), or the
   `if x < 0: x = -x` idiom), and the result is negated exactly under the
   recorded sign condition;
 * the six bitwise callbacks agree: operands through to_integer then
   to_int(unsigned=True), result from_int(..., unsigned=True) (NOT: signed on
   both sides);  the clause "operands up to 65535 are accepted" needs the
   unsigned conversion of operands, which the code does not use (as GW-BASIC);
   reported as known findings;
 * FOR counter: iterate_loop increments the variable's own view with iadd, and
   Integer.iadd raises Overflow on sign change.
Not decided: carry propagation and the truth of the overflow predicate for all
operands (value computations).
"""
import ast

from ..source import norm, short, decorators
from ..flow import own_nodes
from ..intervals import bounds
from .. import mutate as mu
from .. import valuesmodel as vm

PROP = 'C02'
LEVEL = 'other'
TECHNIQUE = 'static analysis: path facts (must-precede guards), guard intervals, sign-idiom recognition, sibling agreement of bitwise callbacks'
EXPLANATION = __doc__

N = vm.NUMBERS
V = vm.VALUES
INTERP = 'pcbasic/basic/interpreter.py'


def _nonneg_names(fn):
    """
    Names that are non-negative from some statement on, by idiom:
      if x < 0: x = -x            (direct)
      flag = x < 0 ... if flag: x = -x
    Returns dict name -> the If node establishing it.
    """
    flags = {}
    out = {}
    for n in own_nodes(fn):
        if isinstance(n, ast.Assign) and isinstance(n.value, ast.Compare) and len(n.value.ops) == 1 \
                and isinstance(n.value.ops[0], ast.Lt) and norm(n.value.comparators[0]) == '0' \
                and isinstance(n.value.left, ast.Name) and isinstance(n.targets[0], ast.Name):
            flags[n.targets[0].id] = n.value.left.id
    for n in own_nodes(fn):
        if isinstance(n, ast.If) and not n.orelse and len(n.body) == 1 and isinstance(n.body[0], ast.Assign):
            a = n.body[0]
            if isinstance(a.targets[0], ast.Name) and norm(a.value) == '-' + a.targets[0].id:
                x = a.targets[0].id
                t = norm(n.test)
                if t == '%s < 0' % x or flags.get(t) == x:
                    out[x] = n
    return out, flags


def _division_rules(ctx, rep, meth, opcls, opname):
    fn = ctx.fn('%s:Integer.%s' % (N, meth))
    fl = ctx.flow(fn)
    # zero-divisor raise
    zraises = [r for r, _ in ctx.raises_in(fn) if isinstance(r.exc, ast.Call) and norm(r.exc.func) == 'ZeroDivisionError']
    rep.ob('zero-divisor.raise', 'Integer.%s raises ZeroDivisionError under rhs.is_zero()' % meth,
           len(zraises) == 1 and fl.knows(zraises[0], 'rhs.is_zero()', True),
           'raises: %d' % len(zraises), ctx.where(fn))
    # payload is signed single maximum
    if zraises:
        payload = norm(zraises[0].exc.args[0]) if zraises[0].exc.args else ''
        assigns = [(norm(n.value), dict((f.text, f.pol) for f in fl.facts(n)).get('self.is_negative()'))
                   for n in own_nodes(fn) if isinstance(n, ast.Assign) and norm(n.targets[0]) == payload]
        want = {('Single(None, self._values).from_bytes(Single.neg_max)', True),
                ('Single(None, self._values).from_bytes(Single.pos_max)', False)}
        rep.ob('zero-divisor.payload', 'Integer.%s: payload is the signed single maximum' % meth, set(assigns) == want,
               repr(assigns), ctx.where(zraises[0]))
    # every // or % is dominated by rhs non-zero
    ops = [n for n in own_nodes(fn) if isinstance(n, ast.BinOp) and isinstance(n.op, opcls)
           and not isinstance(n.left, ast.Constant)]
    rep.floor('zero-divisor.must-precede.%s' % meth, len(ops), 1, "'%s' operations" % opname)
    nonneg, flags = _nonneg_names(fn)
    for o in ops:
        rep.ob('zero-divisor.must-precede', 'Integer.%s: %s' % (meth, short(o)), fl.knows(o, 'rhs.is_zero()', False),
               "'%s' reachable without the zero-divisor guard" % opname, ctx.where(o))
        # sign discipline: python floor-division/modulo only on a non-negative quotient
        facts = dict((f.text, f.pol) for f in fl.facts(o))

        def nonneg_operand(e):
            if isinstance(e, ast.Call) and norm(e.func) == 'abs':
                return True
            if isinstance(e, ast.Name) and e.id in nonneg:
                # the idiom must precede this use
                st = fl.stmt_of(o)
                return fn.body.index(nonneg[e.id]) < fn.body.index(st) if st in fn.body and nonneg[e.id] in fn.body else False
            return False

        same_sign = facts.get('(dividend >= 0) == (divisor >= 0)') is True
        both_nonneg = nonneg_operand(o.left) and nonneg_operand(o.right)
        rep.ob('sign.python-op-on-nonnegative-quotient', 'Integer.%s: %s' % (meth, short(o)),
               same_sign or both_nonneg,
               "Python '%s' rounds toward -inf; it must only see same-sign or non-negative operands" % opname, ctx.where(o))
        if both_nonneg and meth == 'idiv_int':
            # magnitude quotient under differing signs must be negated
            p = getattr(o, '_parent', None)
            rep.ob('sign.quotient-negated', 'Integer.idiv_int: -(|a| // |b|) when signs differ',
                   isinstance(p, ast.UnaryOp) and isinstance(p.op, ast.USub) and facts.get('(dividend >= 0) == (divisor >= 0)') is False,
                   '', ctx.where(o))
    # results stored through from_int
    rets = [r for r in vm.returns(fn)]
    for r in rets:
        rep.ob('range.result-through-from_int', 'Integer.%s: %s' % (meth, short(r)),
               isinstance(r.value, ast.Call) and norm(r.value.func) == 'self.from_int' and not r.value.keywords and len(r.value.args) == 1,
               'result must be range-checked by from_int (signed)', ctx.where(r))
    rep.floor('range.result-through-from_int.%s' % meth, len(rets), 1, 'returns')
    if meth == 'imod':
        # remainder takes the sign of the dividend: `if <neg-dividend flag>: mod = -mod` after the %
        ok = False
        for n in own_nodes(fn):
            if isinstance(n, ast.If) and len(n.body) == 1 and isinstance(n.body[0], ast.Assign) \
                    and norm(n.body[0].value) == '-' + norm(n.body[0].targets[0]):
                tgt = norm(n.body[0].targets[0])
                flag = norm(n.test)
                if flags.get(flag) == 'dividend' and any(
                        isinstance(a, ast.Assign) and norm(a.targets[0]) == tgt and isinstance(a.value, ast.BinOp)
                        and isinstance(a.value.op, ast.Mod) for a in fn.body if fn.body.index(a) < fn.body.index(n)):
                    # flag must be computed before dividend is made non-negative
                    fa = [a for a in fn.body if isinstance(a, ast.Assign) and norm(a.targets[0]) == flag]
                    ok = bool(fa) and 'dividend' in nonneg and fn.body.index(fa[0]) < fn.body.index(nonneg['dividend'])
        rep.ob('sign.mod-follows-dividend', 'Integer.imod: remainder negated iff the dividend was negative', ok, '', ctx.where(fn))


def _range_of(e, env):
    """Interval of a small integer expression: bytes, sums, masks, names."""
    if isinstance(e, ast.Constant) and isinstance(e.value, int):
        return (e.value, e.value)
    if isinstance(e, ast.Name):
        return env.get(e.id)
    if isinstance(e, ast.Subscript) and isinstance(e.value, ast.Call) and norm(e.value.func) == 'bytearray' and not isinstance(e.slice, ast.Slice):
        return (0, 255)
    if isinstance(e, ast.BinOp):
        l, r = _range_of(e.left, env), _range_of(e.right, env)
        if isinstance(e.op, ast.BitAnd):
            for x in (l, r):
                if x is not None and x[0] == x[1] and x[0] >= 0:
                    return (0, x[0])
            return None
        if l is None or r is None:
            return None
        if isinstance(e.op, ast.Add):
            return (l[0] + r[0], l[1] + r[1])
        if isinstance(e.op, ast.Sub):
            return (l[0] - r[1], l[1] - r[0])
        if isinstance(e.op, ast.Mod) and r[0] == r[1] and r[0] > 0:
            return (0, r[0] - 1)
    return None


def _ranges(stmts, env=None):
    """Forward interval pass over straight-line code with `if name > const:` refinement (hull at joins)."""
    env = dict(env or {})
    for st in stmts:
        if isinstance(st, ast.Assign) and isinstance(st.targets[0], ast.Name):
            env[st.targets[0].id] = _range_of(st.value, env)
        elif isinstance(st, ast.AugAssign) and isinstance(st.target, ast.Name):
            env[st.target.id] = _range_of(ast.BinOp(left=ast.Name(id=st.target.id), op=st.op, right=st.value), env)
        elif isinstance(st, ast.If):
            t = st.test
            benv, oenv = dict(env), dict(env)
            if isinstance(t, ast.Compare) and len(t.ops) == 1 and isinstance(t.left, ast.Name) and isinstance(t.ops[0], ast.Gt):
                c = _range_of(t.comparators[0], env)
                cur = env.get(t.left.id)
                if c is not None and c[0] == c[1] and cur is not None:
                    benv[t.left.id] = (max(cur[0], c[0] + 1), cur[1])
                    oenv[t.left.id] = (cur[0], min(cur[1], c[0]))
            benv = _ranges(st.body, benv)
            oenv = _ranges(st.orelse, oenv)
            for k in set(benv) | set(oenv):
                a, b = benv.get(k), oenv.get(k)
                env[k] = None if a is None or b is None else (min(a[0], b[0]), max(a[1], b[1]))
    return env


def check(ctx, rep):
    _division_rules(ctx, rep, 'idiv_int', ast.FloorDiv, '//')
    _division_rules(ctx, rep, 'imod', ast.Mod, '%')
    # float_safe wrappers and the handler table
    for name, meth in (('intdiv', 'idiv_int'), ('mod_', 'imod')):
        fn = ctx.fn('%s:%s' % (V, name))
        rep.ob('interceptor.float_safe', 'values.%s' % name, 'float_safe' in decorators(fn), 'decorators %r' % decorators(fn), ctx.where(fn))
        calls = [n for n in own_nodes(fn) if isinstance(n, ast.Call) and isinstance(n.func, ast.Attribute) and n.func.attr == meth]
        ok = len(calls) == 1 and norm(calls[0].func.value) == 'to_integer(left).clone()' and [norm(a) for a in calls[0].args] == ['to_integer(right)']
        rep.ob('operands.converted-and-copied', 'values.%s: to_integer(left).clone().%s(to_integer(right))' % (name, meth), ok,
               short(calls[0]) if calls else 'no call', ctx.where(fn))
    fs = ctx.fn(V + ':float_safe')
    handlers = [h for n in ast.walk(fs) if isinstance(n, ast.Try) for h in n.handlers]
    caught = set()
    for h in handlers:
        if h.type is not None:
            caught |= set(norm(e) for e in (h.type.elts if isinstance(h.type, ast.Tuple) else [h.type]))
    rep.ob('interceptor.catches', 'float_safe catches ValueError and ArithmeticError', {'ValueError', 'ArithmeticError'} <= caught,
           repr(sorted(caught)), ctx.where(fs))
    hd = ctx.fn(V + ':FloatErrorHandler.handle')
    fl = ctx.flow(hd)
    table = {}
    for n in own_nodes(hd):
        if isinstance(n, ast.Assign) and norm(n.targets[0]) == 'math_error':
            for f in fl.facts(n):
                if f.pol and f.text.startswith('isinstance(e, '):
                    table[f.text[len('isinstance(e, '):-1]] = ctx.err_name(n.value)
    rep.ob('handler.table', 'ZeroDivisionError -> Division by zero, OverflowError -> Overflow, ValueError -> Illegal function call',
           table == {'ValueError': 'ILLEGAL_FUNCTION_CALL', 'OverflowError': 'OVERFLOW', 'ZeroDivisionError': 'DIVISION_BY_ZERO'},
           repr(table), ctx.where(hd))
    rs = [c for r, c in ctx.raises_in(hd) if isinstance(r.exc, ast.Call) and norm(r.exc.func).endswith('BASICError')]
    rep.ob('handler.raises-mapped-error', 'handle() raises BASICError(math_error)',
           any(norm(r.exc) == 'error.BASICError(math_error)' for r, c in ctx.raises_in(hd) if r.exc is not None), '', ctx.where(hd))

    # from_int range
    fi = ctx.fn(N + ':Integer.from_int')
    fl = ctx.flow(fi)
    sinks = [n for n in own_nodes(fi) if isinstance(n, ast.Call) and norm(n.func) == 'struct.pack_into']
    rep.floor('range.from_int', len(sinks), 1, 'stores')
    limits = {'minint': {}, 'maxint': {}}
    for n in own_nodes(fi):
        if isinstance(n, ast.Assign):
            pol = dict((f.text, f.pol) for f in fl.facts(n)).get('unsigned')
            tgt, val = n.targets[0], n.value
            pairs = list(zip(tgt.elts, val.elts)) if isinstance(tgt, ast.Tuple) and isinstance(val, ast.Tuple) else [(tgt, val)]
            for t, v in pairs:
                if norm(t) in limits:
                    limits[norm(t)][pol] = ctx.fold(v)
    for s in sinks:
        b = bounds(ctx, fl.facts(s), 'in_int')
        lo = [t for v, inc, t in b.lower if inc]
        rep.ob('range.from_int', 'lower bound of stored value is -0x8000 signed / 0 unsigned (after the wrap)',
               'minint' in lo and limits['minint'] == {True: 0, False: -0x8000}, 'lower %r minint %r' % (lo, limits['minint']), ctx.where(s))
        sym = [t for v, inc, t in b.upper if inc]
        rep.ob('range.from_int', 'upper bound is 0x7fff signed / 0xffff unsigned',
               'maxint' in sym and limits['maxint'] == {True: 0xffff, False: 0x7fff}, 'upper %r maxint %r' % (sym, limits['maxint']), ctx.where(s))
    ovf = [r for r, c in ctx.raises_in(fi) if c == 'OVERFLOW']
    rep.ob('range.from_int', 'out of range raises Overflow',
           len(ovf) == 1 and any(f.text == 'minint <= in_int <= maxint' and not f.pol for f in fl.facts(ovf[0])),
           '', ctx.where(fi))
    # the unsigned wrap adds exactly 0x10000 to negatives, once, before the range test
    wraps = [n for n in own_nodes(fi) if isinstance(n, ast.AugAssign) and norm(n.target) == 'in_int']
    rep.ob('range.from_int', 'unsigned negatives are wrapped once by 0x10000 under (unsigned, in_int < 0)',
           len(wraps) == 1 and isinstance(wraps[0].op, ast.Add) and ctx.fold(wraps[0].value) == 0x10000 and
           {('unsigned', True), ('in_int < 0', True)} <= set((f.text, f.pol) for f in fl.facts(wraps[0])),
           '', ctx.where(fi))

    # bitwise callbacks
    prec, unary, binary = vm.operator_tables(ctx)
    n_sites = 0
    for tok, (k, v) in sorted(binary.items()):
        fn = vm.resolve_callback(ctx, v)
        ops = vm.core_operation(ctx, fn) if fn is not None else set()
        if not ops & {'AND', 'OR', 'XOR', 'EQV', 'IMP'}:
            continue
        params = [a.arg for a in fn.args.args]
        r = vm.returns(fn)[0].value
        rep.ob('bitwise.result-unsigned-store', '%s: result stored with from_int(..., unsigned=True)' % fn.name,
               isinstance(r, ast.Call) and norm(r.func).endswith('.new_integer().from_int') and
               any(kw.arg == 'unsigned' and norm(kw.value) == 'True' for kw in r.keywords), short(r), ctx.where(fn))
        signed_operands = []
        for p in params:
            reads = [n for n in own_nodes(fn) if isinstance(n, ast.Call) and isinstance(n.func, ast.Attribute)
                     and n.func.attr == 'to_int' and p in [x.id for x in ast.walk(n.func.value) if isinstance(x, ast.Name)]]
            n_sites += len(reads)
            for rd in reads:
                conv = rd.func.value
                okc = isinstance(conv, ast.Call) and norm(conv.func) == 'to_integer' and norm(conv.args[0]) == p
                rep.ob('bitwise.operand-converted', '%s: operand %s through to_integer()' % (fn.name, p), okc, short(rd), ctx.where(rd))
                rep.ob('bitwise.operand-read-unsigned', '%s: operand %s read with to_int(unsigned=True)' % (fn.name, p),
                       any(kw.arg == 'unsigned' and norm(kw.value) == 'True' for kw in rd.keywords), short(rd), ctx.where(rd))
                if okc and not any(kw.arg == 'unsigned' and norm(kw.value) == 'True' for kw in conv.keywords) and len(conv.args) < 2:
                    signed_operands.append(p)
                elif okc:
                    # Integer.from_int(unsigned=True) wraps negatives once by 65536: -65536..-32769 would be accepted silently
                    rep.ob('bitwise.rejects-below-minus-32768', '%s: operand %s is not converted with the wrapping unsigned conversion alone' % (fn.name, p),
                           False, 'to_integer(%s, unsigned=True) accepts -65536..-32769 and wraps them (e.g. -1 %s -40000 gives a value instead of Overflow), and treats this operand unlike its sibling'
                           % (p, fn.name.rstrip('_').upper()), ctx.where(rd))
        rep.ob('bitwise.accepts-operands-up-to-65535', '%s: operands converted with to_integer(x, unsigned=True)' % fn.name,
               not signed_operands,
               'operands %s are converted signed: values 32768..65535 raise Overflow (e.g. PRINT 1 %s 65535)' % (
                   signed_operands, fn.name.rstrip('_').upper()), ctx.where(fn))
    rep.floor('bitwise.operand-converted', n_sites, 10, 'operand sites')
    nf = ctx.fn(V + ':not_')
    r = vm.returns(nf)[0].value
    rep.ob('bitwise.not-signed-consistent', 'not_: from_int(~to_integer(num).to_int()) signed on both sides',
           norm(r) == 'num._values.new_integer().from_int(~to_integer(num).to_int())', short(r), ctx.where(nf))
    rep.ob('bitwise.accepts-operands-up-to-65535', 'not_: operand converted with to_integer(x, unsigned=True)',
           'unsigned=True' in norm(r),
           'operand is converted signed: values 32768..65535 raise Overflow (e.g. PRINT NOT 65535)', ctx.where(nf))

    # FOR counter
    it = ctx.fn(INTERP + ':Interpreter.iterate_loop')
    views = [n for n in own_nodes(it) if isinstance(n, ast.Assign) and norm(n.targets[0]) == 'counter_view']
    rep.ob('for.counter-is-variable-view', 'iterate_loop: counter_view = self._scalars.view(varname2)',
           len(views) == 1 and norm(views[0].value) == 'self._scalars.view(varname2)', '', ctx.where(it))
    incs = [n for n in own_nodes(it) if isinstance(n, ast.Call) and isinstance(n.func, ast.Attribute) and n.func.attr == 'iadd']
    rep.ob('for.increment-in-place', 'iterate_loop: counter_view.iadd(step)',
           len(incs) == 1 and norm(incs[0].func.value) == 'counter_view' and [norm(a) for a in incs[0].args] == ['step'],
           repr([short(i) for i in incs]), ctx.where(it))
    # iadd adds the bytes of its operand: the step on the loop stack has the type of the counter, whatever was written
    # after STEP (a single-precision 1 added bytewise to an integer counter adds 0)
    fo = ctx.fn(INTERP + ':Interpreter.for_')
    kinds = []
    for a in own_nodes(fo):
        if isinstance(a, ast.Assign) and norm(a.targets[0]) == 'step':
            v = a.value
            while isinstance(v, ast.Call) and isinstance(v.func, ast.Attribute) and v.func.attr == 'clone' and not v.args:
                v = v.func.value
            t = norm(v)
            if t == 'next(args)':
                kinds.append(('raw', a))
            elif isinstance(v, ast.Call) and norm(v.func) == 'values.to_type' and len(v.args) == 2 and norm(v.args[0]) in ('vartype', 'varname[-1:]'):
                kinds.append(('typed', a))
            elif isinstance(v, ast.Call) and norm(v.func) == 'self._values.from_value' and len(v.args) == 2 and norm(v.args[1]) in ('vartype', 'varname[-1:]'):
                kinds.append(('one', a))
            else:
                kinds.append(('other', a))
    pushed = [c for c in own_nodes(fo) if isinstance(c, ast.Call) and norm(c.func) == 'self.for_stack.append' and 'step' in [norm(e) for e in getattr(c.args[0], 'elts', [])]]
    rep.floor('for.step-has-the-counter-type', len(pushed) + len(kinds), 3, 'step definitions and the frame that takes the step')
    bad = [short(a, 60) for k, a in kinds if k == 'other']
    rep.ob('for.step-has-the-counter-type', 'for_: the step stored in the loop frame is converted to the type of the counter', not bad and any(k == 'typed' for k, _ in kinds),
           'step defined by %s: iterate_loop adds its bytes to the counter as if it had the counter type' % (bad or 'no conversion'), ctx.where(fo))
    ia = ctx.fn(N + ':Integer.iadd')
    fl = ctx.flow(ia)
    ovf = [r for r, c in ctx.raises_in(ia) if c == 'OVERFLOW']
    store = [n for n in own_nodes(ia) if isinstance(n, ast.Assign) and norm(n.targets[0]) == 'self._buffer[:]']
    rep.ob('for.iadd-overflow', 'Integer.iadd raises Overflow before storing when the sign changes',
           len(ovf) == 1 and len(store) == 1 and
           ia.body.index(fl.stmt_of(ovf[0]) if fl.stmt_of(ovf[0]) in ia.body else ovf[0]._parent) < ia.body.index(store[0]),
           '', ctx.where(ia))
    if ovf:
        cond = [f for f in fl.facts(ovf[0]) if f.pol and isinstance(f.cond, ast.Compare) and len(f.cond.ops) == 2]
        ok = bool(cond) and [type(o) for o in cond[0].cond.ops] == [ast.Eq, ast.NotEq]
        rep.ob('for.iadd-overflow-condition', 'overflow iff operand signs equal and result sign differs', ok,
               cond[0].text if cond else 'no chained comparison', ctx.where(ovf[0]))
    # the sign-change test must look at the byte that is stored: (a) every update of the sum bytes (the carry)
    # precedes it, (b) the value whose top bit it reads has been reduced to one byte (the sum of two high
    # bytes plus a carry ranges over 0..511, where `> 0x7f` is not the sign bit: -32768 + -1 gave 32767 on
    # the pinned tree; repaired in /repo)
    if ovf and store:
        test_stmt = fl.stmt_of(ovf[0]) if fl.stmt_of(ovf[0]) in ia.body else ovf[0]._parent
        while test_stmt not in ia.body and getattr(test_stmt, '_parent', None) is not None:
            test_stmt = test_stmt._parent
        k = ia.body.index(test_stmt)
        stored = set(x.id for x in ast.walk(store[0].value) if isinstance(x, ast.Name))
        late = [short(n) for st in ia.body[k + 1:] for n in ast.walk(st)
                if isinstance(n, (ast.Assign, ast.AugAssign)) and any(isinstance(t, ast.Name) and t.id in stored
                                                                     for t in (n.targets if isinstance(n, ast.Assign) else [n.target]))]
        rep.ob('for.iadd-test-sees-carried-sum', 'Integer.iadd: the carry is applied before the sign-change test', not late,
               'updated after the overflow test: %s' % late, ctx.where(test_stmt))
        env = _ranges(ia.body[:k])
        bad = []
        for c in ast.walk(test_stmt.test):
            if isinstance(c, ast.Compare) and len(c.ops) == 1 and isinstance(c.ops[0], ast.Gt) and norm(c.comparators[0]) in ('127', '0x7f'):
                r = _range_of(c.left, env)
                if r is None or r[1] > 255 or r[0] < 0:
                    bad.append('%s ranges over %s' % (norm(c.left), r))
        rep.ob('for.iadd-sign-of-reduced-byte', 'Integer.iadd: every `> 0x7f` sign test reads a value in 0..255', not bad,
               '; '.join(bad) + ': for a sum of two high bytes `> 0x7f` is not the sign of the 16-bit result', ctx.where(test_stmt))
    isub = ctx.fn(N + ':Integer.isub')
    rep.ob('sub.through-iadd', 'Integer.isub = iadd(negated copy)',
           norm(vm.returns(isub)[0].value) == 'self.iadd(rhs.clone().ineg())', '', ctx.where(isub))
    ineg = ctx.fn(N + ':Integer.ineg')
    fl = ctx.flow(ineg)
    ovf = [r for r, c in ctx.raises_in(ineg) if c == 'OVERFLOW']
    rep.ob('neg.overflow-on-minimum', 'Integer.ineg raises Overflow exactly for -32768',
           len(ovf) == 1 and fl.knows(ovf[0], "self._buffer == b'\\x00\\x80'", True), '', ctx.where(ineg))


def variants(ctx):
    Va = mu.Variant

    def in_fn(fname, f):
        return lambda tree: f(mu.find_def(tree, fname))

    return [
        Va('idiv-guard-removed', 'break', N,
           in_fn('Integer.idiv_int', lambda fn: mu.remove_stmt(fn, mu.stmt_has('rhs.is_zero()', ast.If))), expect='zero-divisor'),
        Va('imod-guard-after-op', 'break', N, in_fn('Integer.imod', _move_guard_last), expect='zero-divisor'),
        Va('idiv-floor-on-mixed-sign', 'break', N,
           in_fn('Integer.idiv_int', lambda fn: mu.replace_expr(fn, mu.text_is('-(abs(dividend) // abs(divisor))'), 'dividend // divisor')),
           expect='sign'),
        Va('imod-sign-of-divisor', 'break', N,
           in_fn('Integer.imod', lambda fn: mu.replace_expr(fn, mu.text_is('dividend < 0'), 'divisor < 0')), expect='sign'),
        Va('from-int-upper-bound', 'break', N,
           in_fn('Integer.from_int', lambda fn: mu.replace_expr(fn, lambda n: isinstance(n, ast.Constant) and n.value == 0x7fff, '0x8000')),
           expect='range.from_int'),
        Va('from-int-no-lower-bound', 'break', N,
           in_fn('Integer.from_int', lambda fn: mu.replace_expr(fn, mu.text_is('minint <= in_int <= maxint'), 'in_int <= maxint')),
           expect='range.from_int'),
        Va('from-int-unsigned-lower-bound-signed', 'break', N,
           in_fn('Integer.from_int', lambda fn: mu.replace_expr(fn, mu.text_is('(0, 65535)'), '(-0x8000, 0xffff)')),
           expect='range.from_int'),
        Va('from-int-wrap-unconditional', 'break', N,
           in_fn('Integer.from_int', lambda fn: mu.replace_expr(fn, mu.text_is('in_int < 0'), 'in_int < 0x8000')),
           expect='range.from_int'),
        Va('imp-right-operand-wrapping-conversion', 'break', V,
           in_fn('imp_', lambda fn: mu.replace_expr(fn, mu.text_is('to_integer(right)'), 'to_integer(right, unsigned=True)')), expect='bitwise.rejects-below-minus-32768'),
        Va('intdiv-not-float-safe', 'break', V, in_fn('intdiv', lambda fn: mu.remove_decorator(fn, 'float_safe')), expect='interceptor'),
        Va('handler-maps-zero-div-to-overflow', 'break', V,
           in_fn('FloatErrorHandler.handle', lambda fn: mu.replace_expr(fn, mu.text_is('error.DIVISION_BY_ZERO'), 'error.OVERFLOW')),
           expect='handler.table'),
        Va('xor-result-signed', 'break', V,
           in_fn('xor_', lambda fn: _drop_kw(fn, 'from_int')), expect='bitwise.result-unsigned-store'),
        Va('or-operand-read-signed', 'break', V,
           in_fn('or_', lambda fn: mu.replace_expr(fn, mu.text_is('to_integer(right).to_int(unsigned=True)'), 'to_integer(right).to_int()')),
           expect='bitwise.operand-read-unsigned'),
        Va('for-increments-a-copy', 'break', INTERP,
           in_fn('Interpreter.iterate_loop', lambda fn: mu.replace_expr(fn, mu.text_is('self._scalars.view(varname2)'),
                                                                        'self._scalars.view(varname2).clone()')),
           expect='for.counter'),
        Va('for-step-keeps-its-own-type', 'break', INTERP,
           in_fn('Interpreter.for_', lambda fn: mu.replace_stmt(fn, mu.text_is('step = values.to_type(vartype, step).clone()'), 'step = values.pass_number(step).clone()')),
           expect='for.step-has-the-counter-type'),
        Va('iadd-carry-after-test', 'break', N, in_fn('Integer.iadd', _carry_after_test), expect='for.iadd-test-sees-carried-sum'),
        Va('iadd-overflow-dropped', 'break', N,
           in_fn('Integer.iadd', lambda fn: mu.remove_stmt(fn, lambda st: isinstance(st, ast.If) and 'OVERFLOW' in norm(st))),
           expect='for.iadd-overflow'),
        Va('mod-intermediate-rename', 'neutral', N, in_fn('Integer.imod', lambda fn: mu.rename_local(fn, 'mod', 'remainder'))),
        Va('idiv-guard-as-early-return-helper', 'neutral', N,
           in_fn('Integer.idiv_int', lambda fn: mu.insert_first(fn, 'logging_placeholder = None'))),
    ]


def _move_guard_last(fn):
    g = [st for st in fn.body if isinstance(st, ast.If) and 'rhs.is_zero()' in norm(st.test)][0]
    fn.body.remove(g)
    fn.body.insert(len(fn.body) - 1, g)
    return True


def _drop_kw(fn, attr):
    for n in ast.walk(fn):
        if isinstance(n, ast.Call) and isinstance(n.func, ast.Attribute) and n.func.attr == attr and n.keywords:
            n.keywords = []
            return True
    return False


def _carry_after_test(fn):
    carry = [st for st in fn.body if isinstance(st, ast.If) and 'lsb > 255' in norm(st.test)]
    test = [st for st in fn.body if isinstance(st, ast.If) and 'OVERFLOW' in norm(st)]
    if len(carry) != 1 or len(test) != 1:
        return False
    fn.body.remove(carry[0])
    fn.body.insert(fn.body.index(test[0]) + 1, carry[0])
    return True

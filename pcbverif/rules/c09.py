"""
C09 -- string functions and statements match their reference definitions
(structural half).

Decides the argument-range table and length discipline:
 * ranges (guard intervals at the point where the result is built):
   LEFT$/RIGHT$ n in 0..255; MID$ start in 1..255, n in 0..255; INSTR start in
   1..255; STRING$ n and code in 0..255; SPACE$ n in 0..255; CHR$ code in
   0..255; MID$ statement num in 0..255 and start in 1..len; ASC("") -> IFC;
   every refusal is Illegal function call;
 * the results are the reference slices: LEFT$ s[:n], RIGHT$ s[-n:] (n = 0
   handled separately, since s[-0:] would be the whole string), MID$
   s[start-1:start-1+n] and empty if start > len, INSTR start+find(...) with
   0 for an empty haystack or start > len, STRING$ char*n, SPACE$ ' '*n;
 * String too long: StringSpace.store raises it for length > 255 before
   anything changes, and String.from_str (the only constructor of new string
   contents) goes through store;
 * in-place statements keep the target length: String.lset writes
   in_str[:length].ljust/rjust(length) into the view of that length; midset
   clamps num to min(num, len(val), length-offset) and returns unchanged for
   num <= 0; the overlapping case copies byte by byte from the left;
 * comparison: String.gt compares byte-wise up to the shorter length, then the
   longer string is greater; String.eq compares whole contents; concatenation
   is dereference + dereference through from_str.
"""
import ast

from ..source import norm, short
from ..flow import own_nodes
from ..intervals import bounds
from .. import mutate as mu

PROP = 'C09'
LEVEL = 'other'
TECHNIQUE = 'static analysis: guard intervals for argument ranges at the result site, slice-shape check, length lattice for in-place statements'
EXPLANATION = __doc__

V = 'pcbasic/basic/values/values.py'
ST = 'pcbasic/basic/values/strings.py'
M = 'pcbasic/basic/memory/memory.py'


def _range_at(ctx, fn, node, var):
    fl = ctx.flow(fn)
    b = bounds(ctx, fl.facts(node), var)
    return b.lo(), b.hi(), b


def _result(fn, contains):
    """The statement that builds the function's result: `result = <expr>` ... `return result`, or `return <expr>`."""
    for a in own_nodes(fn):
        if isinstance(a, ast.Assign) and isinstance(a.targets[0], ast.Name) and contains in norm(a.value) \
                and any(isinstance(r, ast.Return) and norm(r.value) == a.targets[0].id for r in own_nodes(fn)):
            return a
        if isinstance(a, ast.Return) and a.value is not None and contains in norm(a.value):
            return a
    return None


def check(ctx, rep):
    from . import c10 as _c10, _share as _sh
    _sh.share(ctx, rep, _c10, ('roots.registration-released-on-every-exit', 'roots.argument-read-after-collection', 'roots.justified-copy-stored-back'),
              'a string function or MID$ statement has no effect beyond its result: its argument is a collector root exactly while the function runs')
    # LEFT$, RIGHT$
    for name, sl in (('left_', 's.to_str()[:stop]'), ('right_', 's.to_str()[-stop:]')):
        fn = ctx.fn('%s:StringFunctions.%s' % (V, name))
        r = _result(fn, 'from_str')
        ok = r is not None and norm(r.value) == 's.new().from_str(%s)' % sl
        rep.ob('slice.reference', '%s builds %s' % (name, sl), ok, norm(r.value) if r is not None else 'none', ctx.where(fn))
        if r is not None:
            lo, hi, b = _range_at(ctx, fn, r, 'stop')
            rep.ob('range.argument', '%s: count is within 0..255 where the result is built' % name, hi == 255 and (lo is None or lo >= 0) and
                   any(t == '0' for v, t in b.ne) or (lo, hi) == (0, 255) or (lo, hi) == (1, 255), b.describe(), ctx.where(r))
        fl = ctx.flow(fn)
        z = [x for x in own_nodes(fn) if isinstance(x, ast.Return) and norm(x.value) == 's.new()']
        rep.ob('slice.zero-count', '%s: a count of 0 returns the empty string (never s[-0:])' % name, len(z) == 1 and fl.knows(z[0], 'stop == 0', True), '', ctx.where(fn))
        conv = [a for a in own_nodes(fn) if isinstance(a, ast.Assign) and isinstance(a.targets[0], ast.Tuple) and norm(a.value) == '(pass_string(s), to_integer(num))']
        rep.ob('types.checked', '%s: string and count are type-checked/converted' % name, len(conv) == 1, '', ctx.where(fn))
    # MID$
    fn = ctx.fn(V + ':StringFunctions.mid_')
    r = _result(fn, 'from_str')
    ok = r is not None and norm(r.value) == 's.new().from_str(s.to_str()[start:start + num])'
    rep.ob('slice.reference', 'mid_ builds s[start:start+num] after start -= 1', ok and any(norm(a) == 'start -= 1' for a in own_nodes(fn) if isinstance(a, ast.AugAssign)), '', ctx.where(fn))
    fl = ctx.flow(fn)
    sub = [a for a in own_nodes(fn) if isinstance(a, ast.AugAssign) and norm(a) == 'start -= 1']
    if sub:
        b1 = bounds(ctx, fl.facts(sub[0]), 'start')
        b2 = bounds(ctx, fl.facts(sub[0]), 'num')
        rep.ob('range.argument', 'mid_: start within 1..255', (b1.lo(), b1.hi()) == (1, 255), b1.describe(), ctx.where(sub[0]))
        rep.ob('range.argument', 'mid_: count within 0..255', b2.hi() == 255 and b2.lo() in (0, 1), b2.describe(), ctx.where(sub[0]))
    e = [x for x in own_nodes(fn) if isinstance(x, ast.Return) and norm(x.value) == 's.new()']
    rep.ob('slice.empty-cases', 'mid_: count 0 or start beyond the end give the empty string', len(e) == 1 and fl.knows(e[0], 'num == 0 or start > length', True), '', ctx.where(fn))
    for x in e:
        b1 = bounds(ctx, fl.facts(x), 'start')
        b2 = bounds(ctx, fl.facts(x), 'num')
        rep.ob('range.argument', 'mid_: the empty result too is given only for start within 1..255 and count within 0..255',
               (b1.lo(), b1.hi()) == (1, 255) and (b2.lo(), b2.hi()) == (0, 255), 'start %s; count %s: an out-of-range argument returns "" instead of Illegal function call' % (b1.describe(), b2.describe()), ctx.where(x))
    # INSTR
    fn = ctx.fn(V + ':StringFunctions.instr_')
    fl = ctx.flow(fn)
    bs = [c for c in own_nodes(fn) if isinstance(c, ast.Assign) and norm(c.targets[0]) == 'big_in' and fl.knows(c, 'isinstance(arg0, numbers.Number)', True)]
    if bs:
        b = bounds(ctx, fl.facts(bs[0]), 'start')
        rep.ob('range.argument', 'instr_: start within 1..255', (b.lo(), b.hi()) == (1, 255), b.describe(), ctx.where(bs[0]))
    else:
        rep.ob('range.argument', 'instr_: start within 1..255', False, 'start branch not found', ctx.where(fn))
    fd = [a for a in own_nodes(fn) if isinstance(a, ast.Assign) and norm(a.targets[0]) == 'find']
    rep.ob('slice.reference', 'instr_ searches big[start-1:] and reports start + find', len(fd) == 1 and norm(fd[0].value) == 'big[start - 1:].find(small)' and
           any(norm(a.value) == 'new_int.from_int(start + find)' for a in own_nodes(fn) if isinstance(a, (ast.Assign, ast.Return)) and a.value is not None), '', ctx.where(fn))
    z = [x for x in own_nodes(fn) if isinstance(x, ast.Return) and norm(x.value) == 'new_int']
    conds = sorted(t for x in z for t in [f.text for f in fl.facts(x) if f.pol and (f.text.startswith('big ==') or f.text.startswith('find =='))])
    rep.ob('slice.empty-cases', 'instr_: 0 for an empty haystack, start beyond the end, or no match', conds == ["big == b'' or start > len(big)", 'find == -1'], repr(conds), ctx.where(fn))
    # STRING$
    fn = ctx.fn(V + ':StringFunctions.string_')
    fl = ctx.flow(fn)
    r = _result(fn, 'from_str')
    rep.ob('slice.reference', 'string_ builds char * num', r is not None and norm(r.value) == 'strings.String(None, asc_value_or_char._values).from_str(char * num)', '', ctx.where(fn))
    if r is not None:
        b = bounds(ctx, fl.facts(r), 'num')
        rep.ob('range.argument', 'string_: count within 0..255', (b.lo(), b.hi()) == (0, 255), b.describe(), ctx.where(r))
    cb = [a for a in own_nodes(fn) if isinstance(a, ast.Assign) and norm(a.value) == 'int2byte(ascval)']
    if cb:
        b = bounds(ctx, fl.facts(cb[0]), 'ascval')
        rep.ob('range.argument', 'string_: character code within 0..255', (b.lo(), b.hi()) == (0, 255), b.describe(), ctx.where(cb[0]))
    else:
        rep.ob('range.argument', 'string_: character code within 0..255', False, '', ctx.where(fn))
    # SPACE$, CHR$, ASC
    sp = ctx.fn(ST + ':String.space')
    fl = ctx.flow(sp)
    r = [x for x in own_nodes(sp) if isinstance(x, ast.Return)][0]
    b = bounds(ctx, fl.facts(r), 'num')
    rep.ob('range.argument', 'SPACE$: count within 0..255', (b.lo(), b.hi()) == (0, 255), b.describe(), ctx.where(sp))
    rep.ob('slice.reference', "SPACE$ builds b' ' * num", norm(r.value) == "self.new().from_str(b' ' * num)", '', ctx.where(sp))
    ch = ctx.fn(V + ':chr_')
    fl = ctx.flow(ch)
    r = [x for x in own_nodes(ch) if isinstance(x, ast.Return)][0]
    b = bounds(ctx, fl.facts(r), 'val')
    rep.ob('range.argument', 'CHR$: code within 0..255', (b.lo(), b.hi()) == (0, 255), b.describe(), ctx.where(ch))
    asc = ctx.fn(ST + ':String.asc')
    fl = ctx.flow(asc)
    r = [x for x in own_nodes(asc) if isinstance(x, ast.Return)][0]
    rep.ob('range.argument', 'ASC("") raises IFC', fl.knows(r, 'not s', False) and norm(r.value) == 'numbers.Integer(None, self._values).from_int(s[0])', '', ctx.where(asc))
    ln = ctx.fn(ST + ':String.len')
    rep.ob('slice.reference', 'LEN reads the length byte of the pointer', norm([x for x in own_nodes(ln) if isinstance(x, ast.Return)][0].value) ==
           'numbers.Integer(None, self._values).from_int(self.length())', '', ctx.where(ln))
    # all refusals in these functions are IFC
    n_thr = 0
    for spec in (V + ':StringFunctions.left_', V + ':StringFunctions.right_', V + ':StringFunctions.mid_', V + ':StringFunctions.instr_',
                 V + ':StringFunctions.string_', ST + ':String.space', V + ':chr_', ST + ':String.asc'):
        fn = ctx.fn(spec)
        for node, code, cond in ctx.throwers(fn):
            n_thr += 1
            rep.ob('range.error-is-ifc', '%s: %s' % (spec.split(':')[1], short(node, 50)), code == 'ILLEGAL_FUNCTION_CALL', code, ctx.where(node))
    rep.floor('range.error-is-ifc', n_thr, 11, 'range guards')
    # String too long
    st = ctx.fn(ST + ':StringSpace.store')
    fl = ctx.flow(st)
    tl = [r for r, c in ctx.raises_in(st) if c == 'STRING_TOO_LONG']
    rep.ob('too-long.store', 'store raises String too long for more than 255 bytes', len(tl) == 1 and fl.knows(tl[0], 'length > 255', True), '', ctx.where(st))
    fs = ctx.fn(ST + ':String.from_str')
    rep.ob('too-long.all-new-strings-stored', 'String.from_str allocates through StringSpace.store',
           any(norm(a) == "self._buffer[:] = struct.pack('<BH', *self._stringspace.store(python_str))" for a in own_nodes(fs) if isinstance(a, ast.Assign)), '', ctx.where(fs))
    add = ctx.fn(ST + ':String.add')
    rep.ob('concat', 'concatenation = from_str(left + right)', norm([x for x in own_nodes(add) if isinstance(x, ast.Return)][0].value) ==
           'self.new().from_str(self.dereference() + right.dereference())', '', ctx.where(add))
    # LSET/RSET
    ls = ctx.fn(ST + ':String.lset')
    fl = ctx.flow(ls)
    a = dict((norm(x.value), fl.knows(x, 'justify_right', True)) for x in own_nodes(ls) if isinstance(x, ast.Assign) and norm(x.targets[0]) == 'in_str' and 'just' in norm(x.value))
    rep.ob('inplace.lset-keeps-length', 'LSET/RSET write in_str[:length] padded to length', a == {'in_str[:length].rjust(length)': True, 'in_str[:length].ljust(length)': False} and
           any(norm(x) == 'length = self.length()' for x in own_nodes(ls) if isinstance(x, ast.Assign)), repr(a), ctx.where(ls))
    w = [x for x in own_nodes(ls) if isinstance(x, ast.Assign) and norm(x.targets[0]) == 'self._stringspace.view(*target)[:]']
    rep.ob('inplace.lset-keeps-length', 'the padded text is copied into the existing buffer (a slice store cannot change its size)', len(w) == 1 and norm(w[0].value) == 'in_str', '', ctx.where(ls))
    for name, right in (('lset_', 'False'), ('rset_', 'True')):
        fn = ctx.fn('%s:DataSegment.%s' % (M, name))
        c = [x for x in own_nodes(fn) if isinstance(x, ast.Call) and norm(x.func) == 'v.lset']
        rep.ob('inplace.statement-wiring', '%s calls lset(justify_right=%s)' % (name, right), len(c) == 1 and norm(c[0].keywords[0].value) == right, '', ctx.where(fn))
    # midset
    ms = ctx.fn(ST + ':String.midset')
    fl = ctx.flow(ms)
    t = [norm(s) for s in ms.body]
    rep.ob('inplace.midset-clamps', 'MID$= never writes more than the new string or beyond the target',
           'num = min(num, val.length())' in t and any(isinstance(n, ast.If) and norm(n.test) == 'offset + num > length' and norm(n.body[0]) == 'num = length - offset' for n in ms.body), '', ctx.where(ms))
    r0 = [x for x in own_nodes(ms) if isinstance(x, ast.Return) and fl.knows(x, 'num <= 0', True)]
    rep.ob('inplace.midset-clamps', 'nothing to copy returns the string unchanged', len(r0) == 1 and norm(r0[0].value) == 'self', '', ctx.where(ms))
    cp = [x for x in own_nodes(ms) if isinstance(x, ast.Assign) and norm(x.targets[0]) == 'self._stringspace.view(*target)[offset:offset + num]']
    rep.ob('inplace.midset-same-size-slices', 'source slice [:num] replaces target slice [offset:offset+num] (equal sizes)', len(cp) == 1 and norm(cp[0].value) == 'self._stringspace.view(*source)[:num]', '', ctx.where(ms))
    ov = [n for n in own_nodes(ms) if isinstance(n, ast.For) and norm(n.iter) == 'range(num)']
    rep.ob('inplace.midset-overlap', 'a string copied onto itself is copied byte by byte from the left', len(ov) == 1 and fl.knows(ov[0], 'source != target', False), '', ctx.where(ms))
    md = ctx.fn(M + ':DataSegment.mid_')
    fl = ctx.flow(md)
    c = [x for x in own_nodes(md) if isinstance(x, ast.Call) and norm(x.func) == 'basic_str.midset']
    if c:
        b1 = bounds(ctx, fl.facts(c[0]), 'num')
        rep.ob('range.argument', 'MID$ statement: count within 0..255', (b1.lo(), b1.hi()) == (0, 255), b1.describe(), ctx.where(c[0]))
        sg = [x for x in own_nodes(md) if isinstance(x, ast.Call) and norm(x) == 'error.range_check(1, len(s), start)']
        rep.ob('range.argument', 'MID$ statement: start within 1..len(target) when anything is copied', len(sg) == 1 and fl.knows(sg[0], 'num > 0', True), '', ctx.where(md))
    # comparison
    gt = ctx.fn(ST + ':String.gt')
    fl = ctx.flow(gt)
    rets = [(norm(x.value), sorted(f.text for f in fl.facts(x) if f.pol and ('left' in f.text))) for x in own_nodes(gt) if isinstance(x, ast.Return)]
    rep.ob('compare.lexicographic', 'String.gt: first differing byte decides, else the longer string is greater',
           rets == [('True', ['left[i] > right[i]']), ('False', ['left[i] < right[i]']), ('True', ['len(left) > len(right)']), ('False', [])], repr(rets), ctx.where(gt))
    rep.ob('compare.lexicographic', 'bytes are compared up to the shorter length', any(norm(a) == 'shortest = min(len(left), len(right))' for a in own_nodes(gt) if isinstance(a, ast.Assign))
           and any(isinstance(n, ast.For) and norm(n.iter) == 'range(shortest)' for n in own_nodes(gt)), '', ctx.where(gt))
    eq = ctx.fn(ST + ':String.eq')
    rep.ob('compare.equality', 'String.eq compares the whole contents', norm([x for x in own_nodes(eq) if isinstance(x, ast.Return)][0].value) == 'self.to_str() == right.to_str()', '', ctx.where(eq))


def variants(ctx):
    Va = mu.Variant

    def in_fn(f_name, f):
        return lambda tree: f(mu.find_def(tree, f_name))

    return [
        Va('left-range-256', 'break', V, in_fn('StringFunctions.left_', lambda fn: mu.replace_expr(fn, mu.text_is('error.range_check(0, 255, stop)'), 'error.range_check(0, 256, stop)')), expect='range.argument'),
        Va('right-no-zero-case', 'break', V, in_fn('StringFunctions.right_', lambda fn: mu.remove_stmt(fn, lambda st: isinstance(st, ast.If) and norm(st.test) == 'stop == 0')), expect='slice.zero'),
        Va('mid-start-0-allowed', 'break', V, in_fn('StringFunctions.mid_', lambda fn: mu.replace_expr(fn, mu.text_is('error.range_check(1, 255, start)'), 'error.range_check(0, 255, start)')), expect='range.argument'),
        Va('mid-empty-result-before-range-checks', 'break', V, in_fn('StringFunctions.mid_', _checks_after_empty), expect='range.argument'),
        Va('mid-off-by-one', 'break', V, in_fn('StringFunctions.mid_', lambda fn: mu.remove_stmt(fn, mu.text_is('start -= 1'))), expect='slice.reference'),
        Va('instr-no-range', 'break', V, in_fn('StringFunctions.instr_', lambda fn: mu.remove_stmt(fn, mu.text_is('error.range_check(1, 255, start)'))), expect='range.argument'),
        Va('chr-negative', 'break', V, in_fn('chr_', lambda fn: mu.replace_expr(fn, mu.text_is('error.range_check(0, 255, val)'), 'error.throw_if(val > 255)')), expect='range.argument'),
        Va('store-limit-256', 'break', ST, in_fn('StringSpace.store', lambda fn: mu.replace_expr(fn, mu.text_is('length > 255'), 'length > 256')), expect='too-long'),
        Va('lset-grows', 'break', ST, in_fn('String.lset', lambda fn: mu.replace_expr(fn, mu.text_is('in_str[:length].ljust(length)'), 'in_str.ljust(length)')), expect='inplace.lset'),
        Va('midset-no-clamp', 'break', ST, in_fn('String.midset', lambda fn: mu.remove_stmt(fn, lambda st: isinstance(st, ast.If) and norm(st.test) == 'offset + num > length')), expect='inplace.midset'),
        Va('gt-shorter-wins', 'break', ST, in_fn('String.gt', lambda fn: mu.replace_expr(fn, mu.text_is('len(left) > len(right)'), 'len(left) < len(right)')), expect='compare'),
        Va('space-error-code', 'break', ST, in_fn('String.space', lambda fn: mu.replace_stmt(fn, mu.text_is('error.range_check(0, 255, num)'), 'error.range_check_err(0, 255, num, error.OVERFLOW)')), expect='range.error'),
        Va('neutral', 'neutral', ST, in_fn('String.gt', lambda fn: mu.insert_first(fn, 'pass'))),
    ]


def _checks_after_empty(fn):
    """Move the two range checks of mid_ below the early return of the empty string."""
    blocks = [fn.body] + [t.body for t in ast.walk(fn) if isinstance(t, ast.Try)]
    for blk in blocks:
        checks = [st for st in blk if isinstance(st, ast.Expr) and norm(st.value).startswith('error.range_check(')]
        early = [st for st in blk if isinstance(st, ast.If) and norm(st.test) == 'num == 0 or start > length']
        if len(checks) == 2 and len(early) == 1:
            for c in checks:
                blk.remove(c)
            i = blk.index(early[0])
            blk[i + 1:i + 1] = checks
            return True
    return False

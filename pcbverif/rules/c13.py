"""
C13 -- the stored program matches the entered lines after any edit history
(structural half).

Decides:
 * ownership: Program.line_numbers is written only inside Program; the
   program bytecode is *written* (write/truncate on a receiver typed as the
   program's stream) only inside Program, converter.unprotect (called by
   Program.load) and nowhere else;
 * pairing: every Program method that writes bytecode re-establishes the line
   dictionary on every normal exit: store_line/delete -> update_line_dict,
   load/set_memory -> rebuild_line_dict (or merge -> store_line), erase ->
   literal reset, renum -> rewrites line_numbers itself;
 * sentinel: the end-of-program key 65536 is re-established by erase and by
   rebuild_line_dict, and update_line_dict/store_line never delete it
   (deleteable lists are bounded by `num <= toline`, toline <= 65535);
 * ordering: list_lines sorts by stored position, save walks the bytecode
   sequentially, find_pos_line_dict takes the insertion point from the lowest
   number strictly above the range;
 * the memory check in store_line precedes the write; the line is registered
   in line_numbers after update_line_dict shifted the others.
Not decided: offset arithmetic of update_line_dict over histories.
"""
import ast

from ..source import class_methods, norm, short, qualname, enclosing_class
from ..flow import own_nodes, must_follow
from .. import mutate as mu

PROP = 'C13'
LEVEL = 'other'
TECHNIQUE = 'static analysis: who-may-write (typed receivers), write/update pairing with must-follow on all exits, sentinel and ordering structure'
EXPLANATION = __doc__

PROGRAM = 'pcbasic/basic/program.py'
WRITE_METHODS = ('write', 'truncate')


def check(ctx, rep):
    # every line number from 0 to 65529 can be typed: the reader takes a fifth digit while the first four are at most 6552
    # (10*6552 + 9 = 65529), and not beyond (65530 and up are not line numbers)
    rd_ = ctx.fn('pcbasic/basic/converter/tokeniser.py:PlainTextStream.read_line_number')
    cut = None
    for c in own_nodes(rd_):
        if isinstance(c, ast.If) and isinstance(c.test, ast.Compare) and norm(c.test.left) == 'int(word)' and len(c.test.ops) == 1 \
                and isinstance(c.test.ops[0], (ast.Gt, ast.GtE)) and any(isinstance(b, ast.Break) for b in c.body):
            k = ctx.fold(c.test.comparators[0])
            if isinstance(k, int):
                cut = k if isinstance(c.test.ops[0], ast.Gt) else k - 1
    rep.ob('numbers.reader-reaches-65529', 'read_line_number reads a fifth digit exactly while the number so far is <= 6552', cut == 6552,
           'cut-off %s: the largest number that can be read is %s, not 65529' % (cut, None if cut is None else 10 * cut + 9), ctx.where(rd_))
    from . import c15, _share
    _share.share(ctx, rep, c15, ('ascii.',), 'MERGE / ASCII LOAD read the whole file: an empty line is not the end of the file')
    w = ctx.wiring
    prog = ctx.cls(PROGRAM + ':Program')
    # ---- ownership ---------------------------------------------------------
    n_ln = 0
    for fn in ctx.idx.functions('pcbasic/'):
        for n in own_nodes(fn):
            tg = n.targets if isinstance(n, ast.Assign) else ([n.target] if isinstance(n, ast.AugAssign) else (n.targets if isinstance(n, ast.Delete) else []))
            for t in tg:
                for x in ast.walk(t):
                    if isinstance(x, ast.Attribute) and x.attr == 'line_numbers' and not isinstance(x.ctx, ast.Load) or (
                            isinstance(x, ast.Subscript) and isinstance(x.value, ast.Attribute) and x.value.attr == 'line_numbers'
                            and not isinstance(x.ctx, ast.Load)):
                        n_ln += 1
                        rep.ob('owner.line_numbers', '%s: %s' % (qualname(fn).split(':')[1], short(n, 60)),
                               enclosing_class(fn) is prog, 'line dictionary modified outside Program', ctx.where(n))
            if isinstance(n, ast.Call) and isinstance(n.func, ast.Attribute) and isinstance(n.func.value, ast.Attribute) \
                    and n.func.value.attr == 'line_numbers' and n.func.attr in ('update', 'pop', 'clear', 'setdefault'):
                n_ln += 1
                rep.ob('owner.line_numbers', '%s: %s' % (qualname(fn).split(':')[1], short(n, 60)),
                       enclosing_class(fn) is prog, 'line dictionary modified outside Program', ctx.where(n))
    rep.floor('owner.line_numbers', n_ln, 8, 'writes')
    # bytecode writers: receivers `self.bytecode`, `self.program.bytecode`, `self._program.bytecode`, `self._program_code`
    stream_names = ('self.bytecode', 'self.program.bytecode', 'self._program.bytecode', 'self._program_code', 'self._impl.program.bytecode')
    n_bw = 0
    for fn in ctx.idx.functions('pcbasic/'):
        for n in own_nodes(fn):
            if isinstance(n, ast.Call) and isinstance(n.func, ast.Attribute) and n.func.attr in WRITE_METHODS \
                    and norm(n.func.value) in stream_names:
                n_bw += 1
                rep.ob('owner.bytecode-writes', '%s: %s' % (qualname(fn).split(':')[1], short(n, 60)),
                       enclosing_class(fn) is prog, 'program text written outside Program', ctx.where(n))
    rep.floor('owner.bytecode-writes', n_bw, 10, 'write sites')
    # aliases of the stream handed to writers: only renum's `ins` and load's unprotect(g, self.bytecode)
    passed = []
    for fn in ctx.idx.functions('pcbasic/'):
        for n in own_nodes(fn):
            if isinstance(n, ast.Call):
                for a in n.args:
                    if norm(a) in stream_names and norm(n.func) not in ('self.lister.detokenise_line', 'self.lister.detokenise_line_number',
                                                                         'self.parser.user_functions.define', 'self._parse_common_args'):
                        passed.append((qualname(fn).split(':')[1], norm(n.func)))
    rep.ob('owner.bytecode-passed-to', 'the program stream is handed only to protect/unprotect (and read-only consumers)',
           set(passed) <= {('Program.load', 'converter.unprotect'), ('Program.save', 'converter.protect')}, repr(passed), PROGRAM)
    # ---- pairing -------------------------------------------------------------
    def calls(fn, name):
        return [n for n in own_nodes(fn) if isinstance(n, ast.Call) and norm(n.func) == name]

    sl = ctx.fn(PROGRAM + ':Program.store_line')
    dl = ctx.fn(PROGRAM + ':Program.delete')
    for fn in (sl, dl):
        tr = calls(fn, 'self.truncate')
        rep.ob('pairing.write-then-update', '%s: every bytecode change is followed by update_line_dict on all paths' % fn.name,
               len(tr) == 1 and must_follow(tr[0], lambda s: isinstance(s, ast.Expr) and isinstance(s.value, ast.Call)
                                            and norm(s.value.func) == 'self.update_line_dict'), '', ctx.where(fn))
        upd = calls(fn, 'self.update_line_dict')
        fp = [a for a in own_nodes(fn) if isinstance(a, ast.Assign) and isinstance(a.value, ast.Call) and norm(a.value.func) == 'self.find_pos_line_dict']
        ok = len(upd) == 1 and len(fp) == 1
        if ok:
            names = [norm(e) for e in fp[0].targets[0].elts]
            args = [norm(a) for a in upd[0].args]
            ok = args[0] == names[0] and args[1] == names[1] and args[3:] == names[2:]
        rep.ob('pairing.update-args', '%s: update_line_dict gets the positions/sets found by find_pos_line_dict' % fn.name, ok, '', ctx.where(fn))
    reg = [n for n in own_nodes(sl) if isinstance(n, ast.Assign) and norm(n.targets[0]) == 'self.line_numbers[scanline]']
    upd = calls(sl, 'self.update_line_dict')
    rep.ob('pairing.register-after-shift', 'store_line registers the new line after shifting the others, only if not empty',
           len(reg) == 1 and len(upd) == 1 and reg[0].lineno > upd[0].lineno and ctx.flow(sl).knows(reg[0], 'not empty', True)
           and norm(reg[0].value) == 'pos', '', ctx.where(sl))
    ld = ctx.fn(PROGRAM + ':Program.load')
    fl = ctx.flow(ld)
    rb = calls(ld, 'self.rebuild_line_dict')
    rep.ob('pairing.load-rebuilds', 'load: rebuild_line_dict for binary/protected, merge()->store_line for ASCII',
           len(rb) == 1 and fl.knows(rb[0], "g.filetype != b'A'", True) and len(calls(ld, 'self.merge')) == 1, '', ctx.where(ld))
    rep.ob('pairing.load-erases', 'load starts from an erased program', bool(calls(ld, 'self.erase')) and calls(ld, 'self.erase')[0].lineno < min(
        [c.lineno for c in own_nodes(ld) if isinstance(c, ast.Call) and norm(c.func) == 'self.bytecode.write'] + [10 ** 9]), '', ctx.where(ld))
    sm = ctx.fn(PROGRAM + ':Program.set_memory')
    wr = calls(sm, 'self.bytecode.write')
    rep.ob('pairing.poke-rebuilds', 'set_memory: a POKE into code is followed by rebuild_line_dict',
           len(wr) == 1 and must_follow(wr[0], lambda s: isinstance(s, ast.Expr) and norm(s.value) == 'self.rebuild_line_dict()'), '', ctx.where(sm))
    rep.ob('pairing.poke-config', 'set_memory ignores POKEs unless allow_code_poke', ctx.flow(sm).knows(wr[0], 'not self.allow_code_poke', False) if wr else False, '', ctx.where(sm))
    rn = ctx.fn(PROGRAM + ':Program.renum')
    dels = [n for n in own_nodes(rn) if isinstance(n, ast.Delete) and norm(n.targets[0]) == 'self.line_numbers[old_line]']
    news = [n for n in own_nodes(rn) if isinstance(n, ast.Assign) and norm(n.targets[0]) == 'new_lines[old_to_new[old_line]]']
    rep.ob('pairing.renum-rekeys', 'renum re-keys every renumbered line with its unchanged position',
           len(dels) == 1 and len(news) == 1 and norm(news[0].value) == 'self.line_numbers[old_line]' and news[0].lineno < dels[0].lineno
           and bool(calls(rn, 'self.line_numbers.update')), '', ctx.where(rn))
    # ---- sentinel --------------------------------------------------------------
    er = ctx.fn(PROGRAM + ':Program.erase')
    st = [norm(n.value) for n in own_nodes(er) if isinstance(n, ast.Assign) and norm(n.targets[0]) == 'self.line_numbers']
    rep.ob('sentinel.erase', 'erase resets the dictionary to {65536: 0}', st == ['{65536: 0}'], repr(st), ctx.where(er))
    rbd = ctx.fn(PROGRAM + ':Program.rebuild_line_dict')
    last = [n for n in rbd.body if isinstance(n, ast.Assign) and norm(n.targets[0]) == 'self.line_numbers[65536]']
    rep.ob('sentinel.rebuild', 'rebuild_line_dict re-establishes key 65536 at the end position', len(last) == 1 and norm(last[0].value) == 'scanpos', '', ctx.where(rbd))
    fp = ctx.fn(PROGRAM + ':Program.find_pos_line_dict')
    d = [norm(n.value) for n in own_nodes(fp) if isinstance(n, ast.Assign) and norm(n.targets[0]) == 'deleteable']
    b = [norm(n.value) for n in own_nodes(fp) if isinstance(n, ast.Assign) and norm(n.targets[0]) == 'beyond']
    rep.ob('sentinel.never-deleted', 'deleteable is bounded above by toline; beyond is strictly above it (always contains 65536)',
           d == ['[num for num in self.line_numbers if num >= fromline and num <= toline]'] and b == ['[num for num in self.line_numbers if num > toline]'],
           repr((d, b)), ctx.where(fp))
    dflt = [norm(n.value) for n in own_nodes(dl) if isinstance(n, ast.Assign) and norm(n.targets[0]) == 'toline']
    rep.ob('sentinel.never-deleted', 'DELETE defaults its upper bound to 65535', 'toline if toline is not None else 65535' in dflt, repr(dflt), ctx.where(dl))
    ap = [norm(n.value) for n in own_nodes(fp) if isinstance(n, ast.Assign) and norm(n.targets[0]) == 'afterpos']
    rep.ob('order.insertion-point', 'insertion point = position of the lowest line strictly above the range', ap == ['self.line_numbers[min(beyond)]'], repr(ap), ctx.where(fp))
    sp_ = [n.value for n in own_nodes(fp) if isinstance(n, ast.Assign) and norm(n.targets[0]) == 'startpos']
    rep.ob('order.range-start', 'start of a line range = position of the lowest line in the range (the dictionary is in entry order, not line order)',
           any(norm(v) == 'self.line_numbers[min(deleteable)]' for v in sp_) and all(norm(v) in ('self.line_numbers[min(deleteable)]', 'afterpos') for v in sp_),
           repr([norm(v) for v in sp_]), ctx.where(fp))
    # collections derived from the line dictionary without sorting are in *entry* order: nothing may pick an
    # element of one by position
    n_unordered = 0
    for fn in list(class_methods(ctx.cls(PROGRAM + ':Program')).values()):
        unordered = set()
        for a in own_nodes(fn):
            if isinstance(a, ast.Assign) and isinstance(a.targets[0], ast.Name):
                v = a.value
                src = None
                if isinstance(v, (ast.ListComp, ast.GeneratorExp)) and v.generators:
                    src = norm(v.generators[0].iter)
                elif isinstance(v, ast.Call) and norm(v.func) in ('list', 'tuple') and v.args:
                    src = norm(v.args[0])
                if src in ('self.line_numbers', 'self.line_numbers.keys()', 'iterkeys(self.line_numbers)'):
                    unordered.add(a.targets[0].id)
        n_unordered += len(unordered)
        for x in own_nodes(fn):
            if isinstance(x, ast.Subscript) and isinstance(x.value, ast.Name) and x.value.id in unordered and not isinstance(x.slice, ast.Slice) \
                    and isinstance(x.slice, (ast.Constant, ast.UnaryOp)):
                rep.ob('order.no-positional-pick', '%s: %s' % (fn.name, short(x, 40)), False,
                       '`%s` is in the order the lines were typed: its first element need not be the lowest line number' % x.value.id, ctx.where(x))
    rep.ob('order.no-positional-pick', 'no element of an unsorted line-number collection is picked by position (%d such collections)' % n_unordered, True)
    rep.floor('order.no-positional-pick', n_unordered, 2, 'unsorted collections of line numbers')
    # ---- ordering --------------------------------------------------------------
    ll = ctx.fn(PROGRAM + ':Program.list_lines')
    srt = [norm(n.value) for n in own_nodes(ll) if isinstance(n, ast.Assign) and norm(n.targets[0]) == 'listable']
    rep.ob('order.list-by-position', 'list_lines orders by stored position', srt == ['sorted([self.line_numbers[num] for num in numbers])'], repr(srt), ctx.where(ll))
    # memory check before write in store_line
    oom = [r for r, c in ctx.raises_in(sl) if c == 'OUT_OF_MEMORY']
    wr = calls(sl, 'self.bytecode.write')
    rep.ob('store.memory-check-before-write', 'store_line checks free memory before writing the line',
           len(oom) == 1 and len(wr) == 1 and oom[0].lineno < wr[0].lineno, '', ctx.where(sl))
    # the link in the header of the stored line is the address of the byte after *that* line: code_start + 1 +
    # (position the stream was moved to for the write) + (bytes written); the memory check uses the same sum
    from ..algebra import lin
    if len(wr) == 1:
        seeks = [c for c in calls(sl, 'self.bytecode.seek') if c.lineno < wr[0].lineno and len(c.args) == 1]
        packs = [c for c in ast.walk(wr[0]) if isinstance(c, ast.Call) and norm(c.func) == 'struct.pack' and len(c.args) == 3]
        lens = [a for a in own_nodes(sl) if isinstance(a, ast.Assign) and norm(a.targets[0]) == 'length' and isinstance(a.value, ast.Call)
                and norm(a.value.func) == 'len']
        ok = bool(seeks) and len(packs) == 1 and len(lens) == 1
        detail = ''
        if ok:
            at = norm(max(seeks, key=lambda c: c.lineno).args[0])
            want = lin(ast.parse('self.code_start + 1 + %s + length' % at, mode='eval').body)
            got = lin(packs[0].args[2])
            ok = got == want
            detail = 'link = %s, but the line is written at `%s`' % (norm(packs[0].args[2]), at)
        rep.ob('links.next-line-address', 'store_line: link field = code_start + 1 + write position + line length', ok, detail, ctx.where(wr[0]))
        if oom:
            cmpn = [f.cond for f in ctx.flow(sl).facts(oom[0]) if f.pol and isinstance(f.cond, ast.Compare)]
            okm = bool(cmpn) and len(packs) == 1 and lin(cmpn[-1].left) == lin(packs[0].args[2])
            rep.ob('links.memory-check-same-address', 'the free-memory test compares the same end address with the stack start', okm, '', ctx.where(oom[0]))
    und = [r for r, c in ctx.raises_in(sl) if c == 'UNDEFINED_LINE_NUMBER']
    rep.ob('store.empty-line-deletes', 'an empty line deletes an existing line or raises Undefined line number before any change',
           len(und) == 1 and ctx.flow(sl).knows(und[0], 'empty and (not deleteable)', True) and und[0].lineno < calls(sl, 'self.truncate')[0].lineno, '', ctx.where(sl))
    # update_line_dict deletes and shifts
    ud = ctx.fn(PROGRAM + ':Program.update_line_dict')
    loops = dict((norm(n.iter), [norm(s) for s in n.body]) for n in own_nodes(ud) if isinstance(n, ast.For))
    rep.ob('update.deletes-and-shifts', 'update_line_dict deletes the replaced keys and shifts the later ones by the length change',
           loops == {'deleteable': ['del self.line_numbers[key]'], 'beyond': ['self.line_numbers[key] += length']}, repr(loops), ctx.where(ud))
    first = [norm(s) for s in ud.body if isinstance(s, ast.AugAssign)][:1]
    rep.ob('update.length-change', 'length change = new length - (afterpos - pos)', first == ['length -= afterpos - pos'], repr(first), ctx.where(ud))


def variants(ctx):
    Va = mu.Variant
    IMPL = 'pcbasic/basic/implementation.py'

    def in_fn(fname, f):
        return lambda tree: f(mu.find_def(tree, 'Program.' + fname))

    return [
        Va('line-numbers-65520-and-up-unreadable', 'break', 'pcbasic/basic/converter/tokeniser.py',
           lambda tree: mu.replace_expr(mu.find_def(tree, 'PlainTextStream.read_line_number'), mu.text_is('int(word) > 6552'), 'int(word) >= 6552'), expect='numbers.reader-reaches-65529'),
        Va('delete-forgets-dict', 'break', PROGRAM,
           in_fn('delete', lambda fn: mu.remove_stmt(fn, mu.stmt_has('self.update_line_dict', ast.Expr))), expect='pairing'),
        Va('store-line-registers-before-shift', 'break', PROGRAM, in_fn('store_line', _register_first), expect='pairing.register'),
        Va('load-binary-no-rebuild', 'break', PROGRAM,
           in_fn('load', lambda fn: mu.replace_expr(fn, mu.text_is("g.filetype != b'A'"), "g.filetype == b'P'")), expect='pairing.load'),
        Va('erase-drops-sentinel', 'break', PROGRAM,
           in_fn('erase', lambda fn: mu.replace_expr(fn, mu.text_is('{65536: 0}'), '{}')), expect='sentinel.erase'),
        Va('deleteable-includes-sentinel', 'break', PROGRAM,
           in_fn('find_pos_line_dict', lambda fn: mu.replace_expr(fn, mu.text_is('num >= fromline and num <= toline'), 'num >= fromline')), expect='sentinel'),
        Va('list-by-number', 'break', PROGRAM,
           in_fn('list_lines', lambda fn: mu.replace_expr(fn, mu.text_is('sorted([self.line_numbers[num] for num in numbers])'),
                                                          '[self.line_numbers[num] for num in sorted(numbers, reverse=True)]')), expect='order.list'),
        Va('line-dict-written-by-implementation', 'break', IMPL,
           lambda tree: mu.append_last(mu.find_def(tree, 'Implementation.new_'), 'self.program.line_numbers = {}'), expect='owner.line_numbers'),
        Va('interpreter-writes-bytecode', 'break', 'pcbasic/basic/interpreter.py',
           lambda tree: mu.append_last(mu.find_def(tree, 'Interpreter.tron_'), "self._program_code.write(b'\\x00')"), expect='owner.bytecode'),
        Va('shift-wrong-sign', 'break', PROGRAM,
           in_fn('update_line_dict', lambda fn: mu.replace_stmt(fn, mu.text_is('self.line_numbers[key] += length'), 'self.line_numbers[key] -= length')),
           expect='update'),
        Va('poke-no-rebuild', 'break', PROGRAM,
           in_fn('set_memory', lambda fn: mu.remove_stmt(fn, mu.text_is('self.rebuild_line_dict()'))), expect='pairing.poke'),
        Va('range-start-first-typed', 'break', PROGRAM,
           in_fn('find_pos_line_dict', lambda fn: mu.replace_expr(fn, mu.text_is('self.line_numbers[min(deleteable)]'), 'self.line_numbers[deleteable[0]]')), expect='order.'),
        Va('insertion-point-max', 'break', PROGRAM,
           in_fn('find_pos_line_dict', lambda fn: mu.replace_expr(fn, mu.text_is('self.line_numbers[min(beyond)]'), 'self.line_numbers[max(beyond)]')), expect='order.insertion'),
        Va('link-from-old-end', 'break', PROGRAM,
           in_fn('store_line', lambda fn: mu.replace_expr(fn, mu.text_is("struct.pack('<BH', 0, self.code_start + 1 + pos + length)"), "struct.pack('<BH', 0, self.code_start + 1 + afterpos + length)")), expect='links.next-line-address'),
        Va('neutral-link-commuted', 'neutral', PROGRAM,
           in_fn('store_line', lambda fn: mu.replace_expr(fn, mu.text_is("struct.pack('<BH', 0, self.code_start + 1 + pos + length)"), "struct.pack('<BH', 0, pos + length + 1 + self.code_start)"))),
        Va('neutral-log', 'neutral', PROGRAM, in_fn('delete', lambda fn: mu.insert_first(fn, "logging.debug('delete')"))),
    ]


def _register_first(fn):
    reg = [s for s in ast.walk(fn) if isinstance(s, ast.If) and norm(s.test) == 'not empty' and 'self.line_numbers[scanline]' in norm(s)][0]
    fn.body.remove(reg)
    k = [i for i, s in enumerate(fn.body) if 'self.update_line_dict' in norm(s)][0]
    fn.body.insert(k, reg)
    return True

"""
C03 -- numeric conversions and binary encodings are exact and consistent.

Decides byte-exactness *by construction* and table agreement:
 * MKI$/MKS$/MKD$ return from_str(bytes(to_<T>(x).to_bytes())) and
   CVI/CVS/CVD return from_bytes(cstr[:n]) guarded by throw_if(len(cstr) < n):
   no arithmetic lies between the stored buffer and the string;
   n in {2,4,8} agrees with the class `size` attributes, TYPE_TO_SIZE,
   SIZE_TO_CLASS; Value.to_bytes/from_bytes copy the buffer verbatim;
 * Double.from_single is pure byte placement (low half zero, high half the
   single) => exact widening;
 * CINT: cint_ -> to_integer -> Float.to_integer -> Integer.from_int(self.to_int())
   (range guard of C02 => Overflow outside -32768..32767); Float.to_int and
   to_int_truncate negate *after* the shift (magnitude rounding: halves away
   from zero / truncation toward zero, symmetric in sign);
 * INT: Float.ifloor records negativity before truncating and subtracts one
   only if the value changed and was negative;
 * HEX$/OCT$ convert with to_integer(x, unsigned=True) and format
   to_int(unsigned=True) with %X / %o; &H / &O parse with radix 16 / 8 and
   store unsigned: writer/reader radix and signedness agree.
Not decided: half-away rounding of every float, double->single rounding window.
"""
import ast

from ..source import norm, short, class_assigns
from ..flow import own_nodes
from .. import mutate as mu
from .. import valuesmodel as vm

PROP = 'C03'
LEVEL = 'other'
TECHNIQUE = 'static analysis: dataflow shape (no arithmetic between buffer and string), table agreement, sign-after-shift structure'
EXPLANATION = __doc__

N, V = vm.NUMBERS, vm.VALUES


def _borrowed(ctx, rep):
    from . import c02 as _c02, c06 as _c06, _share as _sh
    _sh.share(ctx, rep, _c02, ('range.',), 'CINT, an assignment to a % variable and MKI$ accept exactly -32768..32767: the bounds are those of Integer.from_int')
    _sh.share(ctx, rep, _c06, ('float-eq.',), 'INT() floors a negative number by comparing it with its truncation through Float.eq: a zero with its sign bit set equals zero, or INT of it is -1')


def check(ctx, rep):
    _borrowed(ctx, rep)
    sizes = {}
    for cname in ('Integer', 'Single', 'Double'):
        ca = class_assigns(ctx.cls('%s:%s' % (N, cname)))
        sizes[cname] = ctx.fold(ca['size']) if 'size' in ca else None
    rep.ob('sizes.classes', 'Integer/Single/Double sizes are 2/4/8', sizes == {'Integer': 2, 'Single': 4, 'Double': 8}, repr(sizes), N)
    s2c = ctx.mod(V).assigns.get('SIZE_TO_CLASS')
    got = dict((ctx.fold(k), norm(v)) for k, v in zip(s2c.keys, s2c.values)) if isinstance(s2c, ast.Dict) else {}
    rep.ob('sizes.size-to-class', 'SIZE_TO_CLASS agrees with class sizes',
           got == {2: 'numbers.Integer', 3: 'strings.String', 4: 'numbers.Single', 8: 'numbers.Double'}, repr(got), V)
    # MKx$
    for name, conv in (('mki_', 'to_integer'), ('mks_', 'to_single'), ('mkd_', 'to_double')):
        fn = ctx.fn('%s:%s' % (V, name))
        r = vm.returns(fn)[0].value
        rep.ob('mk.verbatim-bytes', '%s returns the stored bytes of %s(x)' % (name, conv),
               norm(r) == 'x._values.new_string().from_str(bytes(%s(x).to_bytes()))' % conv, short(r), ctx.where(fn))
    # CVx
    for name, n in (('cvi_', 2), ('cvs_', 4), ('cvd_', 8)):
        fn = ctx.fn('%s:%s' % (V, name))
        fl = ctx.flow(fn)
        r = vm.returns(fn)[0]
        ok_ret = norm(r.value) == 'x._values.from_bytes(cstr[:%d])' % n
        guarded = fl.knows(r, 'len(cstr) < %d' % n, False)
        src = [a for a in own_nodes(fn) if isinstance(a, ast.Assign) and norm(a.targets[0]) == 'cstr']
        rep.ob('cv.verbatim-bytes', '%s reads the first %d bytes verbatim' % (name, n), ok_ret, short(r), ctx.where(fn))
        rep.ob('cv.length-guard', '%s raises IFC for strings shorter than %d' % (name, n), guarded, '', ctx.where(fn))
        rep.ob('cv.string-checked', '%s: argument passes pass_string' % name,
               len(src) == 1 and norm(src[0].value) == 'pass_string(x).to_str()', '', ctx.where(fn))
    fb = ctx.fn(V + ':Values.from_bytes')
    rep.ob('cv.from-bytes-by-size', 'Values.from_bytes picks the class by byte length and copies',
           norm(vm.returns(fb)[0].value) == 'SIZE_TO_CLASS[len(token_bytes)](None, self).from_bytes(token_bytes)', '', ctx.where(fb))
    tb = ctx.fn(N + ':Value.to_bytes')
    rep.ob('buffer.to_bytes-copy', 'Value.to_bytes = bytearray(self._buffer)', norm(vm.returns(tb)[0].value) == 'bytearray(self._buffer)', '', ctx.where(tb))
    fbv = ctx.fn(N + ':Value.from_bytes')
    st = [s for s in fbv.body if isinstance(s, ast.Assign)]
    rep.ob('buffer.from_bytes-copy', 'Value.from_bytes copies in_bytes into the buffer',
           len(st) == 1 and norm(st[0]) == 'self._buffer[:] = in_bytes', '', ctx.where(fbv))
    # Double.from_single
    fs = ctx.fn(N + ':Double.from_single')
    body = [norm(s) for s in fs.body if not (isinstance(s, ast.Expr) and isinstance(s.value, ast.Constant))]
    rep.ob('widen.byte-placement', 'Double.from_single is pure byte placement',
           body == ["self._buffer[:4] = b'\\x00\\x00\\x00\\x00'", 'self._buffer[4:] = in_single._buffer', 'return self'], repr(body), ctx.where(fs))
    sd = ctx.fn(N + ':Single.to_double')
    rep.ob('widen.single-to-double', 'Single.to_double = Double.from_single(self)',
           norm(vm.returns(sd)[0].value) == 'Double(None, self._values).from_single(self)', '', ctx.where(sd))
    # exponent bias relation that makes the placement value-preserving
    sb = ctx.fold(class_assigns(ctx.cls(N + ':Single'))['_bias'])
    db = ctx.fold(class_assigns(ctx.cls(N + ':Double'))['_bias'])
    rep.ob('widen.bias', 'Double bias - Single bias == 32 (four extra mantissa bytes)', isinstance(sb, int) and db - sb == 32, '%r %r' % (sb, db), N)
    # CINT chain
    cint = ctx.fn(V + ':cint_')
    rep.ob('cint.chain', 'cint_ -> to_integer(value)', norm(vm.returns(cint)[0].value) == 'to_integer(value)', '', ctx.where(cint))
    ti = ctx.fn(V + ':to_integer')
    rep.ob('cint.chain', 'to_integer -> inp.to_integer(unsigned)', norm(vm.returns(ti)[-1].value) == 'inp.to_integer(unsigned)', '', ctx.where(ti))
    fti = ctx.fn(N + ':Float.to_integer')
    rep.ob('cint.chain', 'Float.to_integer -> Integer.from_int(self.to_int(), unsigned)',
           norm(vm.returns(fti)[0].value) == 'Integer(None, self._values).from_int(self.to_int(), unsigned)', '', ctx.where(fti))
    # rounding structure
    for meth, carry in (('to_int', True), ('to_int_truncate', False)):
        fn = ctx.fn('%s:Float.%s' % (N, meth))
        r = norm(vm.returns(fn)[0].value)
        rep.ob('round.sign-after-shift', 'Float.%s negates after shifting (symmetric in sign)' % meth,
               r == 'int(-(man >> 8) if neg else man >> 8)', r, ctx.where(fn))
        has_carry = any(isinstance(n, ast.If) and norm(n.test) == 'man & 128' and norm(n.body[0]) == 'man += 128' for n in own_nodes(fn))
        rep.ob('round.carry', 'Float.%s %s the half-unit carry' % (meth, 'adds' if carry else 'discards'), has_carry == carry, '', ctx.where(fn))
    itr = ctx.fn(N + ':Float.itrunc')
    rep.ob('fix.truncates', 'Float.itrunc = from_int(to_int_truncate())', norm(vm.returns(itr)[0].value) == 'self.from_int(self.to_int_truncate())', '', ctx.where(itr))
    ifl = ctx.fn(N + ':Float.ifloor')
    stmts = [norm(s) for s in ifl.body]
    i_neg = [i for i, s in enumerate(stmts) if s == 'was_negative = self.is_negative()']
    i_tr = [i for i, s in enumerate(stmts) if s == 'self.itrunc()']
    i_old = [i for i, s in enumerate(stmts) if s == 'oldval = self.clone()']
    rep.ob('int.floor-order', 'Float.ifloor saves value and sign before truncating',
           bool(i_neg and i_tr and i_old) and i_neg[0] < i_tr[0] and i_old[0] < i_tr[0], repr(stmts), ctx.where(ifl))
    adj = [n for n in own_nodes(ifl) if isinstance(n, ast.If)]
    rep.ob('int.floor-adjust', 'Float.ifloor subtracts one iff the value changed and was negative',
           len(adj) == 1 and norm(adj[0].test) == 'not self.eq(oldval) and was_negative'
           and norm(adj[0].body[0]) == 'self.isub(self.new().from_bytes(self._one))', '', ctx.where(ifl))
    for name, meth in (('int_', 'ifloor'), ('fix_', 'itrunc')):
        fn = ctx.fn('%s:%s' % (V, name))
        r = norm(vm.returns(fn)[-1].value)
        rep.ob('intfix.binding', '%s applies %s to a copy' % (name, meth), r.endswith('.clone().%s()' % meth), r, ctx.where(fn))
    # hex / oct
    for name, meth in (('hex_', 'to_hex'), ('oct_', 'to_oct')):
        fn = ctx.fn('%s:%s' % (V, name))
        conv = [a for a in own_nodes(fn) if isinstance(a, ast.Assign) and norm(a.targets[0]) == 'val']
        rep.ob('hexoct.writer-unsigned', '%s converts with to_integer(x, unsigned=True)' % name,
               len(conv) == 1 and norm(conv[0].value) == 'to_integer(x, unsigned=True)', '', ctx.where(fn))
        rep.ob('hexoct.writer-method', '%s formats with val.%s()' % (name, meth),
               norm(vm.returns(fn)[0].value) == 'x._values.new_string().from_str(val.%s())' % meth, '', ctx.where(fn))
    th = ctx.fn(N + ':Integer.to_hex')
    rep.ob('hexoct.radix', 'to_hex: %X of unsigned value', norm(vm.returns(th)[0].value) == "b'%X' % (self.to_int(unsigned=True),)", '', ctx.where(th))
    to = ctx.fn(N + ':Integer.to_oct')
    rep.ob('hexoct.radix', 'to_oct: %o of unsigned value', norm(vm.returns(to)[-1].value) == "b'%o' % (self.to_int(unsigned=True),)", '', ctx.where(to))
    for meth, radix in (('from_hex', 16), ('from_oct', 8)):
        fn = ctx.fn('%s:Integer.%s' % (N, meth))
        ints = [c for c in own_nodes(fn) if isinstance(c, ast.Call) and norm(c.func) == 'int' and len(c.args) == 2]
        rep.ob('hexoct.radix', '%s parses with radix %d' % (meth, radix), len(ints) == 1 and ctx.fold(ints[0].args[1]) == radix, '', ctx.where(fn))
        rep.ob('hexoct.reader-unsigned', '%s stores with from_int(val, unsigned=True)' % meth,
               norm(vm.returns(fn)[0].value) == 'self.from_int(val, unsigned=True)', '', ctx.where(fn))
    fr = ctx.fn(V + ':Values.from_repr')
    fl = ctx.flow(fr)
    seen = {}
    for r in vm.returns(fr):
        t = norm(r.value)
        if 'from_hex' in t or 'from_oct' in t:
            seen[t] = [f.text for f in fl.facts(r) if f.pol and 'word[' in f.text]
    rep.ob('hexoct.prefix-dispatch', '&H -> from_hex(word[2:]), & / &O -> from_oct',
           seen == {'self.new_integer().from_hex(word[2:])': ["word[:2] == b'&H'"],
                    "self.new_integer().from_oct(word[2:] if word[1:2] == b'O' else word[1:])": ["word[:1] == b'&'"]},
           repr(seen), ctx.where(fr))
    # double -> single goes through Float._normalise: after rounding, a mantissa that reached the upper limit
    # (2 * the implicit-one mask) is renormalised; every test against that limit in Float is `man >= limit`,
    # the mantissa range being [mask, limit)  (sibling agreement over all carry / round-up sites)
    cmp_sites = []
    for fn in ctx.idx.functions(N):
        for c in own_nodes(fn):
            if isinstance(c, ast.Compare) and len(c.ops) == 1 and 'self._den_upper' in [norm(c.left), norm(c.comparators[0])] and isinstance(c._parent, ast.If):
                cmp_sites.append((fn, c))
    for fn, c in cmp_sites:
        ok = norm(c.comparators[0]) == 'self._den_upper' and isinstance(c.ops[0], ast.GtE)
        rep.ob('normalise.mantissa-below-limit', '%s: %s' % (fn.name, norm(c)), ok,
               'a mantissa equal to the limit is kept: it does not fit the mantissa field and the packed number loses its sign / exponent', ctx.where(c))
    rep.floor('normalise.mantissa-below-limit', len(cmp_sites), 3, 'tests against _den_upper')
    # Float._bring_to_range(man, exp, lower, upper) leaves |man| in (lower, upper]: the callers pass (2^(n-1) - 1, 2^n - 1),
    # so a mantissa equal to `upper` already fits n bits and must stay, and one equal to `lower` has a clear top bit and must move
    br = ctx.fn(N + ':Float._bring_to_range')
    loops = [w for w in br.body if isinstance(w, ast.While)]
    shape = []
    for w in loops:
        t = w.test
        side = None
        if isinstance(t, ast.Compare) and len(t.ops) == 1 and norm(t.left) == 'abs(man)' and isinstance(t.comparators[0], ast.Name):
            side = (type(t.ops[0]).__name__, t.comparators[0].id)
        steps = sorted(norm(st) for st in w.body)
        shape.append((side, steps))
    rep.ob('normalise.bring-to-range-half-open', '_bring_to_range: while |man| <= lower shift left, while |man| > upper shift right',
           shape == [(('LtE', 'lower'), ['exp -= 1', 'man <<= 1']), (('Gt', 'upper'), ['exp += 1', 'man >>= 1'])],
           'a mantissa equal to `upper` (all ones) would be shifted out of the normalised range, or one equal to `lower` kept with a clear top bit: %r' % (shape,), ctx.where(br))
    calls = [c for fn in ctx.idx.functions(N) for c in own_nodes(fn) if isinstance(c, ast.Call) and norm(c.func) == 'self._bring_to_range']
    for c in calls:
        lo, hi = (norm(a) for a in c.args[2:4])
        ok = (lo, hi) in (('self._posmask', 'self._mask'), ('self._den_mask >> 4', 'self._den_upper >> 4'))
        rep.ob('normalise.bring-to-range-half-open', '_bring_to_range called with a (2^(n-1)-1, 2^n-1) or (2^k, 2^(k+1)) pair: (%s, %s)' % (lo, hi), ok, '', ctx.where(c))
    rep.floor('normalise.bring-to-range-half-open', len(calls), 3, 'callers of _bring_to_range')
    # the constructors that estimate the exponent themselves (from a logarithm cut by int(), from the bit length of an
    # integer) rely on _bring_to_range for the final normalisation: the estimate alone is off by one for some inputs
    for name in ('Float.from_value', 'Float.from_int'):
        fn = ctx.fn('%s:%s' % (N, name))
        own = [c for c in calls if any(c is x for x in own_nodes(fn))]
        packs = [c for c in own_nodes(fn) if isinstance(c, ast.Call) and norm(c.func) in ('struct.pack_into', 'self._check_limits')]
        rep.ob('normalise.bring-to-range-in-constructors', '%s normalises its mantissa with _bring_to_range before it is checked and packed' % name,
               bool(own) and bool(packs) and min(c.lineno for c in own) < min(p_.lineno for p_ in packs),
               'the exponent estimate is stored as it is: exact powers of two with a negative exponent come back with half their magnitude', ctx.where(fn))
    for cls in ('Single', 'Double'):
        up = ctx.cf.fold(ctx.idx.locate('%s:%s._den_upper' % (N, cls)), ctx.mod(N), {'_den_mask': ctx.cf.fold(ctx.idx.locate('%s:%s._den_mask' % (N, cls)), ctx.mod(N))})
        mask = ctx.cf.fold(ctx.idx.locate('%s:%s._den_mask' % (N, cls)), ctx.mod(N))
        rep.ob('normalise.limit-is-twice-mask', '%s._den_upper = 2 * _den_mask' % cls, up == 2 * mask, '%r %r' % (up, mask), N)


def variants(ctx):
    Va = mu.Variant

    def in_fn(fname, f):
        return lambda tree: f(mu.find_def(tree, fname))

    return [
        Va('from-value-trusts-its-exponent-estimate', 'break', 'pcbasic/basic/values/numbers.py',
           in_fn('Float.from_value', lambda fn: mu.remove_stmt(fn, mu.stmt_has('self._bring_to_range(', ast.Assign))), expect='normalise.bring-to-range-in-constructors'),
        Va('cint-refuses-minus-32768', 'break', 'pcbasic/basic/values/numbers.py',
           in_fn('Integer.from_int', lambda fn: mu.replace_stmt(fn, mu.text_is('minint, maxint = (-32768, 32767)'), 'minint, maxint = (-32767, 32767)')), expect='shared.range.from_int'),
        Va('negative-zero-not-equal-to-zero', 'break', 'pcbasic/basic/values/numbers.py',
           in_fn('Float.eq', lambda fn: mu.remove_stmt(fn, lambda st: isinstance(st, ast.If) and norm(st.test) == 'self.is_zero()')), expect='shared.float-eq'),
        Va('normalise-keeps-mantissa-at-limit', 'break', N,
           in_fn('Float._normalise', lambda fn: mu.replace_expr(fn, mu.text_is('man >= self._den_upper'), 'man > self._den_upper')), expect='normalise.mantissa-below-limit'),
        Va('bring-to-range-shifts-all-ones', 'break', N,
           in_fn('Float._bring_to_range', lambda fn: mu.replace_expr(fn, mu.text_is('abs(man) > upper'), 'abs(man) >= upper')), expect='normalise.bring-to-range-half-open'),
        Va('mks-goes-through-double', 'break', V,
           in_fn('mks_', lambda fn: mu.replace_expr(fn, mu.text_is('to_single(x)'), 'to_double(x)')), expect='mk.verbatim'),
        Va('cvs-reads-8', 'break', V,
           in_fn('cvs_', lambda fn: mu.replace_expr(fn, mu.text_is('cstr[:4]'), 'cstr[:8]')), expect='cv.'),
        Va('cvd-guard-off-by-one', 'break', V,
           in_fn('cvd_', lambda fn: mu.replace_expr(fn, mu.text_is('len(cstr) < 8'), 'len(cstr) < 7')), expect='cv.length-guard'),
        Va('from-single-wrong-half', 'break', N,
           in_fn('Double.from_single', lambda fn: mu.replace_stmt(fn, mu.text_is('self._buffer[4:] = in_single._buffer'),
                                                                  'self._buffer[:4] = in_single._buffer')), expect='widen'),
        Va('to-int-floor-negatives', 'break', N,
           in_fn('Float.to_int', lambda fn: mu.replace_expr(fn, mu.text_is('-(man >> 8) if neg else man >> 8'), '(-man >> 8) if neg else man >> 8')),
           expect='round.sign-after-shift'),
        Va('truncate-with-carry', 'break', N,
           in_fn('Float.to_int_truncate', lambda fn: mu.insert_before(fn, lambda st: isinstance(st, ast.Return), 'if man & 0x80:\n    man += 0x80')),
           expect='round.carry'),
        Va('hex-signed', 'break', V,
           in_fn('hex_', lambda fn: mu.replace_expr(fn, mu.text_is('to_integer(x, unsigned=True)'), 'to_integer(x)')), expect='hexoct.writer-unsigned'),
        Va('from-oct-radix-16', 'break', N,
           in_fn('Integer.from_oct', lambda fn: mu.replace_expr(fn, lambda n: isinstance(n, ast.Constant) and n.value == 8, '16')), expect='hexoct.radix'),
        Va('ifloor-sign-after-trunc', 'break', N, in_fn('Float.ifloor', _move_was_negative), expect='int.floor-order'),
        Va('size-table-swapped', 'break', V,
           lambda tree: mu.set_dict_value(mu.find_assign_value(tree, 'SIZE_TO_CLASS'), '4', 'numbers.Double'), expect='sizes'),
        Va('rename-cstr', 'neutral', N, in_fn('Float.to_int', lambda fn: mu.insert_first(fn, 'pass'))),
    ]


def _move_was_negative(fn):
    st = [s for s in fn.body if norm(s) == 'was_negative = self.is_negative()'][0]
    fn.body.remove(st)
    k = [i for i, s in enumerate(fn.body) if norm(s) == 'self.itrunc()'][0]
    fn.body.insert(k + 1, st)
    return True

"""
C17 -- tokenising and listing are consistent (table half).

Decides, for every dialect:
 * the token<->keyword map is a bijection: KEYWORDS (plus the pcjr/tandy
   additions) has no duplicate token and no duplicate keyword after constant
   folding (duplicate keys in a dict literal are detected on the AST), and
   TokenKeywordDict builds to_token by inverting to_keyword;
 * keywords are upper case and the tokeniser upper-cases before lookup;
 * the token code is prefix-free and disjoint from everything the lister
   treats specially: one-byte keyword tokens are >= 0x80, two-byte tokens have a
   lead in {0xFD,0xFE,0xFF} that is not itself a token, no token equals a number
   or line-number token;
 * payload sizes agree: PLUS_BYTES[t] equals the number of bytes the matching
   to_token*/tokeniser writer emits after t (Integer/Single/Double.size) and the
   two-byte leads are exactly the PLUS_BYTES entries of length 1;
 * every member of tokens.NUMBER / LINE_NUMBER selects a branch in
   Lister._detokenise_number and in Values.from_token / Integer.from_token
   (branch conditions are folded with the lead byte bound to each member), so
   no number token falls through to the failsafe.
Not decided: list -> re-enter identity of whole lines (spacing rules).
"""
import ast

from ..source import norm, short, class_assigns, AnalysisError
from ..consts import is_unknown
from ..flow import own_nodes
from .. import mutate as mu

PROP = 'C17'
LEVEL = 'other'
TECHNIQUE = 'static analysis: constant-folded token tables (bijection, prefix-freeness, size agreement), branch coverage by folding conditions per token'
EXPLANATION = __doc__

TK = 'pcbasic/basic/base/tokens.py'
TOK = 'pcbasic/basic/converter/tokeniser.py'
LST = 'pcbasic/basic/converter/lister.py'
N = 'pcbasic/basic/values/numbers.py'
V = 'pcbasic/basic/values/values.py'


def _branch_hit(ctx, fn, env, var_tests):
    """Which if/elif branch of the top-level chain in fn fires, folding tests with env. Returns test text or None."""
    for st in fn.body:
        node = st
        while isinstance(node, ast.If):
            v = ctx.cf.fold(node.test, fn._module, env)
            if is_unknown(v):
                return '?%s' % norm(node.test)
            if v:
                return norm(node.test)
            node = node.orelse[0] if len(node.orelse) == 1 and isinstance(node.orelse[0], ast.If) else None
    return None


def check(ctx, rep):
    # lister: the table of operator tokens (no blank is added around them) lists each symbol operator once, none twice
    tkm_ = ctx.mod(TK)
    opn = tkm_.assigns.get('OPERATOR')
    names_ = [norm(e) for e in opn.elts] if isinstance(opn, ast.Tuple) else []
    want_ = sorted(n for n in tkm_.assigns if n.startswith('O_') and n not in ('O_REM',))
    rep.ob('lister.operator-table-complete', 'tokens.OPERATOR holds every symbol-operator token exactly once', sorted(names_) == want_,
           'OPERATOR = %r, symbol operators = %r: a missing operator is listed with blanks added around it, so the line does not re-enter as typed' % (names_, want_), TK)
    # lister: the character AFTER a keyword is looked at once the whole token (both bytes of a two-byte token) has been consumed
    dk = ctx.fn('pcbasic/basic/converter/lister.py:Lister._detokenise_keyword_into')
    look = [a for a in own_nodes(dk) if isinstance(a, ast.Assign) and norm(a.targets[0]) == 'next_char']
    consume = [c for c in own_nodes(dk) if isinstance(c, ast.Call) and norm(c) == 'ins.read(1)' and isinstance(c._parent, ast.Expr) and isinstance(c._parent._parent, ast.Try)]
    rep.ob('lister.lookahead-after-the-whole-token', '_detokenise_keyword_into peeks at the following character after consuming the second token byte',
           len(look) == 1 and norm(look[0].value) == 'ins.peek(1)' and len(consume) >= 1 and all(c.lineno < look[0].lineno for c in consume),
           'the look-ahead is taken before a two-byte token is consumed: its second byte is taken for the next character and a blank is inserted (INT( lists as INT ()', ctx.where(dk))
    # tokeniser: exactly one SPACE after a line number is dropped (it is put back when listing); a TAB is kept
    tln = ctx.fn(TOK + ':Tokeniser._tokenise_line_number')
    sk = [c for c in own_nodes(tln) if isinstance(c, ast.Compare) and norm(c.left) == 'ins.peek()']
    rep.ob('lines.one-space-after-the-number', "_tokenise_line_number drops one b' ' after the number and nothing else",
           len(sk) == 1 and isinstance(sk[0].ops[0], ast.Eq) and ctx.fold(sk[0].comparators[0]) == b' ', repr([norm(x) for x in sk]), ctx.where(tln))
    from . import c07, _share
    _share.share(ctx, rep, c07, ('literal.',), 'a number literal re-enters with the type its digit count and sigil select')
    from . import c03 as _c03
    _share.share(ctx, rep, _c03, ('hexoct.',), 'an octal or hexadecimal literal is listed as the unsigned value that re-enters as the same token')
    tkm = ctx.mod(TK)
    kw_node = tkm.assigns.get('KEYWORDS')
    if not isinstance(kw_node, ast.Dict):
        raise AnalysisError('tokens.KEYWORDS is not a dict literal')
    n_dup0 = len(ctx.cf.duplicates)
    kw = ctx.const(TK, 'KEYWORDS')
    dups = [d for d in ctx.cf.duplicates[n_dup0:] if d[0] == TK]
    rep.ob('bijection.no-duplicate-token', 'KEYWORDS literal has no repeated token key', not dups,
           'duplicate keys: %r' % [d[1] for d in dups], TK)
    rep.ob('bijection.literal-size', 'every literal entry survives folding', len(kw) == len(kw_node.keys) - len(dups),
           '%d entries, %d folded' % (len(kw_node.keys), len(kw)), TK)
    rep.floor('keywords', len(kw), 180, 'keywords')
    # dialect additions
    tkd = ctx.fn(TK + ':TokenKeywordDict.__init__')
    extra = {}
    for n in own_nodes(tkd):
        if isinstance(n, ast.Assign) and isinstance(n.targets[0], ast.Subscript) and norm(n.targets[0].value) == 'self.to_keyword':
            k = ctx.cf.fold(n.targets[0].slice, tkm)
            v = ctx.cf.fold(n.value, tkm)
            extra[k] = v
    rep.note('dialect_extra', repr(extra))
    for dialect, table in (('advanced', dict(kw)), ('pcjr/tandy', dict(list(kw.items()) + list(extra.items())))):
        vals = list(table.values())
        dupv = sorted(set(v for v in vals if vals.count(v) > 1))
        rep.ob('bijection.no-duplicate-keyword', '%s: each keyword has one token' % dialect, not dupv, 'duplicates %r' % dupv, TK)
        rep.ob('bijection.extra-tokens-new', '%s: dialect tokens do not overwrite base tokens' % dialect,
               dialect == 'advanced' or not (set(extra) & set(kw)), repr(set(extra) & set(kw)), TK)
        bad = [k for k, v in table.items() if not (isinstance(k, bytes) and isinstance(v, bytes) and k and v)]
        rep.ob('tokens.well-formed', '%s: tokens and keywords are non-empty bytes' % dialect, not bad, repr(bad[:5]), TK)
        # upper case
        lower = [v for v in vals if v != v.upper()]
        rep.ob('case.keywords-upper', '%s: keywords are upper case' % dialect, not lower, repr(lower[:5]), TK)
        # prefix-free and disjoint
        one = set(k for k in table if len(k) == 1)
        two = set(k for k in table if len(k) == 2)
        other = set(table) - one - two
        rep.ob('code.length', '%s: tokens are one or two bytes' % dialect, not other, repr(sorted(other)[:5]), TK)
        low = sorted(k for k in one if k < b'\x80')
        rep.ob('code.one-byte-high', '%s: one-byte tokens are >= 0x80 (not ASCII, number tokens or controls)' % dialect, not low, repr(low), TK)
        leads = set(k[:1] for k in two)
        rep.ob('code.prefix-free', '%s: no one-byte token is the lead of a two-byte token' % dialect, not (leads & one), repr(leads & one), TK)
        rep.ob('code.leads', '%s: two-byte leads are FD/FE/FF' % dialect, leads <= {b'\xfd', b'\xfe', b'\xff'}, repr(sorted(leads)), TK)
    number = ctx.const(TK, 'NUMBER')
    linenum = ctx.const(TK, 'LINE_NUMBER')
    rep.ob('code.number-tokens-disjoint', 'no keyword token equals a number/line-number token',
           not (set(kw) | set(extra)) & (set(number) | set(linenum)), '', TK)
    # inverse construction
    inv = [n for n in own_nodes(tkd) if isinstance(n, ast.Assign) and norm(n.targets[0]) == 'self.to_token']
    rep.ob('bijection.inverse-built-from-forward', 'to_token = dict(reversed(item) for item in to_keyword.items())',
           len(inv) == 1 and norm(inv[0].value) == 'dict((reversed(item) for item in iteritems(self.to_keyword)))',
           short(inv[0]) if inv else 'missing', ctx.where(tkd))
    base = [n for n in own_nodes(tkd) if isinstance(n, ast.Assign) and norm(n.targets[0]) == 'self.to_keyword']
    rep.ob('bijection.forward-from-keywords', 'to_keyword = dict(KEYWORDS)', len(base) == 1 and norm(base[0].value) == 'dict(KEYWORDS)', '', ctx.where(tkd))
    # tokeniser uppercases before lookup
    tw = ctx.fn(TOK + ':Tokeniser._tokenise_word')
    acc = [n for n in own_nodes(tw) if isinstance(n, ast.AugAssign) and norm(n.target) == 'word']
    rep.ob('case.upper-before-lookup', '_tokenise_word accumulates c.upper()', len(acc) == 1 and norm(acc[0].value) == 'c.upper()',
           repr([norm(a) for a in acc]), ctx.where(tw))
    look = [n for n in own_nodes(tw) if isinstance(n, ast.Subscript) and norm(n.value) == 'self._keyword_to_token']
    rep.ob('case.lookup', '_tokenise_word looks the upper-cased word up in to_token', bool(look) and all(norm(l.slice) == 'word' for l in look), '', ctx.where(tw))
    # the number readers are case-insensitive: a character that is compared with letters (E, D, H, O, L, Q) has been upper-cased
    CS = 'pcbasic/basic/base/codestream.py'
    n_cmp = 0
    for meth in ('read_number', '_read_dec', '_read_hex', '_read_oct'):
        fn = ctx.fn('%s:CodeStream.%s' % (CS, meth))
        upper_locals = {}
        for a in own_nodes(fn):
            if isinstance(a, ast.Assign) and isinstance(a.targets[0], ast.Name):
                upper_locals.setdefault(a.targets[0].id, []).append(norm(a.value).endswith('.upper()'))
        for c in own_nodes(fn):
            if not (isinstance(c, ast.Compare) and len(c.ops) == 1):
                continue
            sides = [c.left, c.comparators[0]]
            for k, side in enumerate(sides):
                v = ctx.fold(side)
                vals = list(v) if isinstance(v, (tuple, list)) else [v]
                if not vals or not all(isinstance(x, bytes) for x in vals):
                    continue
                letters = b''.join(vals)
                if not any(65 <= ch <= 90 for ch in letters) or any(97 <= ch <= 122 for ch in letters):
                    continue   # no letters, or both cases listed
                other = sides[1 - k]
                n_cmp += 1
                base = other.value if isinstance(other, ast.Subscript) else other
                if isinstance(base, ast.Name):
                    ok = bool(upper_locals.get(base.id)) and all(upper_locals[base.id])
                    if not ok:
                        # an accumulator fed only from upper-cased locals (and constants)
                        feeds = [a.value for a in own_nodes(fn) if isinstance(a, ast.AugAssign) and norm(a.target) == base.id]
                        ok = bool(feeds) and all(isinstance(f, ast.Constant) or (isinstance(f, ast.Name) and upper_locals.get(f.id) and all(upper_locals[f.id])) for f in feeds) \
                            and all(not u or isinstance(u, bool) for u in upper_locals.get(base.id, []))
                else:
                    ok = norm(other).endswith('.upper()')
                rep.ob('case.number-reader-upper-cases', 'CodeStream.%s: %s' % (meth, short(c, 50)), ok,
                       'a character is compared with upper-case letters without being upper-cased: the lower-case spelling is read differently (1e5, &h10, `1 else`)', ctx.where(c))
    rep.floor('case.number-reader-upper-cases', n_cmp, 4, 'comparisons with letters in the number readers')
    # payload sizes
    plus = ctx.const(TK, 'PLUS_BYTES')
    sizes = dict((c, ctx.fold(class_assigns(ctx.cls('%s:%s' % (N, c)))['size'])) for c in ('Integer', 'Single', 'Double'))
    writers = [
        ('Integer.to_token_hex', 'T_HEX', sizes['Integer']), ('Integer.to_token_oct', 'T_OCT', sizes['Integer']),
        ('Single.to_token', 'T_SINGLE', sizes['Single']), ('Double.to_token', 'T_DOUBLE', sizes['Double']),
    ]
    for meth, tname, size in writers:
        fn = ctx.fn('%s:%s' % (N, meth))
        r = [norm(x.value) for x in own_nodes(fn) if isinstance(x, ast.Return)]
        tok = ctx.cf.module_const(tkm, tname)
        rep.ob('payload.writer', '%s emits tk.%s + whole buffer' % (meth, tname), r == ['tk.%s + self._buffer.tobytes()' % tname], repr(r), ctx.where(fn))
        rep.ob('payload.size-agrees', 'PLUS_BYTES[%s] == %s' % (tname, size), plus.get(tok) == size, '%r' % plus.get(tok), TK)
    itok = ctx.fn(N + ':Integer.to_token')
    rets = [norm(x.value) for x in own_nodes(itok) if isinstance(x, ast.Return)]
    rep.ob('payload.writer', 'Integer.to_token emits C_0+n, T_BYTE+1 byte, or T_INT+buffer',
           rets == ['int2byte(ord(tk.C_0) + byte)', 'tk.T_BYTE + int2byte(bytearray(self._buffer)[0])', 'tk.T_INT + self._buffer.tobytes()'],
           repr(rets), ctx.where(itok))
    T = lambda n: ctx.cf.module_const(tkm, n)
    rep.ob('payload.size-agrees', 'PLUS_BYTES[T_BYTE] == 1 and [T_INT] == 2', plus.get(T('T_BYTE')) == 1 and plus.get(T('T_INT')) == sizes['Integer'], '', TK)
    jn = ctx.fn(TOK + ':Tokeniser._tokenise_jump_number')
    w = [norm(c.args[0]) for c in own_nodes(jn) if isinstance(c, ast.Call) and norm(c.func) == 'outs.write']
    rep.ob('payload.writer', "jump numbers are written as T_UINT + '<H'", "tk.T_UINT + struct.pack('<H', linum)" in w, repr(w), ctx.where(jn))
    rep.ob('payload.size-agrees', 'PLUS_BYTES[T_UINT] == PLUS_BYTES[T_UINT_PROC] == 2', plus.get(T('T_UINT')) == 2 and plus.get(T('T_UINT_PROC')) == 2, '', TK)
    one_len = set(k for k, v in plus.items() if v == 1) - {T('T_BYTE')}
    all_leads = set(k[:1] for k in list(kw) + list(extra) if len(k) == 2)
    rep.ob('payload.two-byte-leads', 'PLUS_BYTES knows every two-byte token lead', all_leads <= one_len, '%r vs %r' % (sorted(all_leads), sorted(one_len)), TK)
    rep.ob('payload.c0', 'ord(C_0) == 0x11 (Integer.from_token subtracts 0x11)', T('C_0') == b'\x11' and
           any(norm(n) == 'int2byte(d - 17) + b\'\\x00\'' for n in own_nodes(ctx.fn(N + ':Integer.from_token')) if isinstance(n, ast.BinOp)), '', N)
    digit = ctx.const(TK, 'DIGIT')
    rep.ob('payload.digit-constants-consecutive', 'C_0..C_10 are consecutive codes',
           [ord(T('C_%d' % i)) for i in range(11)] == list(range(0x11, 0x1c)) and list(digit) == [T('C_%d' % i) for i in range(10)], '', TK)
    # branch coverage for every number token
    dn = ctx.fn(LST + ':Lister._detokenise_number')
    vt = ctx.fn(V + ':Values.from_token')
    it = ctx.fn(N + ':Integer.from_token')
    for lead in list(number) + list(linenum):
        hit = _branch_hit(ctx, dn, {'lead': lead}, None)
        rep.ob('coverage.lister-number-branch', 'token %r handled by _detokenise_number' % lead, hit is not None and not hit.startswith('?'),
               'branch: %s' % hit, ctx.where(dn))
    for lead in number:
        hit = _branch_hit(ctx, vt, {'lead': lead, 'token': lead}, None)
        rep.ob('coverage.from_token-branch', 'token %r handled by Values.from_token' % lead,
               hit is not None and not hit.startswith('?') and hit != 'not token', 'branch: %s' % hit, ctx.where(vt))
        if lead not in (T('T_SINGLE'), T('T_DOUBLE')):
            hit = _branch_hit(ctx, it, {'d': lead[0]}, None)
            rep.ob('coverage.integer-from_token-branch', 'token %r handled by Integer.from_token' % lead,
                   hit is not None and not hit.startswith('?'), 'branch: %s' % hit, ctx.where(it))
    # lister dispatch order: number tokens before ASCII / keyword handling
    dc = ctx.fn(LST + ':Lister.detokenise_compound_statement')
    tests = []
    for n in own_nodes(dc):
        if isinstance(n, ast.If):
            tests.append(norm(n.test))
    try:
        ok = tests.index('s in tk.NUMBER or s in tk.LINE_NUMBER') < tests.index("comment or litstring or b' ' <= s <= b'~'")
    except ValueError:
        ok = False
    rep.ob('lister.number-before-ascii', 'lister recognises number tokens before literal bytes', ok, repr(tests), ctx.where(dc))
    # suffix tests in the lister (`len(output) >= k and output[-k:] == KEYWORD`): k is the keyword's length and
    # the length guard admits an output that consists of exactly that keyword (WHILE at the start of a line)
    n_suffix = 0
    for fn in ctx.idx.functions(LST):
        for b in own_nodes(fn):
            if not (isinstance(b, ast.BoolOp) and isinstance(b.op, ast.And)):
                continue
            for c in b.values:
                if isinstance(c, ast.Compare) and len(c.ops) == 1 and isinstance(c.ops[0], ast.Eq) and norm(c.comparators[0]).startswith('tk.KW_'):
                    sl = [x for x in ast.walk(c.left) if isinstance(x, ast.Subscript) and isinstance(x.slice, ast.Slice) and x.slice.upper is None
                          and isinstance(x.slice.lower, ast.UnaryOp) and isinstance(x.slice.lower.operand, ast.Constant)]
                    if len(sl) != 1:
                        continue
                    k = sl[0].slice.lower.operand.value
                    buf = norm(sl[0].value)
                    kw = ctx.const(TK, norm(c.comparators[0]).split('.')[1])
                    guards = [g for g in b.values if isinstance(g, ast.Compare) and len(g.ops) == 1 and norm(g.left) == 'len(%s)' % buf
                              and isinstance(g.comparators[0], ast.Constant)]
                    low = None
                    if len(guards) == 1:
                        g = guards[0]
                        low = g.comparators[0].value + (1 if isinstance(g.ops[0], ast.Gt) else 0) if isinstance(g.ops[0], (ast.Gt, ast.GtE)) else None
                    n_suffix += 1
                    rep.ob('lister.suffix-test-length', '%s: the test for a preceding %s looks at its %d characters and admits exactly them' % (fn.name, kw.decode(), len(kw)),
                           k == len(kw) and low == len(kw), 'slice [-%s:], length guard admits len >= %s, keyword has %d characters' % (k, low, len(kw)), ctx.where(b))
    rep.floor('lister.suffix-test-length', n_suffix, 3, 'suffix tests')
    # a double-precision literal always lists with its '#': the type sign may be dropped for singles only
    dnot = ctx.fn(N + ':Float._decimal_notation')
    app = [a for a in own_nodes(dnot) if isinstance(a, ast.AugAssign) and norm(a.target) == 'valstr' and norm(a.value) == 'type_sign']
    ok = len(app) == 1 and isinstance(app[0]._parent, ast.If) and _true_when(app[0]._parent.test, "type_sign == b'#'")
    rep.ob('list.double-sigil-kept', "_decimal_notation appends the type sign whenever it is '#'", ok,
           "a double literal such as 1.5# lists as 1.5 and re-enters as a single", ctx.where(dnot))


def _true_when(test, atom):
    """The boolean formula `test` is true under every assignment of its other atoms once `atom` is true."""
    import itertools
    atoms = []

    def collect(t):
        if isinstance(t, ast.BoolOp):
            for v in t.values:
                collect(v)
        elif isinstance(t, ast.UnaryOp) and isinstance(t.op, ast.Not):
            collect(t.operand)
        elif norm(t) not in atoms:
            atoms.append(norm(t))

    def ev(t, env):
        if isinstance(t, ast.BoolOp):
            vals = [ev(v, env) for v in t.values]
            return all(vals) if isinstance(t.op, ast.And) else any(vals)
        if isinstance(t, ast.UnaryOp) and isinstance(t.op, ast.Not):
            return not ev(t.operand, env)
        return env[norm(t)]
    collect(test)
    if atom not in atoms or len(atoms) > 8:
        return False
    others = [a for a in atoms if a != atom]
    for vals in itertools.product([False, True], repeat=len(others)):
        env = dict(zip(others, vals))
        env[atom] = True
        if not ev(test, env):
            return False
    return True


def variants(ctx):
    Va = mu.Variant

    def in_fn(fname, f):
        return lambda tree: f(mu.find_def(tree, fname))

    def set_tok(name, val):
        return lambda tree: mu.replace_stmt(tree, lambda st: isinstance(st, ast.Assign) and norm(st.targets[0]) == name, '%s = %s' % (name, val))

    return [
        Va('less-than-missing-from-operator-table', 'break', TK,
           lambda tree: mu.replace_expr(tree, lambda n: isinstance(n, ast.Tuple) and [norm(e) for e in n.elts][:3] == ['O_GT', 'O_EQ', 'O_LT'], '(O_GT, O_EQ, O_GT, O_PLUS, O_MINUS, O_TIMES, O_DIV, O_CARET, O_INTDIV)'), expect='lister.operator-table-complete'),
        Va('lookahead-before-the-second-token-byte', 'break', 'pcbasic/basic/converter/lister.py',
           lambda tree: _look_first(mu.find_def(tree, 'Lister._detokenise_keyword_into')), expect='lister.lookahead-after-the-whole-token'),
        Va('tab-after-line-number-dropped', 'break', TOK,
           lambda tree: mu.replace_expr(mu.find_def(tree, 'Tokeniser._tokenise_line_number'), mu.text_is("ins.peek() == b' '"), 'ins.peek() in ins.blanks'), expect='lines.one-space-after-the-number'),
        Va('while-plus-shown-at-line-start', 'break', LST,
           lambda tree: mu.replace_expr(tree, mu.text_is('len(output) >= 5'), 'len(output) > 5'), expect='lister.suffix-test-length'),
        Va('double-sigil-dropped-after-point', 'break', N,
           in_fn('Float._decimal_notation', lambda fn: mu.replace_expr(fn, mu.text_is("b'.' not in valstr or type_sign == b'#'"), "b'.' not in valstr")), expect='list.double-sigil-kept'),
        Va('two-keywords-same-token', 'break', TK, set_tok('LOCATE', "b'\\xc9'"), expect='bijection'),
        Va('two-tokens-same-keyword', 'break', TK, set_tok('KW_LOF', "b'LOC'"), expect='bijection.no-duplicate-keyword'),
        Va('else-after-number-case-sensitive', 'break', 'pcbasic/basic/base/codestream.py',
           in_fn('CodeStream._read_dec', lambda fn: mu.replace_expr(fn, mu.text_is('self.peek().upper()'), 'self.peek()')), expect='case.number-reader-upper-cases'),
        Va('lowercase-keyword', 'break', TK, set_tok('KW_CINT', "b'Cint'"), expect='case.keywords-upper'),
        Va('token-in-ascii-range', 'break', TK, set_tok('BEEP', "b'\\x7c'"), expect='code.one-byte-high'),
        Va('token-is-two-byte-lead', 'break', TK, set_tok('THEN', "b'\\xfe'"), expect='code.prefix-free'),
        Va('plus-bytes-single-3', 'break', TK,
           lambda tree: mu.set_dict_value(mu.find_assign_value(tree, 'PLUS_BYTES'), 'T_SINGLE', '3'), expect='payload.size-agrees'),
        Va('tokeniser-no-upper', 'break', TOK,
           in_fn('Tokeniser._tokenise_word', lambda fn: mu.replace_stmt(fn, mu.text_is('word += c.upper()'), 'word += c')), expect='case.upper-before-lookup'),
        Va('lister-drops-hex-branch', 'break', LST,
           in_fn('Lister._detokenise_number', lambda fn: mu.replace_expr(fn, mu.text_is('lead == tk.T_HEX'), 'lead == tk.T_OCT')), expect='coverage.lister'),
        Va('number-tuple-gains-unhandled-token', 'break', TK,
           lambda tree: mu.replace_expr(mu.find_assign_value(tree, 'NUMBER'), lambda n: isinstance(n, ast.Name) and n.id == 'C_10',
                                        lambda n: ast.Tuple(elts=[], ctx=ast.Load())) and
           mu.replace_stmt(tree, lambda st: isinstance(st, ast.Assign) and norm(st.targets[0]) == 'NUMBER',
                           "NUMBER = (T_OCT, T_HEX, T_BYTE, T_INT, T_SINGLE, T_DOUBLE, C_0, C_1, C_2, C_3, C_4, C_5, C_6, C_7, C_8, C_9, C_10, b'\\x1e')"),
           expect='coverage'),
        Va('inverse-built-separately', 'break', TK,
           in_fn('TokenKeywordDict.__init__', lambda fn: mu.replace_expr(fn, mu.text_is('iteritems(self.to_keyword)'), 'iteritems(KEYWORDS)')),
           expect='bijection.inverse'),
        Va('new-keyword-added', 'neutral', TK,
           lambda tree: (mu.insert_before(tree, lambda st: isinstance(st, ast.Assign) and norm(st.targets[0]) == 'KEYWORDS',
                                          "FOO = b'\\xfd\\xb0'\nKW_FOO = b'FOO'") and
                         _add_kw(tree))),
    ]


def _add_kw(tree):
    d = mu.find_assign_value(tree, 'KEYWORDS')
    d.keys.append(ast.Name(id='FOO', ctx=ast.Load()))
    d.values.append(ast.Name(id='KW_FOO', ctx=ast.Load()))
    return True


def _look_first(fn):
    st = [x for x in fn.body if isinstance(x, ast.Assign) and norm(x.targets[0]) == 'next_char']
    if len(st) != 1:
        return False
    fn.body.remove(st[0])
    k = 1 if isinstance(fn.body[0], ast.Expr) and isinstance(fn.body[0].value, ast.Constant) else 0
    fn.body.insert(k, st[0])
    return True


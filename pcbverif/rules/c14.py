"""
C14 -- RENUM renumbers lines and every reference consistently (structural half).

Decides:
 * every reference kind is stored as a T_UINT token: Tokeniser._linenum_words
   contains GOTO GOSUB THEN ELSE RESTORE RUN RESUME ERL RETURN LIST LLIST DELETE
   EDIT RENUM AUTO, `allow_jumpnum` is set from membership in that table, and
   _tokenise_jump_number emits T_UINT + '<H';
 * Program.renum rewrites *all* T_UINT tokens in one scan over the whole
   bytecode (from position 0 until skip_to_read no longer finds one), writing
   the mapped number back in place; the only token skipped is the 0 of
   ON ERROR GOTO 0; a target missing from the map is kept, and reported iff it
   is not an existing line (the `except KeyError` branch);
 * numbering: lines >= start are taken in ascending order and numbered
   new, new+step, ...; the end sentinel stops the loop; numbers above 65529
   and overlap with the untouched lines raise Illegal function call before
   anything is written;
 * each renumbered line's own number field is overwritten with its new number;
 * trap remapping in Interpreter.renum_ is total: every lookup of a trap line
   in the map tolerates a line outside the renumbered range (the KeyError
   repaired in /repo ad5bffac); step < 1 raises IFC; stacks are cleared.
Not decided: behavioural equivalence of the renumbered program.
"""
import ast

from ..source import norm, short
from ..flow import own_nodes
from .. import mutate as mu

PROP = 'C14'
LEVEL = 'other'
TECHNIQUE = 'static analysis: keyword-table coverage, single-scan rewrite structure, total-lookup check on map accesses'
EXPLANATION = __doc__

PROGRAM = 'pcbasic/basic/program.py'
INTERP = 'pcbasic/basic/interpreter.py'
TOK = 'pcbasic/basic/converter/tokeniser.py'
TK = 'pcbasic/basic/base/tokens.py'
REQUIRED = ['GOTO', 'GOSUB', 'THEN', 'ELSE', 'RESTORE', 'RUN', 'RESUME', 'ERL', 'RETURN', 'LIST', 'LLIST', 'DELETE', 'EDIT', 'RENUM', 'AUTO']


def check(ctx, rep):
    from . import c13, _share
    from . import c38 as _c38
    _share.share(ctx, rep, _c38, ('all-events.',), 'RENUM remaps every event trap it finds in BasicEvents.all: the list must hold every handler')
    from . import c22 as _c22
    _share.share(ctx, rep, _c22, ('scan.mode', 'scan.remark'), 'the scan for line-number references skips string literals and remarks only to the end of their line')
    _share.share(ctx, rep, c13, ('pairing.renum',), 'RENUM re-keys the line dictionary consistently with the rewritten program')
    tkm = ctx.mod(TK)
    words = ctx.const(TOK, 'Tokeniser._linenum_words')
    for kw in REQUIRED:
        v = ctx.cf.module_const(tkm, 'KW_' + kw)
        rep.ob('reference-kinds.tokenised-as-line-number', 'a number after %s is stored as a line-number token' % kw, v in words, '', TOK)
    tl = ctx.fn(TOK + ':Tokeniser.tokenise_line')
    a = [norm(n.value) for n in own_nodes(tl) if isinstance(n, ast.Assign) and norm(n.targets[0]) == 'allow_jumpnum' and 'word' in norm(n.value)]
    rep.ob('reference-kinds.mode-from-table', 'allow_jumpnum = (word in self._linenum_words)', a == ['word in self._linenum_words'], repr(a), ctx.where(tl))
    fl = ctx.flow(tl)
    jc = [n for n in own_nodes(tl) if isinstance(n, ast.Call) and norm(n.func) == 'self._tokenise_jump_number']
    rep.ob('reference-kinds.jump-number-branch', 'numbers in jump-number mode go through _tokenise_jump_number',
           len(jc) == 1 and fl.knows(jc[0], "allow_number and allow_jumpnum and (c in DIGITS + b'.')", True), '', ctx.where(tl))
    jn = ctx.fn(TOK + ':Tokeniser._tokenise_jump_number')
    wr = [norm(c.args[0]) for c in own_nodes(jn) if isinstance(c, ast.Call) and norm(c.func) == 'outs.write']
    rep.ob('reference-kinds.token', "_tokenise_jump_number writes T_UINT + '<H' number", "tk.T_UINT + struct.pack('<H', linum)" in wr, repr(wr), ctx.where(jn))
    # renum scan
    rn = ctx.fn(PROGRAM + ':Program.renum')
    # RENUM 0 is a request for line 0: an argument is defaulted only when it is None, never by truthiness
    params = [a.arg for a in rn.args.args]
    soft = [b for b in own_nodes(rn) if isinstance(b, ast.BoolOp) and isinstance(b.op, ast.Or) and isinstance(b.values[0], ast.Name) and b.values[0].id in params]
    rep.ob('arguments.zero-is-not-omitted', 'Program.renum defaults its arguments with `is None` tests', not soft,
           '%s: a new line number / start line / increment of 0 is replaced by the default' % [norm(b) for b in soft], ctx.where(rn))
    dfl = dict((norm(a.targets[0]), norm(a.value)) for a in own_nodes(rn) if isinstance(a, ast.Assign) and isinstance(a.value, ast.IfExp))
    rep.ob('arguments.zero-is-not-omitted', 'defaults: new line 10, start 0, increment 10',
           dfl == {'new_line': '10 if new_line is None else new_line', 'start_line': '0 if start_line is None else start_line', 'step': '10 if step is None else step'},
           repr(dfl), ctx.where(rn))
    loops = [n for n in own_nodes(rn) if isinstance(n, ast.While)]
    ok = len(loops) == 1 and norm(loops[0].test) == 'ins.skip_to_read((tk.T_UINT,)) == tk.T_UINT'
    rep.ob('scan.all-tokens', 'renum loops over every T_UINT token', ok, norm(loops[0].test) if loops else 'none', ctx.where(rn))
    if not loops:
        return
    lp = loops[0]
    pre = rn.body[:rn.body.index(lp)]
    start = [norm(s) for s in pre][-2:]
    rep.ob('scan.from-start', 'the scan starts at the beginning of the program bytecode', start == ['ins = self.bytecode', 'ins.seek(0)'], repr(start), ctx.where(rn))
    fl = ctx.flow(rn)
    cont = [n for n in own_nodes(lp) if isinstance(n, ast.Continue)]
    ok = len(cont) == 1 and fl.knows(cont[0], 'jumpnum == 0', True) and \
        fl.knows(cont[0], 'ins.backskip_blank() == tk.GOTO and ins.backskip_blank() == tk.ERROR', True)
    rep.ob('scan.only-skip-is-error-goto-0', 'the only token left alone is the 0 of ERROR GOTO 0', ok, '', ctx.where(lp))
    brk = [n for n in own_nodes(lp) if isinstance(n, (ast.Break, ast.Return))]
    rep.ob('scan.no-early-exit', 'no break/return inside the scan', not brk, '', ctx.where(lp))
    look = [n for n in own_nodes(lp) if isinstance(n, ast.Subscript) and norm(n) == 'old_to_new[jumpnum]']
    h = fl.in_try_catching(look[0], ('KeyError',)) if look else None
    rep.ob('scan.missing-target-kept', 'a target not in the map is kept (except KeyError: newjump = jumpnum)',
           h is not None and 'newjump = jumpnum' in [norm(s) for s in h.body], '', ctx.where(lp))
    if h is not None:
        rp = [n for n in own_nodes(h) if isinstance(n, ast.Call) and norm(n.func) == 'console.write_line']
        rep.ob('scan.missing-target-reported', 'reported as Undefined line iff the target is not an existing line',
               len(rp) == 1 and ctx.flow(rn).knows(rp[0], 'jumpnum not in self.line_numbers', True) and b'Undefined line' in
               (ctx.fold(rp[0].args[0].left) if isinstance(rp[0].args[0], ast.BinOp) else b''), '', ctx.where(h))
    tail = [norm(s) for s in lp.body][-2:]
    rep.ob('scan.write-back-in-place', 'the mapped number overwrites the token payload', tail == ['ins.seek(-2, 1)', "ins.write(struct.pack('<H', newjump))"], repr(tail), ctx.where(lp))
    rd = [norm(s) for s in lp.body][:2]
    rep.ob('scan.read-payload', "payload is read as '<H'", rd == ['token = ins.read(2)', "jumpnum, = struct.unpack('<H', token)"], repr(rd), ctx.where(lp))
    # numbering
    nl = [n for n in own_nodes(rn) if isinstance(n, ast.For) and 'sorted(' in norm(n.iter)]
    ok = len(nl) == 1 and norm(nl[0].iter) == 'sorted((_k for _k in self.line_numbers.keys() if _k >= start_line))'
    rep.ob('numbering.ascending-from-start', 'lines >= start are numbered in ascending order', ok, norm(nl[0].iter) if nl else 'none', ctx.where(rn))
    if nl:
        body = [norm(s) for s in nl[0].body]
        try:
            i1, i2 = body.index('old_to_new[old_line] = new_line'), body.index('new_line += step')
            ok = i1 < i2
        except ValueError:
            ok = False
        rep.ob('numbering.consecutive', 'map[old] = new; new += step', ok, repr(body), ctx.where(nl[0]))
        sent = [n for n in nl[0].body if isinstance(n, ast.If) and norm(n.test) == 'old_line == 65536' and isinstance(n.body[0], ast.Break)]
        rep.ob('numbering.sentinel-stops', 'the end sentinel is not renumbered', len(sent) == 1 and nl[0].body.index(sent[0]) < i1 if ok else False, '', ctx.where(nl[0]))
        lim = [n for n in nl[0].body if isinstance(n, ast.If) and norm(n.test) == 'old_line < 65535 and new_line > 65529']
        rep.ob('numbering.limit', 'new numbers above 65529 raise Illegal function call',
               len(lim) == 1 and ctx.basic_error_code(lim[0].body[0]) == 'ILLEGAL_FUNCTION_CALL', '', ctx.where(nl[0]))
    ov = [n for n in rn.body if isinstance(n, ast.If) and norm(n.test) == 'remaining and new_line <= max(remaining)']
    rep.ob('numbering.no-overlap', 'renumbering into the untouched lines raises IFC first',
           len(ov) == 1 and ctx.basic_error_code(ov[0].body[0]) == 'ILLEGAL_FUNCTION_CALL' and rn.body.index(ov[0]) < rn.body.index(nl[0]) if nl else False, '', ctx.where(rn))
    rem = [norm(n.value) for n in rn.body if isinstance(n, ast.Assign) and norm(n.targets[0]) == 'remaining']
    rep.ob('numbering.no-overlap', 'untouched lines = those below start', rem == ['[_k for _k in self.line_numbers.keys() if _k < start_line]'], repr(rem), ctx.where(rn))
    # first write happens after all IFC checks
    writes = [n for n in own_nodes(rn) if isinstance(n, ast.Call) and norm(n.func) in ('self.bytecode.write', 'ins.write')]
    raises = [r for r, c in ctx.raises_in(rn) if c == 'ILLEGAL_FUNCTION_CALL']
    rep.ob('numbering.checks-before-writes', 'all refusals precede the first write', bool(writes) and bool(raises) and
           max(r.lineno for r in raises) < min(w.lineno for w in writes), '', ctx.where(rn))
    # own line numbers
    own = [n for n in own_nodes(rn) if isinstance(n, ast.For) and norm(n.iter) == 'old_to_new' and any('self.bytecode.write' in norm(s) for s in n.body)]
    ok = len(own) == 1 and [norm(s) for s in own[0].body] == ['self.bytecode.seek(self.line_numbers[old_line])', 'self.bytecode.read(3)',
                                                              "self.bytecode.write(struct.pack('<H', old_to_new[old_line]))"]
    rep.ob('own-number.overwritten', "each renumbered line's number field gets its new number", ok, '', ctx.where(rn))
    # while references are rewritten the line dictionary still has the OLD numbering: the "does this target exist" test and the
    # line-number lookup for the report read it; the dictionary is re-keyed only after the scan
    muts = [n for n in own_nodes(rn) if (isinstance(n, ast.Delete) and any(norm(t).startswith('self.line_numbers[') for t in n.targets))
            or (isinstance(n, ast.Call) and norm(n.func) in ('self.line_numbers.update', 'self.line_numbers.pop', 'self.line_numbers.clear'))
            or (isinstance(n, ast.Assign) and any(norm(t).startswith('self.line_numbers') for t in n.targets))]
    rep.floor('order.rekey-after-reference-scan', len(muts), 1, 'mutations of line_numbers in renum')
    scan_end = getattr(lp, 'end_lineno', lp.lineno)
    exist_tests = [c for c in own_nodes(lp) if isinstance(c, ast.Compare) and norm(c.comparators[0]) == 'self.line_numbers' and isinstance(c.ops[0], (ast.In, ast.NotIn))]
    rep.ob('order.rekey-after-reference-scan', 'the scan tests whether an unmapped target exists', len(exist_tests) == 1, '', ctx.where(lp))
    for m_ in muts:
        rep.ob('order.rekey-after-reference-scan', 'renum: %s comes after the reference scan' % short(m_, 50), m_.lineno > scan_end,
               'the dictionary is re-keyed before the scan: a dangling reference whose number coincides with a newly assigned number is taken for an existing line and not reported',
               ctx.where(m_))
    rets = [norm(r.value) for r in own_nodes(rn) if isinstance(r, ast.Return)]
    rep.ob('own-number.map-returned', 'renum returns the map for trap remapping', rets == ['old_to_new'], repr(rets), ctx.where(rn))
    # trap remapping total
    rr = ctx.fn(INTERP + ':Interpreter.renum_')
    flr = ctx.flow(rr)
    mapvar = [norm(n.targets[0]) for n in own_nodes(rr) if isinstance(n, ast.Assign) and isinstance(n.value, ast.Call) and norm(n.value.func) == 'self._program.renum']
    rep.ob('traps.map-from-renum', 'renum_ takes the map returned by Program.renum', len(mapvar) == 1, repr(mapvar), ctx.where(rr))
    mv = mapvar[0] if mapvar else 'old_to_new'
    n_acc = 0
    for n in own_nodes(rr):
        if isinstance(n, ast.Subscript) and norm(n.value) == mv:
            n_acc += 1
            key = norm(n.slice)
            safe = flr.in_try_catching(n, ('KeyError',)) is not None or any(f.pol and f.text == '%s in %s' % (key, mv) for f in flr.facts(n))
            rep.ob('traps.total-lookup', 'renum_: %s' % short(n), safe,
                   'a trap line outside the renumbered range is not in the map: KeyError escapes the interpreter', ctx.where(n))
        if isinstance(n, ast.Call) and isinstance(n.func, ast.Attribute) and n.func.attr == 'get' and norm(n.func.value) == mv:
            n_acc += 1
            rep.ob('traps.total-lookup', 'renum_: %s' % short(n), len(n.args) == 2 and norm(n.args[0]) == norm(n.args[1]),
                   'default must be the unchanged line', ctx.where(n))
    rep.floor('traps.total-lookup', n_acc, 2, 'map lookups')
    targets = set()
    for n in own_nodes(rr):
        if isinstance(n, ast.Assign) and norm(n.targets[0]) == 'self.on_error':
            targets.add('on_error')
        if isinstance(n, ast.Call) and norm(n.func) == 'handler.set_jump':
            targets.add('events')
    evl = [n for n in own_nodes(rr) if isinstance(n, ast.For) and norm(n.iter) == 'self._basic_events.all']
    rep.ob('traps.error-and-all-events', 'both the error trap and every event handler are remapped', targets == {'on_error', 'events'} and len(evl) == 1, repr(targets), ctx.where(rr))
    st = [r for r, c in ctx.raises_in(rr) if c == 'ILLEGAL_FUNCTION_CALL']
    rep.ob('args.step-positive', 'RENUM with step < 1 raises IFC', len(st) == 1 and flr.knows(st[0], 'step is not None and step < 1', True), '', ctx.where(rr))
    rep.ob('args.stacks-cleared', 'RENUM clears the loop/gosub stacks', any(norm(c.func) == 'self._clear_stacks' for c in own_nodes(rr) if isinstance(c, ast.Call)), '', ctx.where(rr))


def variants(ctx):
    Va = mu.Variant

    def in_fn(path_fn, f):
        return lambda tree: f(mu.find_def(tree, path_fn))

    return [
        Va('renum-defaults-by-truthiness', 'break', PROGRAM,
           in_fn('Program.renum', lambda fn: mu.replace_expr(fn, mu.text_is('10 if new_line is None else new_line'), 'new_line or 10')), expect='arguments.zero-is-not-omitted'),
        Va('restore-not-a-linenum-word', 'break', TOK,
           lambda tree: mu.replace_expr(mu.find_def(tree, 'Tokeniser'), mu.text_is('tk.KW_RESTORE'), 'tk.KW_REM'), expect='reference-kinds'),
        Va('scan-stops-at-first-missing', 'break', PROGRAM,
           in_fn('Program.renum', lambda fn: mu.replace_stmt(fn, mu.text_is('newjump = jumpnum'), 'break')), expect='scan'),
        Va('scan-skips-all-zero-targets', 'break', PROGRAM,
           in_fn('Program.renum', lambda fn: mu.replace_expr(fn, mu.text_is('ins.backskip_blank() == tk.GOTO and ins.backskip_blank() == tk.ERROR'),
                                                             'ins.backskip_blank() == tk.GOTO')), expect='scan.only-skip'),
        Va('line-dictionary-rekeyed-before-scan', 'break', PROGRAM, in_fn('Program.renum', _rekey_first), expect='order.rekey-after-reference-scan'),
        Va('scan-starts-at-first-renumbered-line', 'break', PROGRAM,
           in_fn('Program.renum', lambda fn: mu.replace_stmt(fn, mu.text_is('ins.seek(0)'), 'ins.seek(self.line_numbers[min(old_to_new)] if old_to_new else 0)')),
           expect='scan.from-start'),
        Va('numbering-unsorted', 'break', PROGRAM,
           in_fn('Program.renum', lambda fn: mu.replace_expr(fn, mu.text_is('sorted((_k for _k in self.line_numbers.keys() if _k >= start_line))'),
                                                             'list((_k for _k in self.line_numbers.keys() if _k >= start_line))')), expect='numbering.ascending'),
        Va('numbering-step-before-assign', 'break', PROGRAM, in_fn('Program.renum', _step_first), expect='numbering.consecutive'),
        Va('overlap-check-dropped', 'break', PROGRAM,
           in_fn('Program.renum', lambda fn: mu.remove_stmt(fn, mu.stmt_has('remaining and new_line <= max(remaining)', ast.If))), expect='numbering.no-overlap'),
        Va('own-number-not-written', 'break', PROGRAM,
           in_fn('Program.renum', lambda fn: mu.replace_stmt(fn, mu.stmt_has("self.bytecode.write(struct.pack('<H', old_to_new[old_line]))", ast.Expr), 'pass')),
           expect='own-number'),
        Va('trap-lookup-partial-again', 'break', INTERP,
           in_fn('Interpreter.renum_', lambda fn: mu.replace_expr(fn, mu.text_is('old_to_new.get(self.on_error, self.on_error)'), 'old_to_new[self.on_error]')),
           expect='traps.total-lookup'),
        Va('event-traps-not-remapped', 'break', INTERP,
           in_fn('Interpreter.renum_', lambda fn: mu.remove_stmt(fn, lambda st: isinstance(st, ast.For) and 'self._basic_events.all' in norm(st.iter))),
           expect='traps'),
        Va('trap-default-zero', 'break', INTERP,
           in_fn('Interpreter.renum_', lambda fn: mu.replace_expr(fn, mu.text_is('old_to_new.get(handler.gosub, handler.gosub)'), 'old_to_new.get(handler.gosub, 0)')),
           expect='traps.total-lookup'),
        Va('trap-lookup-with-in-test', 'neutral', INTERP,
           in_fn('Interpreter.renum_', lambda fn: mu.replace_stmt(fn, lambda st: isinstance(st, ast.If) and norm(st.test) == 'self.on_error',
                                                                  'if self.on_error and self.on_error in old_to_new:\n    self.on_error = old_to_new[self.on_error]'))),
    ]


def _step_first(fn):
    for n in ast.walk(fn):
        if isinstance(n, ast.For) and 'sorted(' in norm(n.iter):
            a = [s for s in n.body if norm(s) == 'old_to_new[old_line] = new_line'][0]
            b = [s for s in n.body if norm(s) == 'new_line += step'][0]
            n.body.remove(b)
            n.body.insert(n.body.index(a), b)
            return True
    return False


def _rekey_first(fn):
    """Move the re-keying of self.line_numbers in front of the reference scan."""
    lp = [w for w in fn.body if isinstance(w, ast.While)]
    i0 = [i for i, st in enumerate(fn.body) if norm(st) == 'new_lines = {}']
    if len(lp) != 1 or len(i0) != 1:
        return False
    block = fn.body[i0[0]:i0[0] + 3]
    del fn.body[i0[0]:i0[0] + 3]
    k = fn.body.index(lp[0]) - 2
    fn.body[k:k] = block
    return True

"""
C24 -- sequential files (writer / reader protocol agreement only).

That the values read back equal the values written is a property of runtime
strings pushed through a character state machine and is NOT decided.  What is
decided is that the pieces of the on-disk protocol agree with each other, each
being a necessary condition of the stated round trips:
 * end-of-file marker: a text file opened for OUTPUT or APPEND gets exactly one
   0x1A when it is closed (before the stream is closed); opening for APPEND first
   cuts a trailing 0x1A from the existing file, then opens in the host append
   mode and positions at the end; EOF() is false for files being written and,
   for files being read, true exactly when the next byte is absent or 0x1A --
   the same byte in all three places;
 * LOF: size by seek-to-end / tell, position restored afterwards;
 * line ends: write_line of a disk text file appends CR LF, the reader's
   read_one folds CR LF into CR (but not LF CR), read_line stops at CR and at
   255 characters;
 * WRITE #: strings are wrapped in the quote character INPUT # recognises,
   numbers are written by to_repr without leading space or type sign, items
   are joined by the comma INPUT # splits on, and the record ends with
   write_line;
 * INPUT #: an entry ends at a comma or CR only outside quotes, a quoted entry
   at the closing quote; NUL bytes are dropped; reading with nothing left
   raises Input past end unless the caller allows it; the mode sets agree
   (WRITE#/PRINT# need O, A or R; INPUT$ needs I or R).
"""
import ast

from ..source import norm, short, qualname
from ..flow import own_nodes
from .. import mutate as mu

PROP = 'C24'
LEVEL = 'other'
TECHNIQUE = 'static analysis: writer/reader protocol agreement (EOF marker, line ends, separators, quote character), statement order and path facts'
EXPLANATION = __doc__

DF = 'pcbasic/basic/devices/diskfiles.py'
DB = 'pcbasic/basic/devices/devicebase.py'
DISK = 'pcbasic/basic/devices/disk.py'
FILES = 'pcbasic/basic/devices/files.py'


def _calls(fn, text):
    return [c for c in own_nodes(fn) if isinstance(c, ast.Call) and norm(c.func) == text]


def _real(body):
    return [x for x in body if not (isinstance(x, ast.Expr) and isinstance(x.value, ast.Constant))]


def check(ctx, rep):
    # LOF and LOC can exceed 32767: they are returned as single-precision numbers, never as integers
    for meth in ('lof_', 'loc_'):
        fn = ctx.fn('pcbasic/basic/devices/files.py:Files.' + meth)
        rets = [r for r in own_nodes(fn) if isinstance(r, ast.Return) and r.value is not None]
        rep.ob('lof.wide-enough', 'Files.%s returns self._values.new_single().from_int(...)' % meth,
               len(rets) == 1 and norm(rets[0].value).startswith('self._values.new_single().from_int('),
               '%s: Overflow for files / record numbers of 32768 and more' % [norm(r.value) for r in rets], ctx.where(fn))
    # an item read into a string variable is kept as read: leading blanks (inside the quotes) belong to the string, so the
    # string case returns before anything is stripped from the word
    fr_ = ctx.fn('pcbasic/basic/values/values.py:Values.from_repr')
    flr = ctx.flow(fr_)
    sret = [r for r in own_nodes(fr_) if isinstance(r, ast.Return) and any(f.pol and f.text == 'typechar == STR' for f in flr.facts(r))]
    strips = [a for a in own_nodes(fr_) if isinstance(a, ast.Assign) and norm(a.targets[0]) == 'word']
    rep.ob('input.string-items-kept-verbatim', 'from_repr returns a string item before the word is stripped or upper-cased',
           len(sret) == 1 and norm(sret[0].value) == 'self.new_string().from_str(word)' and all(sret[0].lineno < a.lineno for a in strips),
           'INPUT# of " ab" (quoted) comes back as "ab"', ctx.where(fr_))
    from ..sigils import check as _sigils
    _sigils(ctx, rep, ['pcbasic/basic/implementation.py:Implementation._input_file'], 1, from_params=('readvar',))
    # ---- EOF marker --------------------------------------------------------------------------------------
    cl = ctx.fn(DF + ':TextFile.close')
    fl = ctx.flow(cl)
    w = [c for c in _calls(cl, 'self._fhandle.write') if c.args and isinstance(c.args[0], ast.Constant)]
    base_close = _calls(cl, 'TextFileBase.close')
    marker = w[0].args[0].value if len(w) == 1 else None
    rep.ob('eof-marker.written-on-close', 'closing a text file opened for OUTPUT or APPEND writes one 0x1A, before the stream is closed',
           len(w) == 1 and marker == b'\x1a' and fl.knows(w[0], "self.mode in (b'O', b'A')", True) and len(base_close) == 1 and w[0].lineno < base_close[0].lineno
           and any('safe_io' in x for x in fl.with_items(w[0])), repr(marker), ctx.where(cl))
    osm = ctx.fn(DISK + ':DiskDevice.open_stream')
    flo = ctx.flow(osm)
    trunc = _calls(osm, 'f.truncate')
    cmpm = [c for c in own_nodes(osm) if isinstance(c, ast.Compare) and norm(c.left) == 'f.read(1)' and isinstance(c.comparators[0], ast.Constant)]
    final_open = [a for a in own_nodes(osm) if isinstance(a, ast.Assign) and norm(a.targets[0]) == 'stream']
    ok = len(trunc) == 1 and len(cmpm) == 1 and cmpm[0].comparators[0].value == marker and isinstance(cmpm[0].ops[0], ast.Eq) \
        and flo.knows(trunc[0], "mode == b'A'", True) and flo.knows(trunc[0], norm(cmpm[0]), True) and len(final_open) == 1 and trunc[0].lineno < final_open[0].lineno
    seeks = [norm(c) for c in _calls(osm, 'f.seek')]
    rep.ob('eof-marker.cut-before-append', 'APPEND: a trailing 0x1A of the existing file is cut off before the stream is opened for appending',
           ok and seeks == ['f.seek(-1, 2)', 'f.seek(-1, 1)'], repr(seeks), ctx.where(osm))
    am = ctx.const(DISK, 'ACCESS_MODES')
    rep.ob('append.host-mode', "APPEND opens the host file in append mode, OUTPUT truncates, INPUT is read-only", am.get(b'A') == 'a' and am.get(b'O') == 'w' and am.get(b'I') == 'r', repr(am), DISK)
    ini = ctx.fn(DF + ':TextFile.__init__')
    fli = ctx.flow(ini)
    sk = [c for c in _calls(ini, 'self._fhandle.seek') if [norm(a) for a in c.args] == ['0', '2']]
    rep.ob('append.positions-at-end', 'a text file opened for APPEND starts at the end of the file', len(sk) == 1 and fli.knows(sk[0], "self.mode == b'A'", True), '', ctx.where(ini))
    eof = ctx.fn(DB + ':TextFileBase.eof')
    fle = ctx.flow(eof)
    rets = [r for r in own_nodes(eof) if isinstance(r, ast.Return)]
    wr = [r for r in rets if norm(r.value) == 'False' and fle.knows(r, "self.mode in (b'A', b'O')", True)]
    rd = [r for r in rets if isinstance(r.value, ast.Compare) and norm(r.value.left) == 'self.peek(1)' and isinstance(r.value.ops[0], ast.In)]
    ends = ctx.fold(rd[0].value.comparators[0]) if len(rd) == 1 else None
    rep.ob('eof-marker.reader', 'EOF(): false while writing; while reading, true iff nothing or 0x1A comes next',
           len(rets) == 2 and len(wr) == 1 and len(rd) == 1 and isinstance(ends, tuple) and set(ends) == {b'', marker}, repr(ends), ctx.where(eof))
    # ---- LOF ---------------------------------------------------------------------------------------------
    lof = ctx.fn(DF + ':TextFile.lof')
    inner = []
    for st in lof.body:
        if isinstance(st, ast.With):
            inner = [norm(x) for x in st.body]
    rep.ob('lof.size-and-restore', 'LOF: remember position, seek to the end, take the size, seek back',
           inner == ['current = self._fhandle.tell()', 'self._fhandle.seek(0, 2)', 'lof = self._fhandle.tell()', 'self._fhandle.seek(current)']
           and norm(_real(lof.body)[-1]) == 'return lof', repr(inner), ctx.where(lof))
    # ---- line ends -------------------------------------------------------------------------------------------
    wl = ctx.fn(DF + ':TextFile.write_line')
    body = [norm(x) for x in _real(wl.body)]
    rep.ob('lines.writer-crlf', 'write_line of a disk text file ends the line with CR LF', body == ["self.write(s + b'\\r\\n')"], repr(body), ctx.where(wl))
    ro = ctx.fn(DF + ':TextFile.read_one')
    tests = [norm(n.test) for n in own_nodes(ro) if isinstance(n, ast.If)]
    rep.ob('lines.reader-folds-crlf', 'read_one reports CR LF as CR (but leaves LF CR alone)',
           "c == b'\\r' and self._previous != b'\\n' and (self.peek(1) == b'\\n')" in tests or "(c == b'\\r' and self._previous != b'\\n') and self.peek(1) == b'\\n'" in tests,
           repr(tests), ctx.where(ro))
    rl = ctx.fn(DF + ':TextFile.read_line')
    tests = [norm(n.test) for n in own_nodes(rl) if isinstance(n, ast.If)]
    rep.ob('lines.reader-breaks-at-cr', 'read_line ends at CR (not after LF) or at end of file, and at 255 characters',
           "not c or (c == b'\\r' and self._previous != b'\\n')" in tests and 'len(s) == 255' in tests, repr(tests), ctx.where(rl))
    # ---- WRITE # ---------------------------------------------------------------------------------------------
    wf = ctx.fn(FILES + ':Files.write_')
    flw = ctx.flow(wf)
    apps = [c for c in _calls(wf, 'outstrs.append')]
    quote = None
    strs = [c for c in apps if flw.knows(c, 'isinstance(expr, values.String)', True)]
    nums = [c for c in apps if flw.knows(c, 'isinstance(expr, values.String)', False)]
    if len(strs) == 1 and isinstance(strs[0].args[0], ast.BinOp) and isinstance(strs[0].args[0].left, ast.Constant):
        fmt = strs[0].args[0].left.value
        if isinstance(fmt, bytes) and fmt[1:-1] == b'%s' and fmt[:1] == fmt[-1:]:
            quote = fmt[:1]
    rep.ob('write.strings-quoted', 'WRITE wraps strings in double quotes', quote == b'"' and len(strs) == 1 and norm(strs[0].args[0].right) == 'expr.to_str()', repr(quote), ctx.where(wf))
    rep.ob('write.numbers-plain', 'WRITE writes numbers without leading space or type sign',
           len(nums) == 1 and norm(nums[0].args[0]) == 'values.to_repr(expr, leading_space=False, type_sign=False)', '', ctx.where(wf))
    wls = _calls(wf, 'output.write_line')
    sep = None
    if len(wls) == 1 and isinstance(wls[0].args[0], ast.Call) and isinstance(wls[0].args[0].func, ast.Attribute) and wls[0].args[0].func.attr == 'join' \
            and isinstance(wls[0].args[0].func.value, ast.Constant):
        sep = wls[0].args[0].func.value.value
    rep.ob('write.comma-separated-record', 'the items are joined with commas and written as one line', sep == b',' and norm(wls[0].args[0].args[0]) == 'outstrs', repr(sep), ctx.where(wf))
    getm = [c for c in _calls(wf, 'self.get') if len(c.args) == 2]
    rep.ob('write.needs-output-mode', 'WRITE # needs a file open for OUTPUT, APPEND or RANDOM', len(getm) == 1 and sorted(ctx.fold(getm[0].args[1]).decode()) == ['A', 'O', 'R'], '', ctx.where(wf))
    # ---- INPUT # -----------------------------------------------------------------------------------------------
    ie = ctx.fn(DB + ':InputMixin.input_entry')
    loops = [n for n in own_nodes(ie) if isinstance(n, ast.While)]
    ok = len(loops) == 1
    lt = norm(loops[0].test) if ok else ''
    parts = []
    if ok:
        t_ = loops[0].test
        if isinstance(t_, ast.BoolOp) and isinstance(t_.op, ast.And) and len(t_.values) == 2 and norm(t_.values[0]) == 'c' \
                and isinstance(t_.values[1], ast.UnaryOp) and isinstance(t_.values[1].op, ast.Not) and isinstance(t_.values[1].operand, ast.BoolOp) \
                and isinstance(t_.values[1].operand.op, ast.Or):
            parts = sorted(norm(v) for v in t_.values[1].operand.values)
    rep.ob('input.entry-ends-at-separator', 'an entry ends at a comma or CR outside quotes (and at a soft separator for numbers)',
           parts == sorted(["c in b',\\r' and (not quoted)", 'typechar != values.STR and c in self.soft_sep']), repr(parts) or lt, ctx.where(ie))
    fli = ctx.flow(ie)
    qa = [a for a in own_nodes(ie) if isinstance(a, ast.Assign) and norm(a.targets[0]) == 'quoted']
    okq = len(qa) == 1 and isinstance(qa[0].value, ast.BoolOp) and any(norm(v) == "c == b'\"'" for v in qa[0].value.values) \
        and any(norm(v) == 'typechar == values.STR' for v in qa[0].value.values)
    rep.ob('input.quote-agrees-with-writer', 'INPUT # takes a leading double quote of a string entry as the quote WRITE # puts there', okq and quote == b'"', norm(qa[0].value) if qa else '', ctx.where(ie))
    brk = [b for b in own_nodes(loops[0]) if isinstance(b, ast.Break)] if ok else []
    rep.ob('input.closing-quote-ends-entry', 'a quoted entry ends at the closing quote', any(fli.knows(b, "c == b'\"' and quoted", True) for b in brk), '', ctx.where(ie))
    nxt = [a for a in own_nodes(loops[0]) if isinstance(a, ast.Assign) and norm(a.targets[0]) == 'c' and isinstance(a._parent, ast.If)
           and norm(a._parent.test) == 'not quoted'] if ok else []
    kinds = dict(('outside' if a in a._parent.body else 'inside', norm(a.value)) for a in nxt)
    rep.ob('input.no-line-end-folding-inside-quotes', 'inside quotes the next byte is read raw; outside, CR LF is folded by read_one',
           kinds == {'outside': 'self.read_one()', 'inside': 'self.read(1)'}, repr(kinds), ctx.where(ie))
    nul = [n for n in own_nodes(ie) if isinstance(n, ast.If) and norm(n.test) == "c == b'\\x00'"]
    rep.ob('input.nul-dropped', 'NUL bytes are dropped from entries', len(nul) == 1 and [norm(x) for x in nul[0].body] == ['pass'], '', ctx.where(ie))
    ipe = [r for r, c in ctx.raises_in(ie) if c == 'INPUT_PAST_END']
    rep.ob('input.past-end', 'nothing left to read raises Input past end unless the caller allows reading past the end',
           len(ipe) == 1 and any(f.pol and 'not c and (not allow_past_end)' in f.text for f in fli.facts(ipe[0])), '', ctx.where(ie))
    rep.ob('input.separator-agrees-with-writer', 'the separator INPUT # splits on is the one WRITE # joins with', sep == b',' and any("c in b',\\r'" in p_ for p_ in parts), '', ctx.where(ie))
    # LINE INPUT #: like the ASCII program loader, end of file is "no text and no line terminator"; an empty line
    # (terminator only) is a line
    li = ctx.fn('pcbasic/basic/implementation.py:Implementation.line_input_')
    flli = ctx.flow(li)
    ipe2 = [r for r, c in ctx.raises_in(li) if c == 'INPUT_PAST_END']
    atoms = set()
    for r in ipe2:
        for f in flli.facts(r):
            if f.pol:
                atoms |= set(x.strip() for x in f.text.split(' and '))
    rep.ob('lineinput.eof-needs-no-terminator', 'LINE INPUT # raises Input past end only when neither text nor a line terminator was read',
           len(ipe2) == 1 and {'not line', 'not cr'} <= atoms, 'raised under %s: an empty line in the file ends the reading' % sorted(atoms), ctx.where(li))
    # swallowing the LF of CR LF must not disturb what read_line uses to recognise line ends: the previous /
    # current character pair is saved before the LF is consumed and put back afterwards
    save = [a for a in own_nodes(ro) if isinstance(a, ast.Assign) and norm(a.value) == '(self._previous, self._current)']
    rest = [a for a in own_nodes(ro) if isinstance(a, ast.Assign) and norm(a.targets[0]) == '(self._previous, self._current)']
    eat = [c for c in own_nodes(ro) if isinstance(c, ast.Expr) and norm(c.value) == 'self.read(1)']
    rep.ob('lines.lf-swallowed-invisibly', 'read_one restores the previous/current characters after swallowing the LF of a CR LF pair',
           len(save) == 1 and len(rest) == 1 and len(eat) == 1 and save[0].lineno < eat[0].lineno < rest[0].lineno
           and [norm(e) for e in save[0].targets[0].elts] == [norm(e) for e in rest[0].value.elts],
           'after CR LF the reader believes the last character was LF: a following empty line (CR LF CR LF) is not seen as a line end', ctx.where(ro))
    inp = ctx.fn(FILES + ':Files.input_')
    g = [c for c in _calls(inp, 'self.get')]
    modes = [ctx.fold(k.value) for c in g for k in c.keywords if k.arg == 'mode']
    rep.ob('input.needs-input-mode', 'INPUT$ needs a file open for INPUT or RANDOM', modes == [b'IR'], repr(modes), ctx.where(inp))


def variants(ctx):
    Va = mu.Variant

    def fn(path, name, f):
        return Va  # placeholder to keep flake quiet

    def t(dotted, f):
        return lambda tree: f(mu.find_def(tree, dotted))
    return [
        mu.Variant('lof-returned-as-integer', 'break', 'pcbasic/basic/devices/files.py',
                   lambda tree: mu.replace_expr(mu.find_def(tree, 'Files.lof_'), mu.text_is('self._values.new_single()'), 'self._values.new_integer()'), expect='lof.wide-enough'),
        mu.Variant('string-items-stripped-of-leading-blanks', 'break', 'pcbasic/basic/values/values.py',
                   lambda tree: _strip_first(mu.find_def(tree, 'Values.from_repr')), expect='input.string-items-kept-verbatim'),
        mu.Variant('input-file-types-the-item-from-the-uncompleted-name', 'break', 'pcbasic/basic/implementation.py',
                   lambda tree: mu.replace_expr(mu.find_def(tree, 'Implementation._input_file'), mu.text_is('self.memory.complete_name(name)[-1:]'), 'name[-1:]'),
                   expect='names.sigil-read-from-completed-name'),
        Va('no-eof-marker-on-close', 'break', DF, t('TextFile.close', lambda f: mu.remove_stmt(f, lambda st: isinstance(st, ast.If) and 'x1a' in norm(st))), expect='eof-marker.written'),
        Va('eof-marker-after-close', 'break', DF, t('TextFile.close', _marker_last), expect='eof-marker.written'),
        Va('append-keeps-old-marker', 'break', DISK,
           t('DiskDevice.open_stream', lambda f: mu.replace_expr(f, mu.text_is("f.read(1) == b'\\x1a'"), "f.read(1) == b'\\x00'")), expect='eof-marker.cut'),
        Va('append-opens-truncating', 'break', DISK,
           lambda tree: mu.set_dict_value(mu.find_assign_value(tree, 'ACCESS_MODES'), "b'A'", "'w'"), expect='append.host-mode'),
        Va('append-starts-at-beginning', 'break', DF, t('TextFile.__init__', lambda f: mu.replace_expr(f, mu.text_is('self._fhandle.seek(0, 2)'), 'self._fhandle.seek(0, 0)')), expect='append.positions'),
        Va('eof-ignores-marker', 'break', DB, t('TextFileBase.eof', lambda f: mu.replace_expr(f, mu.text_is("(b'', b'\\x1a')"), "(b'',)")), expect='eof-marker.reader'),
        Va('lof-leaves-position-at-end', 'break', DF, t('TextFile.lof', lambda f: mu.remove_stmt(f, mu.text_is('self._fhandle.seek(current)'))), expect='lof.'),
        Va('write-line-cr-only', 'break', DF, t('TextFile.write_line', lambda f: mu.replace_expr(f, mu.text_is("s + b'\\r\\n'"), "s + b'\\r'")), expect='lines.writer'),
        Va('write-strings-unquoted', 'break', FILES, t('Files.write_', lambda f: mu.replace_expr(f, mu.text_is("b'\"%s\"' % expr.to_str()"), 'expr.to_str()')), expect='write.strings'),
        Va('write-semicolon-separated', 'break', FILES, t('Files.write_', lambda f: mu.replace_expr(f, mu.text_is("b','.join(outstrs)"), "b';'.join(outstrs)", count=1)), expect='write.comma'),
        Va('write-numbers-with-leading-space', 'break', FILES,
           t('Files.write_', lambda f: mu.replace_expr(f, mu.text_is('values.to_repr(expr, leading_space=False, type_sign=False)'), 'values.to_repr(expr, leading_space=True, type_sign=False)')),
           expect='write.numbers'),
        Va('input-splits-inside-quotes', 'break', DB,
           t('InputMixin.input_entry', lambda f: mu.replace_expr(f, mu.text_is("c in b',\\r' and (not quoted)"), "c in b',\\r'")), expect='input.entry-ends'),
        Va('line-input-ends-at-empty-line', 'break', 'pcbasic/basic/implementation.py',
           t('Implementation.line_input_', lambda f: mu.replace_expr(f, mu.text_is('not line and (not cr)'), 'not line')), expect='lineinput.eof'),
        Va('lf-swallow-disturbs-line-ends', 'break', DF,
           t('TextFile.read_one', lambda f: mu.remove_stmt(f, lambda st: isinstance(st, ast.Assign) and norm(st.targets[0]) == '(self._previous, self._current)')), expect='lines.lf-swallowed'),
        Va('quoted-strings-lose-linefeeds', 'break', DB,
           t('InputMixin.input_entry', lambda f: mu.replace_stmt(f, mu.text_is('c = self.read(1)'), 'c = self.read_one()')), expect='input.no-line-end-folding'),
        Va('input-keeps-nul', 'break', DB, t('InputMixin.input_entry', _keep_nul), expect='input.nul'),
        Va('input-past-end-silent', 'break', DB,
           t('InputMixin.input_entry', lambda f: mu.remove_stmt(f, lambda st: isinstance(st, ast.If) and 'INPUT_PAST_END' in norm(st))), expect='input.past-end'),
        Va('neutral-rename', 'neutral', DB, t('InputMixin.input_entry', lambda f: mu.rename_local(f, 'blanks', 'pending'))),
    ]


def _marker_last(f):
    iff = [s for s in f.body if isinstance(s, ast.If) and 'x1a' in norm(s)]
    cl = [s for s in f.body if 'TextFileBase.close' in norm(s)]
    if len(iff) != 1 or len(cl) != 1:
        return False
    f.body.remove(iff[0])
    f.body.insert(f.body.index(cl[0]) + 1, iff[0])
    return True


def _keep_nul(f):
    for n in ast.walk(f):
        if isinstance(n, ast.If) and norm(n.test) == "c == b'\\x00'":
            n.test = ast.parse('False', mode='eval').body
            return True
    return False


def _strip_first(fn):
    st = [x for x in fn.body if isinstance(x, ast.Assign) and norm(x.targets[0]) == 'word' and 'lstrip' in norm(x.value)]
    if len(st) != 1:
        return False
    fn.body.remove(st[0])
    k = 1 if isinstance(fn.body[0], ast.Expr) and isinstance(fn.body[0].value, ast.Constant) else 0
    fn.body.insert(k, st[0])
    return True


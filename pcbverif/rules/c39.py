"""
C39 -- RND is a deterministic full-period sequence in [0, 1).   (level: proof)

Obligations discharged by the checker itself:
 1. the state update in Randomiser._cycle has the linear congruential shape
    seed' = (seed*a + c) % m with a, c, m the folded class constants;
 2. Hull-Dobell: gcd(c, m) = 1; a-1 divisible by every prime factor of m;
    4 | m  =>  4 | a-1  -- hence the sequence has full period m; m == 2**24;
 3. every write to _seed (found by scanning all of pcbasic/ for stores to that
    attribute) is either a constant in [0, m) or is followed on every path, in
    the same method, by a reduction (`%= _period` or a _cycle() call) before
    the method returns -- so rnd_ always divides a value in [0, m);
 4. RND(0) takes a path with no write and no _cycle(); RND and RND(x>0) call
    _cycle() exactly once; RND(x<0) reseeds from the mantissa, then cycles;
 5. the result is from_int(seed) / from_int(period) in single precision and
    m - 1 fits the 24-bit single mantissa (so seed/2^24 is exact and < 1);
 6. clear() stores a constant seed and the reset path of RUN/CLEAR/NEW
    (Implementation._clear_all) calls randomiser.clear(); reseed() depends on
    its argument's bytes and constants only (after masking the old seed to a
    byte and cycling -- GW behaviour).
"""
import ast
from math import gcd

from ..source import norm, short, class_assigns, AnalysisError
from ..flow import own_nodes, must_follow
from .. import mutate as mu

PROP = 'C39'
LEVEL = 'proof'
TECHNIQUE = 'static analysis + checker-side arithmetic proof: folded LCG constants satisfy Hull-Dobell; who-writes-the-seed ownership and must-follow reduction'
EXPLANATION = __doc__
ASSUMPTIONS = [
    'Hull-Dobell theorem (1962): an LCG x -> (a*x + c) mod m has period m iff gcd(c,m)=1, p | a-1 for every prime p | m, and 4 | a-1 if 4 | m',
    'Single.from_int is exact for |n| < 2^24 (24-bit mantissa), division by a power of two is exact in MBF',
]

R = 'pcbasic/basic/values/randomiser.py'
IMPL = 'pcbasic/basic/implementation.py'


def _prime_factors(n):
    out, p = set(), 2
    while p * p <= n:
        while n % p == 0:
            out.add(p)
            n //= p
        p += 1
    if n > 1:
        out.add(n)
    return out


def _flatten(node, op):
    if isinstance(node, ast.BinOp) and isinstance(node.op, op):
        return _flatten(node.left, op) + _flatten(node.right, op)
    return [node]


def _reseed_mask(ctx, rep):
    """reseed() folds the third and fourth byte from the end into the seed for every value that has them: singles (4 bytes)
    and doubles (8), not integers (2)."""
    rs = ctx.fn('pcbasic/basic/values/randomiser.py:Randomiser.reseed')
    guards = [i for i in own_nodes(rs) if isinstance(i, ast.If) and isinstance(i.test, ast.Compare) and norm(i.test.left) == 'len(s)'
              and any(isinstance(a, ast.Assign) and norm(a.targets[0]) == 'mask' for a in i.body)]
    ok = False
    table = None
    if len(guards) == 1:
        t = guards[0].test
        k = ctx.fold(t.comparators[0])
        if isinstance(k, int) and len(t.ops) == 1:
            import operator
            ops = {ast.Gt: operator.gt, ast.GtE: operator.ge, ast.Lt: operator.lt, ast.LtE: operator.le, ast.Eq: operator.eq, ast.NotEq: operator.ne}
            f = ops.get(type(t.ops[0]))
            if f:
                table = dict((n, f(n, k)) for n in (2, 4, 8))
                ok = table == {2: False, 4: True, 8: True}
    rep.ob('reseed.mask-for-singles-and-doubles', 'reseed: the mask bytes are taken for 4- and 8-byte values, not for 2-byte ones', ok,
           'by value size: %r -- RANDOMIZE with a single whose low mantissa bytes are not zero (1.1, 40000, TIMER) no longer gives the reference sequence' % (table,), ctx.where(rs))


def check(ctx, rep):
    _reseed_mask(ctx, rep)
    cls = ctx.cls(R + ':Randomiser')
    ca = class_assigns(cls)
    consts = {}
    for k in ('_period', '_multiplier', '_increment', '_step'):
        if k not in ca:
            raise AnalysisError('Randomiser.%s missing' % k)
        consts[k] = ctx.fold(ca[k])
    m, a, c = consts['_period'], consts['_multiplier'], consts['_increment']
    rep.note('constants', consts)
    # 1. shape of _cycle
    cyc = ctx.fn(R + ':Randomiser._cycle')
    st = [s for s in cyc.body if isinstance(s, ast.Assign)]
    ok = False
    detail = 'no single assignment'
    if len(st) == 1 and norm(st[0].targets[0]) == 'self._seed':
        v = st[0].value
        detail = norm(v)
        if isinstance(v, ast.BinOp) and isinstance(v.op, ast.Mod) and norm(v.right) == 'self._period':
            terms = _flatten(v.left, ast.Add)
            if len(terms) == 2:
                prod = [t for t in terms if isinstance(t, ast.BinOp) and isinstance(t.op, ast.Mult)]
                rest = [t for t in terms if t not in prod]
                if len(prod) == 1 and len(rest) == 1 and norm(rest[0]) == 'self._increment':
                    fac = sorted(norm(f) for f in _flatten(prod[0], ast.Mult))
                    ok = fac == ['self._multiplier', 'self._seed']
    rep.ob('lcg.shape', '_cycle: seed = (seed*multiplier + increment) % period', ok, detail, ctx.where(cyc))
    # 2. Hull-Dobell
    ints = all(isinstance(x, int) and x > 0 for x in (m, a, c))
    rep.ob('lcg.constants-fold', 'period, multiplier, increment fold to positive integers', ints, repr(consts), R)
    if ints:
        rep.ob('hull-dobell.gcd', 'gcd(increment, period) == 1', gcd(c, m) == 1, 'gcd=%d' % gcd(c, m), R)
        pf = _prime_factors(m)
        rep.ob('hull-dobell.prime-factors', 'every prime factor of period divides multiplier-1',
               all((a - 1) % p == 0 for p in pf), 'prime factors %r, a-1=%d' % (sorted(pf), a - 1), R)
        rep.ob('hull-dobell.four', '4 | period implies 4 | multiplier-1', (m % 4 != 0) or ((a - 1) % 4 == 0), 'a mod 4 = %d' % (a % 4), R)
        rep.ob('lcg.period-2^24', 'period == 2**24', m == 2 ** 24, str(m), R)
    # 3. writes to _seed anywhere in the package
    writes = []
    for fn in ctx.idx.functions('pcbasic/'):
        for n in own_nodes(fn):
            tg = None
            if isinstance(n, ast.Assign):
                tg = [t for t in n.targets if isinstance(t, ast.Attribute) and t.attr == '_seed']
            elif isinstance(n, ast.AugAssign) and isinstance(n.target, ast.Attribute) and n.target.attr == '_seed':
                tg = [n.target]
            if tg:
                writes.append((fn, n))
    rep.floor('seed.writes', len(writes), 5, 'stores to _seed')
    reduced = lambda s: (
        (isinstance(s, ast.AugAssign) and isinstance(s.op, ast.Mod) and norm(s.target) == 'self._seed' and norm(s.value) == 'self._period')
        or (isinstance(s, ast.Expr) and norm(s.value) == 'self._cycle()'))
    for fn, w in writes:
        owner = fn._parent.name if isinstance(fn._parent, ast.ClassDef) else '<module>'
        construct = '%s.%s: %s' % (owner, fn.name, short(w))
        rep.ob('seed.owned-by-randomiser', construct, owner == 'Randomiser' and fn._module.path == R,
               'seed written outside Randomiser', ctx.where(w))
        if isinstance(w, ast.Assign):
            v = ctx.fold(w.value)
            if isinstance(v, int) and not isinstance(v, bool):
                rep.ob('seed.in-range', construct, ints and 0 <= v < m, 'constant %r' % (v,), ctx.where(w))
                continue
            if fn.name == '_cycle':
                continue  # reduced by construction (obligation lcg.shape)
        if reduced(w):
            continue
        rep.ob('seed.reduced-before-use', construct, must_follow(w, reduced),
               'a non-constant seed store is not followed on every path by %= _period or _cycle()', ctx.where(w))
    # RANDOMIZE n seeds from n as given (floats by their bytes); only a seed typed at the prompt is rounded to an integer
    rz = ctx.fn('pcbasic/basic/implementation.py:Implementation.randomize_')
    flz = ctx.flow(rz)
    ti = [a for a in own_nodes(rz) if isinstance(a, ast.Assign) and norm(a.targets[0]) == 'val' and norm(a.value) == 'values.to_integer(val)']
    rs_ = [c for c in own_nodes(rz) if isinstance(c, ast.Call) and norm(c.func) == 'self.randomiser.reseed']
    rep.ob('randomize.argument-as-given', 'RANDOMIZE rounds only a seed entered at the prompt; an argument reaches reseed() unrounded',
           len(ti) == 1 and isinstance(ti[0]._parent, ast.If) and norm(ti[0]._parent.test) == 'val is not None' and ti[0] in ti[0]._parent.orelse and len(rs_) == 1 and [norm(a) for a in rs_[0].args] == ['val'],
           'every argument is rounded first: RANDOMIZE 40000 raises Overflow and does not reseed; .25 seeds like 0', ctx.where(rz))
    # 4. rnd_ paths
    rnd = ctx.fn(R + ':Randomiser.rnd_')
    fl = ctx.flow(rnd)
    cyc_calls = [n for n in own_nodes(rnd) if isinstance(n, ast.Call) and norm(n.func) == 'self._cycle']
    ctxs = []
    for cc in cyc_calls:
        facts = dict((f.text, f.pol) for f in fl.facts(cc))
        ctxs.append((facts.get('f is None'), facts.get('f.is_zero()'), facts.get('f.is_negative()')))
    rep.ob('rnd.cycle-once-per-call', 'RND / RND(x<>0) cycle exactly once; RND(0) does not',
           sorted(ctxs, key=repr) == sorted([(True, None, None), (None, False, None)], key=repr),
           'cycle contexts (f is None, f.is_zero(), f.is_negative()) = %r: the generator must advance for every non-zero argument, whatever its sign' % ctxs, ctx.where(rnd))
    for fn, w in writes:
        if fn is rnd:
            facts = dict((f.text, f.pol) for f in fl.facts(w))
            rep.ob('rnd.reseed-only-for-negative', 'rnd_: %s' % short(w),
                   facts.get('f.is_negative()') is True and facts.get('f.is_zero()') is False and norm(w.value) == '-f.mantissa()',
                   repr(facts), ctx.where(w))
    # 5. result
    rets = [norm(r.value) for r in own_nodes(rnd) if isinstance(r, ast.Return)]
    rep.ob('rnd.result', 'result is single(seed) / single(period)',
           rets == ['self._values.new_single().from_int(self._seed).idiv(self._values.new_single().from_int(self._period))'],
           repr(rets), ctx.where(rnd))
    smask = ctx.fold(class_assigns(ctx.cls('pcbasic/basic/values/numbers.py:Single'))['_mask'])
    rep.ob('rnd.exact-in-single', 'period-1 fits the single mantissa (seed/period exact, < 1)',
           ints and isinstance(smask, int) and m - 1 <= smask, 'mask %r' % (smask,), 'pcbasic/basic/values/numbers.py')
    # 6. reset and reseed
    clr = ctx.fn(R + ':Randomiser.clear')
    rep.ob('reset.constant-seed', 'clear() stores a constant', len([s for s in clr.body if isinstance(s, ast.Assign)]) == 1
           and isinstance(ctx.fold([s for s in clr.body if isinstance(s, ast.Assign)][0].value), int), '', ctx.where(clr))
    ca_fn = ctx.fn(IMPL + ':Implementation._clear_all')
    calls = [n for n in ca_fn.body if isinstance(n, ast.Expr) and norm(n.value) == 'self.randomiser.clear()']
    rep.ob('reset.on-clear', '_clear_all calls randomiser.clear() unconditionally', len(calls) == 1, '', ctx.where(ca_fn))
    rs = ctx.fn(R + ':Randomiser.reseed')
    free = set()
    for n in own_nodes(rs):
        if isinstance(n, ast.Attribute) and norm(n.value) == 'self' and isinstance(n.ctx, ast.Load):
            free.add(n.attr)
    rep.ob('reseed.depends-on-argument-only', 'reseed reads only constants, the seed byte and its argument',
           free <= {'_seed', '_cycle', '_step', '_period'}, repr(sorted(free)), ctx.where(rs))
    stmts = [norm(s) for s in rs.body]
    try:
        order = [stmts.index('self._seed &= 255'), stmts.index('self._cycle()'), stmts.index('self._seed += n * self._step'),
                 stmts.index('self._seed %= self._period')]
        ok = order == sorted(order)
    except ValueError:
        ok = False
    rep.ob('reseed.sequence', 'reseed: mask, cycle, add n*step, reduce', ok, '', ctx.where(rs))


def variants(ctx):
    Va = mu.Variant

    def in_fn(fname, f):
        return lambda tree: f(mu.find_def(tree, fname))

    def set_const(name, val):
        return lambda tree: mu.replace_stmt(mu.find_def(tree, 'Randomiser'), lambda st: isinstance(st, ast.Assign) and norm(st.targets[0]) == name,
                                            '%s = %s' % (name, val))

    return [
        mu.Variant('reseed-mask-skips-singles', 'break', 'pcbasic/basic/values/randomiser.py',
                   lambda tree: mu.replace_expr(mu.find_def(tree, 'Randomiser.reseed'), mu.text_is('len(s) >= 4'), 'len(s) > 4'), expect='reseed.mask-for-singles-and-doubles'),
        Va('randomize-rounds-every-argument', 'break', 'pcbasic/basic/implementation.py', lambda tree: _dedent_round(mu.find_def(tree, 'Implementation.randomize_')), expect='randomize.argument'),
        Va('rnd-positive-argument-does-not-advance', 'break', R, in_fn('Randomiser.rnd_', _cycle_only_negative), expect='rnd.cycle'),
        Va('multiplier-3-mod-4', 'break', R, set_const('_multiplier', '214015'), expect='hull-dobell'),
        Va('increment-even', 'break', R, set_const('_increment', '2531010'), expect='hull-dobell.gcd'),
        Va('period-2^23', 'break', R, set_const('_period', '2**23'), expect='lcg.period'),
        Va('cycle-no-increment', 'break', R,
           in_fn('Randomiser._cycle', lambda fn: mu.replace_expr(fn, mu.text_is('self._seed * self._multiplier + self._increment'), 'self._seed * self._multiplier')),
           expect='lcg.shape'),
        Va('reseed-unreduced', 'break', R, in_fn('Randomiser.reseed', lambda fn: mu.remove_stmt(fn, mu.text_is('self._seed %= self._period'))),
           expect='seed.reduced-before-use'),
        Va('rnd0-cycles', 'break', R,
           in_fn('Randomiser.rnd_', lambda fn: mu.replace_stmt(fn, lambda st: isinstance(st, ast.Pass), 'self._cycle()')), expect='rnd.cycle'),
        Va('seed-written-elsewhere', 'break', IMPL,
           in_fn('Implementation.randomize_', lambda fn: mu.append_last(fn, 'self.randomiser._seed = 1 << 30')), expect='seed.owned'),
        Va('clear-no-longer-reseeds', 'break', IMPL,
           in_fn('Implementation._clear_all', lambda fn: mu.remove_stmt(fn, mu.text_is('self.randomiser.clear()'))), expect='reset.on-clear'),
        Va('result-divides-by-period-minus-1', 'break', R,
           in_fn('Randomiser.rnd_', lambda fn: mu.replace_expr(fn, mu.text_is('self._values.new_single().from_int(self._period)'),
                                                               'self._values.new_single().from_int(self._period - 1)')), expect='rnd.result'),
        Va('cycle-commuted', 'neutral', R,
           in_fn('Randomiser._cycle', lambda fn: mu.replace_expr(fn, mu.text_is('self._seed * self._multiplier + self._increment'),
                                                                 'self._increment + self._multiplier * self._seed'))),
        Va('other-full-period-constants', 'neutral', R, set_const('_multiplier', '214017')),
    ]


def _cycle_only_negative(fn):
    for n in ast.walk(fn):
        if isinstance(n, ast.If) and norm(n.test) == 'f.is_negative()':
            par = n._parent if hasattr(n, '_parent') else None
            # find the block that holds this If and the cycle call after it
            for o in ast.walk(fn):
                for fld in ('body', 'orelse'):
                    b = getattr(o, fld, None)
                    if isinstance(b, list) and n in b:
                        i = b.index(n)
                        if i + 1 < len(b) and 'self._cycle()' in norm(b[i + 1]):
                            n.body.append(b.pop(i + 1))
                            return True
    return False


def _dedent_round(fn):
    iff = [s for s in fn.body if isinstance(s, ast.If) and norm(s.test) == 'val is not None']
    if len(iff) != 1:
        return False
    st = [x for x in iff[0].orelse if norm(x) == 'val = values.to_integer(val)']
    if len(st) != 1:
        return False
    iff[0].orelse.remove(st[0])
    fn.body.insert(fn.body.index(iff[0]) + 1, st[0])
    return True

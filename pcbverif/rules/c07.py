"""
C07 -- decimal conversion: ONLY type selection and digit constants are decided.

Decides:
 * str_to_decimal: the digit-count threshold for choosing double equals
   Single.digits (7); `!` forces single, `#` and a D exponent force double;
 * Values.from_repr tries Integer first, then dispatches on is_double to
   new_double()/new_single().from_decimal;
 * Float.to_str asks to_decimal for self.digits digits and pads/strips with the
   same constant; Single.digits == 7, Double.digits == 16; the _lim_top/_lim_bot
   byte constants decode (MBF, folded statically) to the largest values below
   10^digits and 10^(digits-1);
 * Integer.to_str prints '%d' of the exact integer value.
Not decided: accuracy of the x10 / /10 loops (numeric).
"""
import ast
import struct
from fractions import Fraction

from ..source import norm, short, class_assigns
from ..flow import own_nodes
from .. import mutate as mu
from .. import valuesmodel as vm

PROP = 'C07'
LEVEL = 'other'
TECHNIQUE = 'static analysis: constant folding of digit/limit constants (MBF decoded by the checker), path facts for type selection'
EXPLANATION = __doc__

N, V = vm.NUMBERS, vm.VALUES


def mbf_value(b):
    """Exact value of an MBF byte string (checker-side decoding of a constant)."""
    exp = b[-1]
    if exp == 0:
        return Fraction(0)
    man = int.from_bytes(b[:-1], 'little')
    nbits = 8 * (len(b) - 1)
    neg = bool(man >> (nbits - 1))
    man |= 1 << (nbits - 1)
    v = Fraction(man, 1 << nbits) * Fraction(2) ** (exp - 128)
    return -v if neg else v


def _zero_mantissa(ctx, rep):
    """from_decimal scales the denormalised mantissa by ten once per unit of the exponent; the scaling routines work on a
    normalised mantissa, so a zero mantissa must return zero before any scaling (0E5 is 0)."""
    fd = ctx.fn('pcbasic/basic/values/numbers.py:Float.from_decimal')
    fl = ctx.flow(fd)
    scal = [c for c in own_nodes(fd) if isinstance(c, ast.Call) and norm(c.func) in ('self._mul10_den', 'self._div10_den')]
    rep.floor('literal.zero-mantissa-is-zero', len(scal), 2, 'scaling steps in from_decimal')
    early = [r for r in own_nodes(fd) if isinstance(r, ast.Return) and any(f.pol and f.text in ('not mantissa', 'mantissa == 0') for f in fl.facts(r))]
    rep.ob('literal.zero-mantissa-is-zero', 'from_decimal returns zero for a zero mantissa before scaling by the exponent',
           len(early) == 1 and norm(early[0].value) in ('self.from_int(0)', 'self.from_int(mantissa)') and all(early[0].lineno < c.lineno for c in scal),
           'a zero mantissa goes through the scaling loops: 0E5 becomes 1.469368E-34', ctx.where(fd))


def check(ctx, rep):
    # decimal conversion (to_decimal): the mantissa is shifted as a magnitude and negated afterwards -- shifting a negative
    # number floors it, so negative values would come out one unit larger in magnitude than their positive twins;
    # and both window limits of the working range [10^(d-1), 10^d) are taken "just under", like each other
    tdc = ctx.fn('pcbasic/basic/values/numbers.py:Float.to_decimal')
    nums = [a for a in own_nodes(tdc) if isinstance(a, ast.Assign) and norm(a.targets[0]) == 'num']
    okn = len(nums) == 1 and isinstance(nums[0].value, ast.IfExp) and isinstance(nums[0].value.body, ast.UnaryOp) and isinstance(nums[0].value.body.op, ast.USub) \
        and isinstance(nums[0].value.body.operand, ast.BinOp) and isinstance(nums[0].value.body.operand.op, ast.RShift) and norm(nums[0].value.test) == 'neg' \
        and norm(nums[0].value.orelse) == norm(nums[0].value.body.operand)
    rep.ob('print.sign-after-shift', 'to_decimal negates after shifting (symmetric in sign)', okn, norm(nums[0].value) if nums else 'none', ctx.where(tdc))
    fld = ctx.flow(tdc)
    lims = dict((norm(a.targets[0]), a.value) for a in own_nodes(tdc) if isinstance(a, ast.Assign) and norm(a.targets[0]) in ('lim_bot', 'lim_top')
                and any(f.pol and f.text == 'digits > 0' for f in fld.facts(a)))
    oks = set(lims) == {'lim_bot', 'lim_top'} and all(isinstance(v, ast.Call) and isinstance(v.func, ast.Attribute) and v.func.attr == '_just_under' for v in lims.values())
    rep.ob('print.window-limits-alike', 'to_decimal: for a reduced digit count both window limits are taken just under the power of ten', oks,
           repr(dict((k, norm(v)) for k, v in lims.items())) + ': a value equal to the upper limit keeps one digit too many', ctx.where(tdc))
    from . import c03 as _c03, _share as _sh
    _sh.share(ctx, rep, _c03, ('normalise.bring-to-range',), 'a decimal literal is converted through from_int / from_decimal, which normalise the mantissa with _bring_to_range: an all-ones or a just-below-the-top-bit mantissa must come out unchanged')
    # plain decimal notation is used only while every digit before the point is significant: from 10**digits on (exponent >= the
    # number of digits the type holds) the value is shown in scientific notation, or a padded zero would stand for a lost digit
    ts = ctx.fn('pcbasic/basic/values/numbers.py:Float.to_str')
    from ..algebra import lin as _lin
    thr = []
    for c in own_nodes(ts):
        if isinstance(c, ast.Compare) and len(c.ops) == 1 and norm(c.left) == 'exp10' and isinstance(c.ops[0], (ast.Gt, ast.GtE)):
            t = _lin(c.comparators[0])
            if isinstance(t, dict):
                t = dict(t)
                if isinstance(c.ops[0], ast.Gt):
                    t[''] = t.get('', 0) + 1 if '' in t or True else 1
                thr.append(dict((k, v) for k, v in t.items() if v))
    rep.ob('print.scientific-from-first-lost-digit', 'to_str switches to scientific notation when the decimal exponent reaches self.digits',
           len(thr) == 1 and thr[0] in ({'self.digits': 1}, {'self.digits': 1, '': 0}), repr(thr), ctx.where(ts))
    _zero_mantissa(ctx, rep)
    digits = {}
    for cname in ('Single', 'Double'):
        ca = class_assigns(ctx.cls('%s:%s' % (N, cname)))
        digits[cname] = ctx.fold(ca['digits'])
        d = digits[cname]
        top, bot = ctx.fold(ca['_lim_top']), ctx.fold(ca['_lim_bot'])
        ok = isinstance(top, bytes) and isinstance(bot, bytes) and isinstance(d, int)
        if ok:
            vt, vb = mbf_value(top), mbf_value(bot)
            ulp_t = Fraction(2) ** (top[-1] - 128 - 8 * (len(top) - 1))
            ulp_b = Fraction(2) ** (bot[-1] - 128 - 8 * (len(bot) - 1))
            ok = vt < 10 ** d <= vt + ulp_t and vb < 10 ** (d - 1) <= vb + ulp_b
        rep.ob('digits.limits', '%s._lim_top/_lim_bot are the largest floats below 10^%s and 10^%s-1' % (cname, d, d), ok,
               '', N)
        one, ten = ctx.fold(ca['_one']), ctx.fold(ca['_ten'])
        rep.ob('digits.constants', '%s._one == 1 and _ten == 10' % cname,
               isinstance(one, bytes) and mbf_value(one) == 1 and mbf_value(ten) == 10, '', N)
    rep.ob('digits.count', 'Single.digits == 7 and Double.digits == 16', digits == {'Single': 7, 'Double': 16}, repr(digits), N)
    # str_to_decimal
    sd = ctx.fn(N + ':str_to_decimal')
    fl = ctx.flow(sd)
    thr = [n for n in own_nodes(sd) if isinstance(n, ast.If) and 'digits - zeros' in norm(n.test)]
    ok = False
    if len(thr) == 1 and isinstance(thr[0].test, ast.BoolOp):
        cmp_ = thr[0].test.values[0]
        ok = isinstance(cmp_, ast.Compare) and isinstance(cmp_.ops[0], ast.Gt) and ctx.fold(cmp_.comparators[0]) == digits.get('Single') \
            and norm(thr[0].test.values[1]) == 'not is_single' and norm(thr[0].body[0]) == 'is_double = True'
    rep.ob('literal.double-threshold', 'more significant digits than Single.digits selects double unless ! was given', ok,
           norm(thr[0].test) if thr else 'none', ctx.where(sd))
    # the digits discounted from the count are zeros *after the decimal point* only: zeros before it carry the
    # magnitude of a whole number (9999999000 has ten significant digits and must become a double)
    zinc = [a for a in own_nodes(sd) if isinstance(a, ast.AugAssign) and norm(a.target) == 'zeros' and isinstance(a.op, ast.Add)]
    okz = len(zinc) == 1
    factsz = set()
    if okz:
        for f in fl.facts(zinc[0]):
            if f.pol:
                factsz |= set(x.strip() for x in f.text.split(' and '))
        okz = 'found_point' in factsz and "c == b'0'" in factsz
    rep.ob('literal.trailing-zeros-after-point-only', 'zeros are discounted from the significant-digit count only after the decimal point', okz,
           'zeros counted under %s: whole numbers with trailing zeros are read as (truncated) singles' % sorted(factsz), ctx.where(sd))
    zreset = [a for a in own_nodes(sd) if isinstance(a, ast.Assign) and norm(a.targets[0]) == 'zeros' and norm(a.value) == '0']
    rep.ob('literal.zero-run-reset', 'a non-zero digit ends the run of discounted zeros', len(zreset) >= 1, '', ctx.where(sd))
    sel = {}
    for n in own_nodes(sd):
        if isinstance(n, ast.Assign) and norm(n.targets[0]) in ('is_single', 'is_double') and not isinstance(n.targets[0], ast.Tuple):
            conds = [f.text for f in fl.facts(n) if f.pol and f.text.startswith('c')]
            sel.setdefault(norm(n.targets[0]), []).append((norm(n.value), conds))
    rep.ob('literal.sigil-single', "'!' selects single", ("True", ["c == b'!'"]) in sel.get('is_single', []), repr(sel.get('is_single')), ctx.where(sd))
    rep.ob('literal.sigil-double', "'#' selects double", ("True", ["c == b'#'"]) in sel.get('is_double', []), repr(sel.get('is_double')), ctx.where(sd))
    rep.ob('literal.exponent-letter', 'D exponent selects double, E does not',
           ("c.upper() == b'D'", ["c.upper() in b'DE'"]) in sel.get('is_double', []), repr(sel.get('is_double')), ctx.where(sd))
    rets = [norm(r.value) for r in vm.returns(sd)]
    rep.ob('literal.return-shape', 'str_to_decimal returns (is_double, signed mantissa, exp10)',
           '(is_double, -mantissa if neg else mantissa, exp10)' in rets, repr(rets), ctx.where(sd))
    # from_repr
    fr = ctx.fn(V + ':Values.from_repr')
    fl = ctx.flow(fr)
    order = []
    for n in own_nodes(fr):
        if isinstance(n, ast.Return):
            t = norm(n.value)
            if t == 'self.new_integer().from_str(word)':
                order.append(('int', n.lineno, bool(fl.in_try_catching(n, ('ValueError',)))))
            elif t == 'self.new_double().from_decimal(mantissa, exp10)':
                order.append(('dbl', n.lineno, fl.knows(n, 'is_double', True)))
            elif t == 'self.new_single().from_decimal(mantissa, exp10)':
                order.append(('sng', n.lineno, fl.knows(n, 'is_double', False)))
    order.sort(key=lambda x: x[1])
    rep.ob('literal.type-selection', 'from_repr: Integer first (ValueError falls through), then double iff is_double, else single',
           [(k, ok) for k, _, ok in order] == [('int', True), ('dbl', True), ('sng', True)], repr(order), ctx.where(fr))
    unpack = [n for n in own_nodes(fr) if isinstance(n, ast.Assign) and 'str_to_decimal' in norm(n.value)]
    rep.ob('literal.type-selection', 'from_repr unpacks (is_double, mantissa, exp10) in that order',
           len(unpack) == 1 and [norm(e) for e in unpack[0].targets[0].elts] == ['is_double', 'mantissa', 'exp10'], '', ctx.where(fr))
    # to_str digits
    ts = ctx.fn(N + ':Float.to_str')
    calls = [norm(n) for n in own_nodes(ts) if isinstance(n, ast.Call) and norm(n.func) in ('self.to_decimal', '_get_digits')]
    rep.ob('print.digits', 'Float.to_str requests and formats self.digits digits',
           'self.to_decimal(self.digits)' in calls and '_get_digits(mantissa, self.digits)' in calls, repr(calls), ctx.where(ts))
    its = ctx.fn(N + ':Integer.to_str')
    a = [n for n in own_nodes(its) if isinstance(n, ast.Assign) and norm(n.targets[0]) == 'intstr']
    rep.ob('print.integer-exact', "Integer.to_str prints '%d' of to_int()", len(a) == 1 and norm(a[0].value) == "b'%d' % self.to_int()", '', ctx.where(its))
    gd = ctx.fn(N + ':_get_digits')
    rep.ob('print.digits', '_get_digits pads with zeros to min_digits', norm(vm.returns(gd)[0].value) == "(b'%d' % abs(mantissa)).rjust(min_digits, b'0')", '', ctx.where(gd))


def variants(ctx):
    Va = mu.Variant

    def in_fn(fname, f):
        return lambda tree: f(mu.find_def(tree, fname))

    return [
        mu.Variant('to-decimal-floors-negatives', 'break', 'pcbasic/basic/values/numbers.py',
                   lambda tree: mu.replace_expr(mu.find_def(tree, 'Float.to_decimal'), mu.text_is('-(man >> 8) if neg else man >> 8'), '(-man if neg else man) >> 8'), expect='print.sign-after-shift'),
        mu.Variant('upper-window-limit-not-just-under', 'break', 'pcbasic/basic/values/numbers.py',
                   lambda tree: mu.replace_expr(mu.find_def(tree, 'Float.to_decimal'), mu.text_is('self.new().from_int(10 ** digits)._just_under()'), 'self.new().from_int(10 ** digits)'), expect='print.window-limits-alike'),
        mu.Variant('decimal-notation-one-digit-too-long', 'break', 'pcbasic/basic/values/numbers.py',
                   lambda tree: mu.replace_expr(mu.find_def(tree, 'Float.to_str'), mu.text_is('exp10 > self.digits - 1'), 'exp10 > self.digits'), expect='print.scientific-from-first-lost-digit'),
        mu.Variant('zero-mantissa-scaled-by-exponent', 'break', 'pcbasic/basic/values/numbers.py',
                   lambda tree: mu.remove_stmt(mu.find_def(tree, 'Float.from_decimal'), lambda st: isinstance(st, ast.If) and norm(st.test) == 'not mantissa'), expect='literal.zero-mantissa-is-zero'),
        Va('zeros-before-point-discounted', 'break', N,
           in_fn('str_to_decimal', lambda fn: mu.replace_expr(fn, mu.text_is("found_point and c == b'0'"), "c == b'0'")), expect='literal.trailing-zeros'),
        Va('threshold-8', 'break', N,
           in_fn('str_to_decimal', lambda fn: mu.replace_expr(fn, mu.text_is('digits - zeros > 7'), 'digits - zeros > 8')), expect='literal.double-threshold'),
        Va('single-digits-6', 'break', N,
           lambda tree: mu.replace_stmt(mu.find_def(tree, 'Single'), mu.text_is('digits = 7'), 'digits = 6'), expect='digits'),
        Va('hash-makes-single', 'break', N,
           in_fn('str_to_decimal', lambda fn: mu.replace_expr(fn, mu.text_is("c == b'#'"), "c == b'%'")), expect='literal.sigil-double'),
        Va('from-repr-swapped-types', 'break', V,
           in_fn('Values.from_repr', lambda fn: mu.replace_expr(fn, mu.text_is('self.new_double().from_decimal(mantissa, exp10)'),
                                                                'self.new_single().from_decimal(mantissa, exp10)')), expect='literal.type-selection'),
        Va('lim-top-off', 'break', N,
           lambda tree: mu.replace_expr(mu.find_def(tree, 'Single'), lambda n: isinstance(n, ast.Constant) and n.value == b'\x7f\x96\x18\x98', "b'\\x7e\\x96\\x18\\x98'"),
           expect='digits.limits'),
        Va('to-str-fewer-digits', 'break', N,
           in_fn('Float.to_str', lambda fn: mu.replace_expr(fn, mu.text_is('self.to_decimal(self.digits)'), 'self.to_decimal(self.digits - 1)')), expect='print.digits'),
        Va('e-means-double', 'break', N,
           in_fn('str_to_decimal', lambda fn: mu.replace_expr(fn, mu.text_is("c.upper() == b'D'"), "c.upper() in b'DE'")), expect='literal.exponent-letter'),
        Va('neutral-pass', 'neutral', N, in_fn('str_to_decimal', lambda fn: mu.insert_first(fn, 'pass'))),
    ]

"""
C27 -- BASIC file access stays inside the mounted drives (structural half).

Decides:
 (i)   who-may-call: every call of a host file-system entry point (open,
       io.open, os.remove/rename/mkdir/rmdir/listdir/unlink/makedirs/walk,
       os.path.exists/isdir/isfile, shutil.*) anywhere under pcbasic/basic
       lies in devices/disk.py (checked by (ii)), or in a module whose paths
       never come from BASIC strings (frozen table with reasons: cassette
       image and parallel-port targets from the device configuration, SHELL in
       dos.py, the host API in state.py/api.py, /dev/null);
 (ii)  path provenance in disk.py: by def-use inside each function, the path
       argument of every host call is SAFE: the result of
       _get_native_abspath / _get_native_reldir / _split_pathmask, the mount
       root, os.path.join of SAFE with names that came from os.listdir of a
       SAFE directory or from _get_native_name, or a parameter named native_*;
       and every call that passes a value into a native_* parameter passes a
       SAFE value (BoundFile.get_stream -- a stream bound through the host API,
       not by BASIC -- is the one reasoned exemption);
 (iii) _get_native_reldir, the only place BASIC text becomes directory
       components: rejects '/', refuses unmounted drives, normalises with
       ntpath.normpath *before* consuming leading '..' with a clamped pop
       (list slice [:-1], which cannot go below the root), resolves every
       remaining element through _get_native_name(..., isdir=True,
       create=False), and returns a path relative to the root;
       _get_native_abspath takes the basename from ntpath.split (no separator
       left in it) and joins root + reldir + resolved name;
 (iv)  device selection: the drive letter is looked up in the device table and
       must be a drive letter; _split_pathmask rejects '/'.
Not decided: symbolic links inside a mount.
"""
import ast

from ..source import norm, short, qualname, enclosing_class
from ..flow import own_nodes
from .. import mutate as mu

PROP = 'C27'
LEVEL = 'other'
TECHNIQUE = 'static analysis: who-may-call over the package, intra-procedural path provenance (taint of SAFE paths), structure of the path resolver'
EXPLANATION = __doc__

DISK = 'pcbasic/basic/devices/disk.py'
FILES = 'pcbasic/basic/devices/files.py'

HOST_CALLS = {
    'open', 'io.open', 'os.remove', 'os.rename', 'os.mkdir', 'os.rmdir', 'os.listdir', 'os.unlink', 'os.makedirs', 'os.walk',
    'os.path.exists', 'os.path.isdir', 'os.path.isfile', 'os.stat', 'os.chdir', 'os.utime', 'os.chmod', 'os.removedirs', 'os.renames', 'os.replace',
    'os.scandir', 'os.symlink', 'os.link', 'os.truncate', 'io.FileIO', 'codecs.open',
}
HOST_PREFIXES = ('shutil.', 'tempfile.', 'glob.', 'pathlib.')
ALLOWED_ELSEWHERE = {
    'pcbasic/basic/devices/cassette.py': 'tape image path comes from the CAS1: device configuration, never from a BASIC file name',
    'pcbasic/basic/devices/parports.py': 'printer target file comes from the LPTn: device configuration',
    'pcbasic/basic/devices/devicebase.py': 'opens os.devnull only',
    'pcbasic/basic/dos.py': 'SHELL: wraps the pipe of the child process (file descriptor, not a path)',
    'pcbasic/basic/state.py': 'session state file named by the host application, not by BASIC',
    'pcbasic/basic/api.py': 'host API (bind_file) -- not reachable from BASIC statements',
}
# parameters that carry resolved native paths / native entry names between functions of disk.py:
# SAFE inside the callee, and every call site must pass a SAFE value
PATH_PARAMS = {
    ('open_stream', 'native_name'), ('_get_native_name', 'native_path'), ('istype', 'native_path'), ('dos_to_native_name', 'native_path'),
    ('_get_dirs_files', 'native_path'), ('_get_dos_display_name', 'native_dirpath'), ('_filter_names', 'native_dirpath'),
    ('_get_dos_display_name', 'native_name'), ('_filter_names', 'native_names'),
}
# istype(native_path, native_name): native_name may be BASIC-derived -- a read-only existence probe of ONE path element
# (separators cannot occur: '/' is rejected by the resolver and the backslash is its split character)
PROBE_PARAMS = {('istype', 'native_name')}
SAFE_PRODUCERS = ('self._get_native_abspath', 'self._get_native_reldir', 'os.path.abspath', 'get_short_pathname')
SAFE_ATTRS = ('self._native_root', 'self._native_cwd')


# host calls that act on more than the path they are given (upwards)
UPWARD_CALLS = ('os.removedirs', 'os.renames')


def _host(call):
    f = norm(call.func)
    return f in HOST_CALLS or f.startswith(HOST_PREFIXES)


def _chain(node):
    """Enclosing statement-block chain of a node: list of (owner id, field) from outermost to innermost."""
    out = []
    child = node
    p = getattr(node, '_parent', None)
    while p is not None:
        for field in ('body', 'orelse', 'finalbody', 'handlers'):
            b = getattr(p, field, None)
            if isinstance(b, list) and child in b:
                out.append((id(p), field))
        child = p
        p = getattr(p, '_parent', None)
    return list(reversed(out))


def _stmt(node):
    while not isinstance(node, ast.stmt):
        node = node._parent
    return node


def _safe_names(fn):
    """
    Flow-sensitive SAFE-path evaluation inside one function: a name is SAFE at a use if its
    nearest preceding assignment on the same path (same or enclosing block) is SAFE, or it is bound by
    an enclosing loop/comprehension over a SAFE iterable, or it is a path parameter.
    """
    params = set(a.arg for a in fn.args.args)
    path_params = set(a.arg for a in fn.args.args if (fn.name, a.arg) in PATH_PARAMS or (fn.name, a.arg) in PROBE_PARAMS)
    assigns = {}   # name -> list of (stmt, value-or-marker)
    for n in own_nodes(fn):
        if isinstance(n, ast.Assign):
            for t in n.targets:
                if isinstance(t, ast.Name):
                    assigns.setdefault(t.id, []).append((n, n.value, None))
                elif isinstance(t, ast.Tuple):
                    for i, e in enumerate(t.elts):
                        if isinstance(e, ast.Name):
                            assigns.setdefault(e.id, []).append((n, n.value, i))
        elif isinstance(n, ast.AugAssign) and isinstance(n.target, ast.Name):
            assigns.setdefault(n.target.id, []).append((n, n, 'aug'))

    def loops_of(node):
        out = []
        p = getattr(node, '_parent', None)
        while p is not None and p is not fn:
            if isinstance(p, (ast.For, ast.While)):
                out.append(id(p))
            p = getattr(p, '_parent', None)
        return out

    def reaching(name, use):
        """(latest dominating definition or None, [other definitions that may also reach the use])."""
        ust = _stmt(use)
        uchain = _chain(ust)
        uloops = set(loops_of(ust))
        dom = None
        cands = [a for a in assigns.get(name, []) if a[0] is not ust]
        for a in cands:
            st = a[0]
            c = _chain(st)
            if st.lineno < ust.lineno and c == uchain[:len(c)]:
                if dom is None or st.lineno > dom[0].lineno:
                    dom = a
        others = []
        for a in cands:
            st = a[0]
            if a is dom:
                continue
            if dom is not None and st.lineno < dom[0].lineno:
                continue
            c = _chain(st)
            # exclusive branches of the same if/try
            excl = False
            for (o1, f1), (o2, f2) in zip(c, uchain):
                if o1 != o2:
                    break
                if f1 != f2:
                    excl = True
                    break
            if excl:
                continue
            if st.lineno < ust.lineno or (uloops & set(loops_of(st))):
                others.append(a)
        return dom, others

    def binder(name, use):
        """Enclosing for-loop or comprehension that binds name."""
        p = getattr(use, '_parent', None)
        while p is not None and p is not fn:
            if isinstance(p, (ast.For,)):
                if name in [x.id for x in ast.walk(p.target) if isinstance(x, ast.Name)]:
                    return p.iter, p
            if isinstance(p, (ast.ListComp, ast.GeneratorExp, ast.SetComp, ast.DictComp)):
                for g in p.generators:
                    if name in [x.id for x in ast.walk(g.target) if isinstance(x, ast.Name)]:
                        return g.iter, p
            p = getattr(p, '_parent', None)
        return None

    busy = set()

    def def_safe(d, name, depth):
        st, val, k = d
        if k == 'aug':
            v = st.value
            return is_safe(v, depth + 1) or (isinstance(v, ast.BinOp) and norm(v.left) == 'os.sep' and is_safe(v.right, depth + 1))
        if k is None:
            return is_safe(val, depth + 1)
        if isinstance(val, ast.Call) and norm(val.func) == 'self._split_pathmask':
            return k < 2
        if isinstance(val, ast.Call) and norm(val.func) == 'self._get_dirs_files':
            return bool(val.args) and is_safe(val.args[0], depth + 1)
        if isinstance(val, ast.Tuple) and k < len(val.elts):
            return is_safe(val.elts[k], depth + 1)
        return False

    def is_safe(e, depth=0):
        if depth > 14:
            return False
        if isinstance(e, ast.Name):
            b = binder(e.id, e)
            if b is not None:
                return is_safe(b[0], depth + 1)
            dom, others = reaching(e.id, e)
            if dom is not None or others:
                if e.id in busy:
                    return True     # coinductive: a loop-carried definition in terms of itself
                busy.add(e.id)
                try:
                    defs = ([dom] if dom is not None else []) + others
                    ok = all(def_safe(d, e.id, depth) for d in defs)
                    if dom is None and e.id in params:
                        ok = ok and e.id in path_params
                    return ok
                finally:
                    busy.discard(e.id)
            return e.id in path_params
        if isinstance(e, ast.Attribute):
            return norm(e) in SAFE_ATTRS
        if isinstance(e, ast.Constant):
            return e.value in (u'.', u'..', u'')
        if isinstance(e, ast.Call):
            f = norm(e.func)
            if f in SAFE_PRODUCERS:
                return f not in ('os.path.abspath', 'get_short_pathname') or all(is_safe(a, depth + 1) for a in e.args)
            if f == 'os.path.join':
                return all(is_safe(a, depth + 1) or _is_resolved_name(a) for a in e.args if not isinstance(a, ast.Starred)) and \
                    all(is_safe(a.value, depth + 1) for a in e.args if isinstance(a, ast.Starred))
            if f in ('self._get_native_name', 'dos_to_native_name'):
                return True
            if f in ('os.listdir', 'safe') and e.args:
                inner = e.args[1:] if f == 'safe' and norm(e.args[0]) == 'os.listdir' else e.args
                return all(is_safe(a, depth + 1) for a in inner)
            if f == 'sorted' and e.args:
                return is_safe(e.args[0], depth + 1)
            if isinstance(e.func, ast.Attribute) and e.func.attr == 'split' and is_safe(e.func.value, depth + 1):
                return True
            return False
        if isinstance(e, ast.List):
            return all(is_safe(x, depth + 1) for x in e.elts)
        if isinstance(e, ast.Subscript):
            return is_safe(e.value, depth + 1)
        if isinstance(e, ast.BoolOp):
            return all(is_safe(v, depth + 1) for v in e.values)
        if isinstance(e, (ast.ListComp, ast.GeneratorExp)):
            return is_safe(e.elt, depth + 1)
        if isinstance(e, ast.DictComp):
            return is_safe(e.value, depth + 1)
        if isinstance(e, ast.BinOp) and isinstance(e.op, ast.Add):
            return is_safe(e.left, depth + 1) and (is_safe(e.right, depth + 1) or norm(e.right) == 'os.sep')
        return False

    def _is_resolved_name(a):
        return isinstance(a, ast.Call) and norm(a.func) in ('self._get_native_name',)

    return path_params, is_safe


def check(ctx, rep):
    from . import c28, _share
    _share.share(ctx, rep, c28, ('illegal.only-single',), 'the name lookup shortens a name only by a single trailing dot: a dots-only element cannot be cut down to `..`')
    _share.share(ctx, rep, c28, ('normalise.upper-split-truncate',), 'normalising to 8.3 only cuts at fixed widths: it strips nothing, so an element of dots and blanks cannot normalise to `..` after the dot-entry test')
    # ---- (i) who may call ------------------------------------------------------------
    n_sites = 0
    for fn in ctx.idx.functions('pcbasic/basic/'):
        path = fn._module.path
        for c in own_nodes(fn):
            if isinstance(c, ast.Call) and _host(c):
                n_sites += 1
                if path == DISK:
                    continue
                rep.ob('who-may-call.host-filesystem', '%s: %s' % (qualname(fn).split(':')[1], short(c, 60)), path in ALLOWED_ELSEWHERE,
                       'host file-system call in a module that is not on the reasoned list', ctx.where(c))
    # module-level calls too
    for path, m in ctx.idx.modules.items():
        if path.startswith('pcbasic/basic/'):
            for st in m.tree.body:
                if not isinstance(st, (ast.FunctionDef, ast.ClassDef)):
                    for c in own_nodes(st):
                        if isinstance(c, ast.Call) and _host(c) and path != DISK:
                            n_sites += 1
                            rep.ob('who-may-call.host-filesystem', '%s <module>: %s' % (path, short(c, 60)), path in ALLOWED_ELSEWHERE or path.startswith('pcbasic/basic/data/'),
                                   '', path)
    rep.floor('who-may-call.host-filesystem', n_sites, 25, 'host call sites')
    # `safe(os.x, path)` indirection
    # ---- (ii) provenance in disk.py -----------------------------------------------------
    n_prov = 0
    for fn in ctx.idx.functions(DISK):
        cls = enclosing_class(fn)
        who = qualname(fn).split(':')[1]
        safe, is_safe = _safe_names(fn)
        for c in own_nodes(fn):
            if not isinstance(c, ast.Call):
                continue
            f = norm(c.func)
            args = None
            if _host(c):
                args = c.args[:2] if f == 'os.rename' else c.args[:1]
            elif f == 'safe' and c.args and norm(c.args[0]) in HOST_CALLS:
                args = c.args[1:]
            if args is not None:
                # a call that also acts on the ancestors of the path it is given leaves the mount through them,
                # however safe the path itself is (removedirs / renames prune every empty directory upwards)
                what = f if _host(c) else norm(c.args[0])
                rep.ob('provenance.host-call-acts-on-its-path-only', '%s: %s' % (who, short(c, 70)), what not in UPWARD_CALLS,
                       '%s goes on to the parent directories of its argument: past the root of the mounted drive into the host directories above it' % what, ctx.where(c))
                for a in args:
                    n_prov += 1
                    ok = is_safe(a)
                    if who == 'BoundFile.get_stream':
                        ok = True
                    rep.ob('provenance.host-call-path', '%s: %s' % (who, short(c, 70)), ok,
                           'path argument %s is not derived from the mounted-root resolvers' % norm(a), ctx.where(c))
            # calls into native_* parameters of functions of this module
            tgt = None
            if f.startswith('self.') and cls is not None:
                tgt = ctx.idx.find_method(cls, f[5:]) if '.' not in f[5:] else None
            elif f in fn._module.functions:
                tgt = fn._module.functions[f]
            elif f == 'self._device.open_stream':
                tgt = ctx.fn(DISK + ':DiskDevice.open_stream')
            if tgt is not None:
                params = [a.arg for a in tgt.args.args if a.arg != 'self']
                for p, a in zip(params, c.args):
                    if (tgt.name, p) in PATH_PARAMS:
                        n_prov += 1
                        ok = is_safe(a) or (who == 'BoundFile.get_stream')
                        rep.ob('provenance.native-parameter', '%s -> %s(%s=%s)' % (who, tgt.name, p, short(a, 40)), ok,
                               'a value that is not a resolved native path flows into parameter %s' % p, ctx.where(c))
    rep.floor('provenance', n_prov, 25, 'path arguments checked')
    # ---- (iii) resolver structure -----------------------------------------------------------
    rd = ctx.fn(DISK + ':DiskDevice._get_native_reldir')
    fl = ctx.flow(rd)
    body = rd.body
    idx = {}
    for i, s in enumerate(body):
        t = norm(s)
        if isinstance(s, ast.If) and norm(s.test) == "b'/' in dospath":
            idx['slash'] = i
            rep.ob('resolver.rejects-slash', "a '/' in the directory part raises (Bad file number)", ctx.basic_error_code(s.body[0]) == 'BAD_FILE_NUMBER', '', ctx.where(s))
        elif isinstance(s, ast.If) and norm(s.test) == 'not self._native_root':
            idx['unmounted'] = i
            rep.ob('resolver.unmounted', 'an unmounted drive raises Path not found', ctx.basic_error_code(s.body[0]) == 'PATH_NOT_FOUND', '', ctx.where(s))
        elif t == 'dospath = ntpath.normpath(dospath)':
            idx['normpath'] = i
        elif isinstance(s, ast.While):
            idx['consume'] = i
            ok = norm(s.test) == "dospath_elements and dospath_elements[0] in (b'', b'.', b'..')"
            pops = [norm(x) for x in own_nodes(s) if isinstance(x, ast.Assign) and norm(x.targets[0]) == 'cwd']
            rep.ob('resolver.clamped-parent', "leading '..' pops one element of the cwd list with a slice (cannot go above the root)",
                   ok and pops == ['cwd = cwd[:-1]'], '%s / %r' % (norm(s.test), pops), ctx.where(s))
        elif isinstance(s, ast.For) and norm(s.iter) == 'dospath_elements':
            idx['resolve'] = i
            calls = [c for c in own_nodes(s) if isinstance(c, ast.Call) and norm(c.func) == 'self._get_native_name']
            ok = len(calls) == 1 and [norm(a) for a in calls[0].args] == ['path', 'dos_elem'] and \
                dict((k.arg, norm(k.value)) for k in calls[0].keywords) == {'defext': "b''", 'isdir': 'True', 'create': 'False'}
            rep.ob('resolver.every-element-resolved', 'each remaining element is matched against an existing directory', ok, '', ctx.where(s))
        elif t == "dospath_elements = dospath.split(b'\\\\')":
            idx['split'] = i
    order = [idx.get(k) for k in ('slash', 'unmounted', 'normpath', 'split', 'consume', 'resolve')]
    rep.ob('resolver.order', "reject '/', check mount, normpath, split on backslash, consume leading dots, resolve",
           None not in order and order == sorted(order), repr(idx), ctx.where(rd))
    cw = [n for n in own_nodes(rd) if isinstance(n, ast.Assign) and norm(n.targets[0]) == 'cwd']
    vals = sorted(norm(n.value) for n in cw)
    rep.ob('resolver.start-directory', "start from the root for '\\\\...' and from the drive's cwd otherwise", vals == ['[]', 'cwd[:-1]', 'self._native_cwd.split(os.sep)'], repr(vals), ctx.where(rd))
    ret = [norm(r.value) for r in own_nodes(rd) if isinstance(r, ast.Return)]
    rep.ob('resolver.relative-result', 'the result is relative to the mount root', ret == ['path[root_len:]'], repr(ret), ctx.where(rd))
    base = [norm(n.value) for n in own_nodes(rd) if isinstance(n, ast.Assign) and norm(n.targets[0]) == 'path']
    rep.ob('resolver.under-root', 'the walk starts at os.path.join(root, *cwd)', base[:1] == ['os.path.join(self._native_root, *cwd)'] and
           base[1:] == ['os.path.join(path, native_elem)'], repr(base), ctx.where(rd))
    ab = ctx.fn(DISK + ':DiskDevice._get_native_abspath')
    st = [norm(s) for s in ab.body if not (isinstance(s, ast.Expr) and isinstance(s.value, ast.Constant))]
    want = ['dos_dirname, name = ntpath.split(path)', 'native_relpath = self._get_native_reldir(dos_dirname)', 'path = os.path.join(self._native_root, native_relpath)']
    rep.ob('abspath.composition', 'abspath = root + reldir(dirname) + resolved basename', st[:3] == want and
           'path = os.path.join(path, self._get_native_name(path, name, defext, isdir, create))' in norm(ab) and st[-1] == 'return os.path.abspath(path)', repr(st[:3]), ctx.where(ab))
    sp = ctx.fn(DISK + ':DiskDevice._split_pathmask')
    fl = ctx.flow(sp)
    sl = [r for r, c in ctx.raises_in(sp) if fl.knows(r, "b'/' in dos_pathmask", True)]
    rep.ob('pathmask.rejects-slash', "FILES/KILL masks containing '/' are refused", len(sl) == 1, '', ctx.where(sp))
    st = [norm(s) for s in own_nodes(sp) if isinstance(s, ast.Assign)]
    rep.ob('pathmask.composition', 'mask directory goes through _get_native_reldir and is joined to the root',
           'dos_path, dos_mask = ntpath.split(dos_pathmask)' in st and 'native_relpath = self._get_native_reldir(dos_path)' in st and
           'native_path = os.path.join(self._native_root, native_relpath)' in st, repr(st), ctx.where(sp))
    # native name: the as-is match must be an existing entry of that directory; new names are normalised 8.3 legal names
    gn = ctx.fn(DISK + ':DiskDevice._get_native_name')
    fl = ctx.flow(gn)
    rets = [(norm(r.value), [f.text for f in fl.facts(r) if f.pol]) for r in own_nodes(gn) if isinstance(r, ast.Return)]
    asis = [r for r in rets if r[0] == 'uni_name']
    rep.ob('native-name.as-is-must-exist', 'a name is used as given only if it exists in the resolved directory',
           len(asis) == 2 and all('istype(native_path, uni_name, isdir)' in f for _, f in asis), repr(rets), ctx.where(gn))
    # the name returned "as given" is joined to the native path by the callers: it must not be a dot entry.  The
    # resolver normalises the path while trailing blanks are still attached, and they are stripped only here -- so
    # the test has to come after the strip and before the first return
    strip = [a for a in gn.body if isinstance(a, ast.Assign) and norm(a.targets[0]) == 'dos_name' and norm(a.value).startswith('self._get_dos_name_defext(')]
    dots = [n for n in gn.body if isinstance(n, ast.If) and isinstance(n.test, ast.Compare) and isinstance(n.test.ops[0], ast.In)
            and isinstance(n.test.left, ast.Call) and norm(n.test.left.func) == 'self._codepage.bytes_to_unicode' and n.test.left.args and norm(n.test.left.args[0]) == 'dos_name'
            and sorted(ctx.fold(n.test.comparators[0]) or ()) == [u'.', u'..'] and isinstance(n.body[0], ast.Raise)]
    bytes_only = [n for n in gn.body if isinstance(n, ast.If) and isinstance(n.test, ast.Compare) and norm(n.test.left) == 'dos_name' and isinstance(n.test.ops[0], ast.In)]
    first_ret = min([r.lineno for r in own_nodes(gn) if isinstance(r, ast.Return)] or [0])
    later_mods = [a for a in own_nodes(gn) if isinstance(a, ast.Assign) and norm(a.targets[0]) == 'dos_name' and dots and a.lineno > dots[0].lineno
                  and not (isinstance(a.value, ast.Subscript) and norm(a.value) == 'dos_name[:-1]')]
    if bytes_only and not dots:
        rep.note('native-name.dot-test-on-bytes', 'the dot-entry test compares bytes: undefined double-byte sequences convert to nothing, so .<81><ad>. becomes .. after the test')
    rep.ob('native-name.never-a-dot-entry', 'after trailing blanks are stripped, a name whose converted form is `.` or `..` is refused before anything is returned',
           len(strip) == 1 and len(dots) == 1 and strip[0].lineno < dots[0].lineno < first_ret and not later_mods,
           'a path element such as ".. " survives the normalisation of the path and is joined to the native path as "..": OPEN ".. \\FILE" reads outside the mount',
           ctx.where(gn))
    gde = ctx.fn(DISK + ':DiskDevice._get_dos_name_defext')
    rep.ob('native-name.strip-location', 'trailing blanks are stripped in _get_dos_name_defext (and nowhere later in the name lookup)',
           any(norm(x) == 'dos_name = dos_name.rstrip()' for x in gde.body), '', ctx.where(gde))
    created = [r for r in rets if 'norm_name.decode' in r[0]]
    rep.ob('native-name.created-names-legal', 'a new name is the normalised 8.3 name that passed dos_is_legal_name',
           len(created) == 1 and 'create' in created[0][1] and any(isinstance(n, ast.If) and norm(n.test) == 'not dos_is_legal_name(norm_name)'
                                                                   and ctx.basic_error_code(n.body[0]) == 'BAD_FILE_NAME' for n in own_nodes(gn)), repr(created), ctx.where(gn))
    legal = ctx.const(DISK, 'ALLOWABLE_CHARS')
    rep.ob('native-name.no-separators-legal', 'no path separator, dot or NUL is an allowable name character', not (set(legal) & set(b'/\\.:\0*?')), repr(sorted(set(legal) & set(b'/\\.:\0*?'))), DISK)
    # the mount table: a drive given as None is *unmounted*; the default "Z: = host working directory" applies only
    # when the caller said nothing about Z at all -- so an entry may be dropped from the normalised table only for
    # an unusable key, never for an empty value
    npm = ctx.fn(FILES + ':Files._normalise_params')
    skips = [n for n in own_nodes(npm) if isinstance(n, ast.If) and [norm(x) for x in n.body] == ['continue']]
    rep.ob('mount.none-keeps-drive-unmounted', '_normalise_params drops an entry only when its key is not a device name',
           len(skips) == 1 and norm(skips[0].test) == 'not key', repr([norm(n.test) for n in skips]), ctx.where(npm))
    idd = ctx.fn(FILES + ':Files._init_disk_devices')
    dflt = [n for n in own_nodes(idd) if isinstance(n, ast.If) and any(isinstance(a, ast.Assign) and 'getcwdu()' in norm(a.value) for a in n.body)]
    rep.ob('mount.default-z-only-if-unspecified', 'Z: defaults to the host working directory only if Z is absent from the table',
           len(dflt) == 1 and norm(dflt[0].test) == "b'Z' not in device_params", repr([norm(n.test) for n in dflt]), ctx.where(idd))
    mounted = [n for n in own_nodes(idd) if isinstance(n, ast.If) and 'letter in device_params' in norm(n.test)]
    rep.ob('mount.empty-value-is-unmounted', 'a drive whose value is empty gets an empty native root (every path on it is refused)',
           len(mounted) == 1 and norm(mounted[0].test) == 'letter in device_params and device_params[letter]'
           and any(norm(a) == "path, cwd = (u'', u'')" for a in mounted[0].orelse), '', ctx.where(idd))
    # ---- (iv) device selection -----------------------------------------------------------------
    gd = ctx.fn(FILES + ':Files._get_diskdevice_and_path')
    fl = ctx.flow(gd)
    r = [x for x in own_nodes(gd) if isinstance(x, ast.Return)]
    rep.ob('device.drive-letter-only', 'the device must be a drive letter present in the device table',
           len(r) == 1 and norm(r[0].value) == "(self._devices[dev + b':'], spec)" and fl.knows(r[0], 'dev not in DRIVE_LETTERS', False), '', ctx.where(gd))
    for meth in ('chdir_', 'mkdir_', 'rmdir_', 'kill_', 'name_'):
        fn = ctx.fn('%s:Files.%s' % (FILES, meth))
        calls = [norm(c.func) for c in own_nodes(fn) if isinstance(c, ast.Call)]
        rep.ob('device.statements-go-through-device', 'Files.%s resolves the device and delegates the path to it' % meth,
               'self._get_diskdevice_and_path' in calls and not any(_host(c) for c in own_nodes(fn) if isinstance(c, ast.Call)), '', ctx.where(fn))


def variants(ctx):
    Va = mu.Variant

    def in_fn(path_fn, f):
        return lambda tree: f(mu.find_def(tree, path_fn))

    return [
        Va('rmdir-prunes-upwards', 'break', DISK, lambda tree: mu.replace_expr(mu.find_def(tree, 'DiskDevice.rmdir'), mu.text_is('os.rmdir'), 'os.removedirs'),
           expect='provenance.host-call-acts-on-its-path-only'),
        Va('kill-uses-raw-path', 'break', DISK,
           in_fn('DiskDevice.kill', lambda fn: mu.replace_stmt(fn, lambda st: isinstance(st, ast.For) and norm(st.iter) == 'to_kill',
                                                              'for native_path in to_kill:\n    safe(os.remove, os.path.join(self._native_root, dos_pathmask.decode("ascii")))')),
           expect='provenance'),
        Va('open-skips-resolver', 'break', DISK,
           in_fn('DiskDevice.open', lambda fn: mu.replace_expr(fn, mu.text_is('self._get_native_abspath(filespec, defext, isdir=False, create=True)'),
                                                              'os.path.join(self._native_root, filespec.decode("latin-1"))')), expect='provenance'),
        Va('files-opens-host-file', 'break', FILES,
           in_fn('Files.files_', lambda fn: mu.insert_first(fn, 'import io\nio.open("/etc/hostname").close()')), expect='who-may-call'),
        Va('slash-accepted', 'break', DISK,
           in_fn('DiskDevice._get_native_reldir', lambda fn: mu.remove_stmt(fn, mu.stmt_has("b'/' in dospath", ast.If))), expect='resolver'),
        Va('dotdot-unclamped', 'break', DISK,
           in_fn('DiskDevice._get_native_reldir', lambda fn: mu.replace_stmt(fn, mu.text_is('cwd = cwd[:-1]'), 'cwd = cwd + [os.pardir]')), expect='resolver.clamped'),
        Va('none-mount-falls-back-to-cwd', 'break', FILES,
           in_fn('Files._normalise_params', lambda fn: mu.replace_expr(fn, lambda n: isinstance(n, ast.UnaryOp) and norm(n) == 'not key', 'not key or not value', count=1)), expect='mount.none'),
        Va('dot-entry-tested-on-bytes', 'break', DISK,
           in_fn('DiskDevice._get_native_name', lambda fn: mu.replace_expr(fn, lambda n: isinstance(n, ast.Compare) and 'bytes_to_unicode(dos_name' in norm(n.left) and "'..'" in norm(n), "dos_name in (b'.', b'..')", count=1)), expect='native-name.never-a-dot'),
        Va('dot-entry-after-strip-accepted', 'break', DISK,
           in_fn('DiskDevice._get_native_name', lambda fn: mu.remove_stmt(fn, lambda st: isinstance(st, ast.If) and 'bytes_to_unicode(dos_name' in norm(st.test) and "'..'" in norm(st.test))), expect='native-name.never-a-dot'),
        Va('normpath-after-consuming', 'break', DISK, in_fn('DiskDevice._get_native_reldir', _normpath_late), expect='resolver.order'),
        Va('elements-not-resolved', 'break', DISK,
           in_fn('DiskDevice._get_native_reldir', lambda fn: mu.replace_expr(fn, lambda n: isinstance(n, ast.Call) and norm(n.func) == 'self._get_native_name',
                                                                            "dos_elem.decode('latin-1')")), expect='resolver.every-element'),
        Va('reldir-returns-absolute', 'break', DISK,
           in_fn('DiskDevice._get_native_reldir', lambda fn: mu.replace_expr(fn, mu.text_is('path[root_len:]'), 'path')), expect='resolver.relative'),
        Va('as-is-name-without-existence-test', 'break', DISK,
           in_fn('DiskDevice._get_native_name', lambda fn: mu.replace_stmt(fn, lambda st: isinstance(st, ast.If) and norm(st.test) == 'istype(native_path, uni_name, isdir)'
                                                                          and st.lineno > 600, 'return uni_name')), expect='native-name'),
        Va('slash-allowable-in-names', 'break', DISK,
           lambda tree: mu.replace_expr(tree, lambda n: isinstance(n, ast.Constant) and n.value == b" !#$%&'()-@^_`{}~", 'b" !#$%&\'()-@^_`{}~/"'), expect='native-name.no-separators'),
        Va('drive-table-bypassed', 'break', FILES,
           in_fn('Files._get_diskdevice_and_path', lambda fn: mu.remove_stmt(fn, mu.stmt_has('dev not in DRIVE_LETTERS', ast.If))), expect='device'),
        Va('rename-local', 'neutral', DISK, in_fn('DiskDevice.rename', lambda fn: mu.rename_local(fn, 'old_native_path', 'src'))),
    ]


def _normpath_late(fn):
    s = [x for x in fn.body if norm(x) == 'dospath = ntpath.normpath(dospath)'][0]
    fn.body.remove(s)
    k = [i for i, x in enumerate(fn.body) if isinstance(x, ast.While)][0]
    fn.body.insert(k + 1, s)
    return True

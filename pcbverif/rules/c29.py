"""
C29 -- files written to a cassette image read back intact (structural half:
writer/reader protocol agreement).

Decides:
 * header: the writer packs '<c' + F + 'BB' starting with the magic 0xA5 and
   the reader unpacks exactly F from record[1 : 1+calcsize(F)] and requires the
   same magic; the field order (name, type token, length, segment, offset)
   agrees; type tokens round-trip through TYPE_TO_TOKEN / TOKEN_TO_TYPE;
 * data/ASCII files: both sides use 255-byte payloads in 256-byte records with
   a leading length byte (writer: b'\\0' + 255 bytes for full records; reader:
   record[1:], num_bytes-1 valid bytes); blocks are 256 bytes + a big-endian
   CRC on both sides;
 * binary files (M, B, P): one multi-block record of the header's length on
   both sides;
 * terminator: the reader ends a data/ASCII file only on a record whose
   length byte is non-zero, so every normal path of _close_record_buffer in
   write mode for a non-binary file must write such a record.  Today's tree
   skips it under `if data:` when the payload is a multiple of 255 -- the next
   file's header is then read as data.  Recorded as a known finding (a
   format-compatible repair needs the maintainer's decision);
 * search: _search loops over headers until name and type match, reports the
   others as skipped, and turns end-of-tape into Device timeout after rewinding.
Not decided: bit-stream encodings (CAS/WAV).
"""
import ast
import struct

from ..source import norm, short, class_methods
from ..flow import own_nodes
from .. import mutate as mu

PROP = 'C29'
LEVEL = 'other'
TECHNIQUE = 'static analysis: writer/reader agreement of struct formats, record geometry and termination (must-pass-through on all normal paths)'
EXPLANATION = __doc__

CAS = 'pcbasic/basic/devices/cassette.py'


def _paths_write_nonzero_record(ctx, fn):
    """
    In _close_record_buffer: for rwmode == 'w' and non-binary filetype, is a _write_record with a provably
    non-zero first byte executed on every path?  Returns (ok, description of the escaping path).
    """
    fl = ctx.flow(fn)
    # find the else-branch for non-binary types
    for n in own_nodes(fn):
        if isinstance(n, ast.If) and norm(n.test) == "self.filetype in (b'M', b'B', b'P')":
            text_branch = n.orelse
            # every path through text_branch must hit a qualifying call unconditionally
            def must(body):
                for st in body:
                    if isinstance(st, ast.Expr) and isinstance(st.value, ast.Call) and norm(st.value.func) == 'self._write_record':
                        a = st.value.args[0]
                        if _first_byte_nonzero(a):
                            return True, ''
                    if isinstance(st, ast.If):
                        t, why_t = must(st.body)
                        e, why_e = must(st.orelse)
                        if t and e:
                            return True, ''
                        if t and not e:
                            path = 'when `%s` is false' % norm(st.test)
                        elif e and not t:
                            path = 'when `%s` is true' % norm(st.test)
                        else:
                            continue
                        # continue scanning: maybe a later unconditional write
                        rest_ok, _ = must(body[body.index(st) + 1:])
                        if rest_ok:
                            return True, ''
                        return False, path
                return False, 'no terminating record is written'
            return must(text_branch)
    return False, 'structure of _close_record_buffer not recognised'


def _first_byte_nonzero(a):
    """int2byte(len(data)) + data under a fact that data is non-empty is handled by the caller; here: literal or max(1, ..)."""
    if isinstance(a, ast.BinOp) and isinstance(a.op, ast.Add):
        return _first_byte_nonzero(a.left)
    if isinstance(a, ast.Constant) and isinstance(a.value, bytes):
        return bool(a.value) and a.value[0] != 0
    if isinstance(a, ast.Call) and norm(a.func) == 'int2byte' and a.args:
        x = a.args[0]
        if isinstance(x, ast.Call) and norm(x.func) == 'max' and any(isinstance(v, ast.Constant) and isinstance(v.value, int) and v.value >= 1 for v in x.args):
            return True
        if isinstance(x, ast.BinOp) and isinstance(x.op, ast.Add) and any(isinstance(v, ast.Constant) and isinstance(v.value, int) and v.value >= 1 for v in (x.left, x.right)):
            return True
        # int2byte(len(data)) is non-zero only where data is known non-empty: caller's If(data) handles it
        if norm(x) == 'len(data)':
            p = a
            while p is not None and not isinstance(p, ast.If):
                p = getattr(p, '_parent', None)
            return isinstance(p, ast.If) and norm(p.test) == 'data'
    return False


def check(ctx, rep):
    from . import c15 as _c15, _share as _sh
    _sh.share(ctx, rep, _c15, ('saveload.announced',), 'the length written into the tape header is the number of bytes SAVE writes')
    ow = ctx.fn(CAS + ':CassetteStream.open_write')
    orr = ctx.fn(CAS + ':CassetteStream.open_read')
    pk = [c for c in own_nodes(ow) if isinstance(c, ast.Call) and norm(c.func) == 'struct.pack']
    up = [c for c in own_nodes(orr) if isinstance(c, ast.Call) and norm(c.func) == 'struct.unpack']
    ok = len(pk) == 1 and len(up) == 1
    rep.ob('header.one-pack-one-unpack', 'one header pack and one header unpack', ok, '', ctx.where(ow))
    if ok:
        wf, rf = ctx.fold(pk[0].args[0]), ctx.fold(up[0].args[0])
        ok2 = isinstance(wf, str) and isinstance(rf, str) and wf.startswith('<c') and wf[2:].startswith(rf[1:]) and rf.startswith('<')
        rep.ob('header.format-agrees', 'reader format is the writer format after the magic byte', ok2, 'writer %r reader %r' % (wf, rf), ctx.where(up[0]))
        sl = up[0].args[1]
        ok3 = isinstance(sl, ast.Subscript) and isinstance(sl.slice, ast.Slice) and ctx.fold(sl.slice.lower) == 1 and \
            isinstance(rf, str) and ctx.fold(sl.slice.upper) == 1 + struct.calcsize(rf)
        rep.ob('header.slice-agrees', 'reader unpacks record[1 : 1+calcsize(format)]', ok3, norm(sl), ctx.where(up[0]))
        wargs = [norm(a) for a in pk[0].args[1:]]
        rep.ob('header.magic', 'writer starts the header with 0xA5 and the reader requires it',
               wargs[:1] == ["b'\\xa5'"] and any(isinstance(n, ast.Compare) and norm(n) == "record[0:1] == b'\\xa5'" for n in own_nodes(orr)), repr(wargs[:1]), ctx.where(ow))
        tgt = [a for a in own_nodes(orr) if isinstance(a, ast.Assign) and a.value is up[0]]
        rnames = [norm(e) for e in tgt[0].targets[0].elts] if tgt else []
        rep.ob('header.field-order', 'fields: name, type token, length, segment, offset on both sides',
               wargs[2:6] == ['TYPE_TO_TOKEN[filetype]', 'length', 'seg', 'offs'] and rnames == ['file_trunk', 'token', 'self.length', 'seg', 'offset']
               and wargs[1].startswith('name[:8]'), '%r / %r' % (wargs, rnames), ctx.where(ow))
    t2t = ctx.const(CAS, 'TOKEN_TO_TYPE')
    rev = {}
    for k, v in t2t.items():
        rev[v] = k
    rep.ob('header.type-tokens-roundtrip', 'every file type maps to a token that maps back to it',
           all(t2t[rev[t]] == t for t in rev) and set(rev) == {b'D', b'M', b'P', b'A', b'B'}, repr(t2t), CAS)
    m = ctx.mod(CAS)
    rep.ob('header.type-tokens-roundtrip', 'TYPE_TO_TOKEN is derived from TOKEN_TO_TYPE', norm(m.assigns['TYPE_TO_TOKEN']) == 'dict((reversed(item) for item in TOKEN_TO_TYPE.items()))', '', CAS)
    # data records
    fl_ = ctx.fn(CAS + ':CassetteStream._flush_record_buffer')
    t = norm(fl_)
    rep.ob('data.writer-geometry', 'full data records are a zero length byte + 255 payload bytes',
           'len(data) < 255' in t and 'chunk, data = (data[:255], data[255:])' in t and "self._write_record(b'\\x00' + chunk)" in t, '', ctx.where(fl_))
    fr = ctx.fn(CAS + ':CassetteStream._fill_record_buffer')
    t = norm(fr)
    rep.ob('data.reader-geometry', 'reader takes 256-byte records, strips the length byte, keeps num_bytes-1 bytes of the last one',
           'record = self._read_record(256)' in t and 'num_bytes = ord(record[0:1])' in t and 'record = record[1:]' in t and 'record = record[:num_bytes - 1]' in t, '', ctx.where(fr))
    flr = ctx.flow(fr)
    comp = [a for a in own_nodes(fr) if isinstance(a, ast.Assign) and norm(a) == 'self.buffer_complete = True']
    rep.ob('data.reader-ends-on-nonzero-length', 'a data/ASCII file ends only on a record with a non-zero length byte',
           any(flr.knows(c, 'num_bytes != 0', True) for c in comp), '', ctx.where(fr))
    wb = ctx.fn(CAS + ':CassetteStream._write_block')
    rb = ctx.fn(CAS + ':CassetteStream._read_block')
    tw, tr = norm(wb), norm(rb)
    rep.ob('block.size', 'blocks are 256 bytes on both sides', 'data += data[-1:] * (256 - len(data))' in tw and 'count == 256' in tr, '', ctx.where(wb))
    rep.ob('block.crc-order', 'CRC is written high byte first and read as bytes0*256+bytes1',
           tw.index('self.bitstream.write_byte(hi)') < tw.index('self.bitstream.write_byte(lo)') and 'crc_given = bytes0 * 256 + bytes1' in tr
           and "lo, hi = (ord(_b) for _b in iterchar(struct.pack('<H', crc_word)))" in tw, '', ctx.where(wb))
    rep.ob('block.crc-checked', 'a CRC mismatch raises', 'raise CRCError' in tr and 'crc_given == crc_calc' in tr, '', ctx.where(rb))
    wr = ctx.fn(CAS + ':CassetteStream._write_record')
    rep.ob('record.blocks', 'records are written as consecutive 256-byte blocks', 'self._write_block(data[:256])' in norm(wr) and 'data = data[256:]' in norm(wr), '', ctx.where(wr))
    # binary
    cl = ctx.fn(CAS + ':CassetteStream._close_record_buffer')
    flc = ctx.flow(cl)
    binw = [c for c in own_nodes(cl) if isinstance(c, ast.Call) and norm(c) == 'self._write_record(data)']
    rep.ob('binary.one-record', 'binary files are written as one record', len(binw) == 1 and flc.knows(binw[0], "self.filetype in (b'M', b'B', b'P')", True), '', ctx.where(cl))
    rep.ob('binary.one-record', 'and read as one record of the header length', "self.record_stream.write(self._read_record(self.length))" in norm(fr), '', ctx.where(fr))
    # terminator
    ok, why = _paths_write_nonzero_record(ctx, cl)
    rep.ob('terminator.always-written', '_close_record_buffer: data/ASCII files always end with a non-zero-length record', ok,
           'no terminating record %s: the reader runs on into the next file' % why, ctx.where(cl))
    # the one case in which the last record is left out today (the known finding above) is an empty remainder;
    # a guard that asks for more than `data` being non-empty drops the end-of-file byte that is all that is left
    # when the content fills its records exactly
    lastw = [c for c in own_nodes(cl) if isinstance(c, ast.Call) and norm(c.func) == 'self._write_record' and c.args and flc.knows(c, "self.filetype in (b'M', b'B', b'P')", False)]
    rep.floor('terminator.left-out-only-when-nothing-remains', len(lastw), 1, 'writes of the terminating record')
    NONEMPTY = {('data', True), ('len(data) > 0', True), ('len(data) >= 1', True), ('len(data) != 0', True), ('len(data) == 0', False), ('len(data) < 1', False),
                ('not data', False), ('len(data)', True)}
    for c in lastw:
        about = [(f.text, bool(f.pol)) for f in flc.facts(c) if 'data' in f.text]
        rep.ob('terminator.left-out-only-when-nothing-remains', '_close_record_buffer: %s' % short(c, 60), all(a in NONEMPTY for a in about),
               'the last record is written only when %s: a remainder of one byte (the end-of-file mark after content that fills its records) is dropped and the reader runs on into the next file'
               % ' and '.join('`%s` is %s' % a for a in about if a not in NONEMPTY), ctx.where(c))
    # a bounded read asks the record buffer for exactly the bytes still missing, so the count never exceeds the
    # request: the loop must stop when the count *reaches* it, or it fills the next record over the unread rest
    rd = ctx.fn(CAS + ':CassetteStream.read')
    flr = ctx.flow(rd)
    full = []
    for r in own_nodes(rd):
        if isinstance(r, ast.Return) and flr.knows(r, 'nbytes > -1', True):
            for f in flr.facts(r):
                full.append((f.text, bool(f.pol)))
    reach = {('len(c) >= nbytes', True), ('len(c) == nbytes', True), ('nbytes <= len(c)', True), ('nbytes == len(c)', True), ('len(c) < nbytes', False), ('nbytes > len(c)', False)}
    cmp_ = [a for a in full if 'len(c)' in a[0]]
    rep.floor('read.bounded-read-stops-when-full', len(cmp_), 1, 'exit tests of the bounded read')
    rep.ob('read.bounded-read-stops-when-full', 'read(n): returns as soon as n bytes have been gathered', bool(cmp_) and all(a in reach for a in cmp_),
           'exit test %s: never true (the buffer is asked for n - len(c) bytes), so each read refills the record buffer and drops the rest of the record' % cmp_, ctx.where(rd))
    real = [x for x in cl.body if not (isinstance(x, ast.Expr) and isinstance(x.value, ast.Constant))]
    wif = real[0] if real and isinstance(real[0], ast.If) else None
    wreal = [x for x in (wif.body if wif else []) if not (isinstance(x, ast.Expr) and isinstance(x.value, ast.Constant))]
    rep.ob('terminator.flush-first', 'close flushes full records before writing the last one',
           bool(wreal) and norm(wreal[0]) == 'self._flush_record_buffer()', '', ctx.where(cl))
    # every record carries at least one block: the reader (and the skip path of the search, which reads one
    # block per record) cannot parse a leader followed directly by a trailer
    def nonempty(e, fn):
        if isinstance(e, ast.Constant) and isinstance(e.value, bytes):
            return len(e.value) > 0
        if isinstance(e, ast.Call) and norm(e.func) in ('int2byte', 'struct.pack'):
            return True
        if isinstance(e, ast.BinOp) and isinstance(e.op, ast.Add):
            return nonempty(e.left, fn) or nonempty(e.right, fn)
        if isinstance(e, ast.Name):
            defs = [a.value for a in own_nodes(fn) if isinstance(a, ast.Assign) and norm(a.targets[0]) == e.id]
            return bool(defs) and all(nonempty(d, fn) for d in defs)
        return False
    nrec = 0
    for fn in ctx.idx.functions(CAS):
        for c in own_nodes(fn):
            if isinstance(c, ast.Call) and norm(c.func) == 'self._write_record' and len(c.args) == 1:
                nrec += 1
                flc = ctx.flow(fn)
                guarded = any(f.pol and f.text == norm(c.args[0]) for f in flc.facts(c))
                rep.ob('record.never-empty', '%s: _write_record(%s) writes at least one block' % (fn.name, short(c.args[0], 40)),
                       guarded or nonempty(c.args[0], fn),
                       'the payload can be empty (a zero-length BSAVE image): the record has a leader and a trailer but no block, and skipping it fails with Device I/O error',
                       ctx.where(c))
    rep.floor('record.never-empty', nrec, 4, 'records written')
    # the set of "one multi-block record" file types is written out in several methods: flush, close and fill
    # must agree on it, or a file is written in one record geometry and read (or finished) in the other
    sets = []
    for fn in class_methods(ctx.cls(CAS + ':CassetteStream')).values():
        for c in own_nodes(fn):
            if isinstance(c, ast.Compare) and len(c.ops) == 1 and isinstance(c.ops[0], (ast.In, ast.NotIn)) and norm(c.left) == 'self.filetype' \
                    and isinstance(c.comparators[0], ast.Tuple):
                v = ctx.fold(c.comparators[0])
                sets.append((fn.name, tuple(sorted(v)) if isinstance(v, tuple) else None, c))
    ref = [v for n, v, c in sets if n == '_fill_record_buffer']
    for n, v, c in sets:
        rep.ob('binary.type-set-agrees', '%s: the single-record file types are %s' % (n, b''.join(ref[0]).decode() if ref and ref[0] else '?'),
               bool(ref) and v == ref[0], '%s tests %r but the reader uses %r' % (n, v, ref[0] if ref else None), ctx.where(c))
    rep.floor('binary.type-set-agrees', len(sets), 3, 'type-set tests')
    # search
    se = ctx.fn(CAS + ':CASDevice._search')
    ts = norm(se)
    import re as _re
    ow_ = ctx.fn(CAS + ':CassetteStream.open_write')
    packs_ = [c for c in own_nodes(ow_) if isinstance(c, ast.Call) and norm(c.func) == 'struct.pack']
    width = None
    if packs_:
        m_ = _re.search(r'(\d+)s', ctx.fold(packs_[0].args[0]) if not isinstance(packs_[0].args[0], ast.Constant) else packs_[0].args[0].value)
        width = int(m_.group(1)) if m_ else None
    wslices = [x for c in packs_ for x in ast.walk(c) if isinstance(x, ast.Subscript) and norm(x.value) == 'name' and isinstance(x.slice, ast.Slice)]
    wcut = wslices[0].slice.upper.value if wslices and isinstance(wslices[0].slice.upper, ast.Constant) and wslices[0].slice.lower is None else None
    rep.ob('header.name-field-width', 'the writer cuts the name to the %s-byte header field' % width, width is not None and wcut == width, 'name[:%s] into a %ss field' % (wcut, width), ctx.where(ow_))
    conds = [n for n in own_nodes(se) if isinstance(n, ast.If) and isinstance(n.test, ast.BoolOp) and isinstance(n.test.op, ast.And)]
    okm, detail = False, ''
    if len(conds) == 1 and len(conds[0].test.values) == 2:
        nm, ty = conds[0].test.values
        okt = norm(ty) == 'not filetypes_req or filetype in filetypes_req'
        cmpn = [c for c in ast.walk(nm) if isinstance(c, ast.Compare) and len(c.ops) == 1 and isinstance(c.ops[0], ast.Eq)]
        okn = False
        if isinstance(nm, ast.BoolOp) and isinstance(nm.op, ast.Or) and norm(nm.values[0]) == 'not trunk_req' and len(cmpn) == 1:
            l, r = norm(cmpn[0].left), norm(cmpn[0].comparators[0])
            okn = l == 'trunk.rstrip()' and r == 'trunk_req[:%s].rstrip()' % width
            detail = '%s == %s: the header holds only the first %s characters of the name' % (l, r, width)
        okm = okt and okn
        if not okt:
            detail = 'type test is `%s`' % norm(ty)
    rep.ob('search.match', 'a file is found when its type matches and the stored name equals the requested name cut to the header field (both blank-trimmed)',
           okm, detail, ctx.where(se))
    hs = [h for n in own_nodes(se) if isinstance(n, ast.Try) for h in n.handlers]
    codes = [ctx.basic_error_code(r) for h in hs for r in own_nodes(h) if isinstance(r, ast.Raise)]
    hb = [norm(x) for h in hs for x in h.body]
    rep.ob('search.timeout-leaves-tape-closed', 'at the end of the tape the file last skipped over is closed before Device timeout is raised (open_read marks the stream open)',
           len(hs) == 1 and 'self.tapestream.close()' in hb and hb.index('self.tapestream.close()') < max(i for i, x in enumerate(hb) if x.startswith('raise ')),
           'the stream stays open: every later OPEN / LOAD on the device fails with File already open', ctx.where(se))
    orr = ctx.fn(CAS + ':CassetteStream.open_read')
    rep.ob('search.open-read-marks-open', 'open_read marks the stream open (the reason a failed search must close it)',
           any(norm(x) == 'self.is_open = True' for x in own_nodes(orr) if isinstance(x, ast.Assign)), '', ctx.where(orr))
    rep.ob('search.end-of-tape', 'end of tape rewinds and raises Device timeout', len(hs) == 1 and norm(hs[0].type) == 'EndOfTape' and codes == ['DEVICE_TIMEOUT']
           and 'self.tapestream.wind(0)' in norm(hs[0]), repr(codes), ctx.where(se))
    op = ctx.fn(CAS + ':CASDevice.open')
    rep.ob('search.open-one-file', 'only one file can be open on the tape', any(isinstance(n, ast.If) and norm(n.test) == 'self.tapestream.is_open'
                                                                              and ctx.basic_error_code(n.body[0]) == 'FILE_ALREADY_OPEN' for n in own_nodes(op)), '', ctx.where(op))


def variants(ctx):
    Va = mu.Variant

    def in_fn(f_name, f):
        return lambda tree: f(mu.find_def(tree, f_name))

    return [
        Va('terminator-fixed-count-at-least-one', 'repair', CAS,
           in_fn('CassetteStream._close_record_buffer', lambda fn: mu.replace_stmt(fn, lambda st: isinstance(st, ast.If) and norm(st.test) == 'data',
                                                                                  'self._write_record(int2byte(max(1, len(data))) + data)')),
           expect='terminator.always-written', note='repaired overlay: the known finding must disappear'),
        Va('last-record-needs-two-bytes', 'break', CAS,
           in_fn('CassetteStream._close_record_buffer', lambda fn: mu.replace_stmt(fn, lambda st: isinstance(st, ast.If) and norm(st.test) == 'data',
                                                                                  'if len(data) > 1:\n    self._write_record(int2byte(len(data)) + data)')), expect='terminator.left-out-only'),
        Va('last-record-guard-spelled-with-len', 'neutral', CAS,
           in_fn('CassetteStream._close_record_buffer', lambda fn: mu.replace_stmt(fn, lambda st: isinstance(st, ast.If) and norm(st.test) == 'data',
                                                                                  'if len(data) > 0:\n    self._write_record(int2byte(len(data)) + data)'))),
        Va('bounded-read-never-full', 'break', CAS,
           in_fn('CassetteStream.read', lambda fn: mu.replace_expr(fn, mu.text_is('len(c) >= nbytes'), 'len(c) > nbytes')), expect='read.bounded-read-stops-when-full'),
        Va('bounded-read-exact', 'neutral', CAS,
           in_fn('CassetteStream.read', lambda fn: mu.replace_expr(fn, mu.text_is('len(c) >= nbytes'), 'len(c) == nbytes'))),
        Va('header-reader-shifted', 'break', CAS,
           in_fn('CassetteStream.open_read', lambda fn: mu.replace_expr(fn, mu.text_is('record[1:16]'), 'record[0:15]')), expect='header.slice'),
        Va('header-writer-swaps-seg-length', 'break', CAS,
           in_fn('CassetteStream.open_write', lambda fn: mu.replace_expr(fn, lambda n: isinstance(n, ast.Call) and norm(n.func) == 'struct.pack',
                                                                        "struct.pack('<c8sBHHHBB', b'\\xa5', name[:8] + b' ' * (8 - len(name)), TYPE_TO_TOKEN[filetype], seg, length, offs, 0, 1)")),
           expect='header.field-order'),
        Va('reader-format-narrower', 'break', CAS,
           in_fn('CassetteStream.open_read', lambda fn: mu.replace_expr(fn, lambda n: isinstance(n, ast.Constant) and n.value == '<8sBHHH', "'<8sBBHH'")), expect='header.format'),
        Va('writer-256-byte-payload', 'break', CAS,
           in_fn('CassetteStream._flush_record_buffer', lambda fn: mu.replace_stmt(fn, mu.text_is('chunk, data = (data[:255], data[255:])'), 'chunk, data = (data[:256], data[256:])')),
           expect='data.writer'),
        Va('reader-keeps-all-bytes-of-last-record', 'break', CAS,
           in_fn('CassetteStream._fill_record_buffer', lambda fn: mu.replace_stmt(fn, mu.text_is('record = record[:num_bytes - 1]'), 'record = record[:num_bytes]')), expect='data.reader'),
        Va('crc-little-endian-writer', 'break', CAS, in_fn('CassetteStream._write_block', _swap_crc), expect='block.crc'),
        Va('binary-read-one-block', 'break', CAS,
           in_fn('CassetteStream._fill_record_buffer', lambda fn: mu.replace_expr(fn, mu.text_is('self._read_record(self.length)'), 'self._read_record(256)')), expect='binary'),
        Va('flush-forgets-protected-type', 'break', CAS,
           in_fn('CassetteStream._flush_record_buffer', lambda fn: mu.replace_expr(fn, mu.text_is("(b'M', b'B', b'P')"), "(b'M', b'B')")), expect='binary.type-set'),
        Va('timeout-leaves-file-open', 'break', CAS,
           in_fn('CASDevice._search', lambda fn: mu.remove_stmt(fn, mu.text_is('self.tapestream.close()'))), expect='search.timeout'),
        Va('search-compares-uncut-name', 'break', CAS,
           in_fn('CASDevice._search', lambda fn: mu.replace_expr(fn, mu.text_is('trunk_req[:8].rstrip()'), 'trunk_req.rstrip()')), expect='search.match'),
        Va('search-ignores-type', 'break', CAS,
           in_fn('CASDevice._search', lambda fn: mu.replace_expr(fn, mu.text_is('not filetypes_req or filetype in filetypes_req'), 'True')), expect='search.match'),
        Va('type-token-collision', 'break', CAS,
           lambda tree: mu.set_dict_value(mu.find_assign_value(tree, 'TOKEN_TO_TYPE'), '128', "b'A'"), expect='header.type-tokens'),
    ]


def _swap_crc(fn):
    a = [s for s in fn.body if norm(s) == 'self.bitstream.write_byte(hi)'][0]
    b = [s for s in fn.body if norm(s) == 'self.bitstream.write_byte(lo)'][0]
    ia, ib = fn.body.index(a), fn.body.index(b)
    fn.body[ia], fn.body[ib] = fn.body[ib], fn.body[ia]
    return True

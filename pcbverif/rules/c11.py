"""
C11 -- variable storage is faithfully exposed and never aliased (structural half).

Decides address-base consistency with UnitFlow: every expression in the
variable-memory code (Scalars, Arrays, StringSpace.get_memory/view/store,
DataSegment._get_var_memory/varptr) is typed as ABS (an address in the data
segment) or OFF (an offset or size), seeded by a frozen table
(var_start() var_current() stack_start() code_start strings.current, string
addresses : ABS;  Scalars.current Arrays.current, record/buffer sizes, len() :
OFF; the pointer tables inherit: Scalars._var_memory holds (ABS, ABS),
Arrays._array_memory holds (OFF, OFF) relative to the array area).  Adding two
addresses, subtracting an address from an offset, or comparing an address with
an offset is an error -- it makes PEEK read another variable's bytes.
Also: the duplicated record-size formulas agree after normalisation;
VARPTR$ packs size and the same address VARPTR returns; varptr of an array
element = area start + buffer offset + element size * flat index; ERASE shifts
exactly the arrays stored after the erased one by the freed size.
Not decided: disjointness over histories.
"""
import ast

from ..source import norm, short, qualname, class_methods
from ..flow import own_nodes
from ..units import UnitFlow, NUM
from ..algebra import lin
from .. import mutate as mu

PROP = 'C11'
LEVEL = 'other'
TECHNIQUE = 'static analysis: unit-typed abstract interpretation (absolute address vs offset) of the variable-memory code, formula agreement'
EXPLANATION = __doc__

A = 'pcbasic/basic/memory/arrays.py'
S = 'pcbasic/basic/memory/scalars.py'
M = 'pcbasic/basic/memory/memory.py'
ST = 'pcbasic/basic/values/strings.py'

COMMON_SEEDS = {
    '*var_current()': 'ABS', '*var_start()': 'ABS', '*stack_start()': 'ABS', '*.code_start': 'ABS',
    '*strings.current': 'ABS', '*arrays.current': 'OFF', '*scalars.current': 'OFF',
    'call:*_record_size': 'OFF', 'call:*_buffer_size': 'OFF', 'call:*memory_size': 'OFF', 'call:values.size_bytes': 'OFF',
    'call:self.memory_size': 'OFF', 'call:*.index': NUM, 'call:*flat_length': NUM,
}
PARAMS = {
    ('get_memory', 'address'): 'ABS', ('dereference', 'address'): 'ABS', ('_get_var_memory', 'address'): 'ABS',
    ('view', 'address'): 'ABS', ('check_modify', 'address'): 'ABS', ('_retrieve', 'address'): 'ABS',
}
PER_CLASS = {
    (A, 'Arrays'): dict(seeds={'self.current': 'OFF'}, containers={'self._array_memory': ('OFF', 'OFF')}),
    (S, 'Scalars'): dict(seeds={'self.current': 'OFF'}, containers={'self._var_memory': ('ABS', 'ABS')}),
    (ST, 'StringSpace'): dict(seeds={'self.current': 'ABS'}, containers={'key:self._strings': 'ABS'}),
    (M, 'DataSegment'): dict(seeds={}, containers={}),
}
METHODS = {
    (A, 'Arrays'): None,   # all methods
    (S, 'Scalars'): None,
    (ST, 'StringSpace'): ['get_memory', 'view', 'check_modify', 'store', '_delete_last', 'clear', 'collect_garbage'],
    (M, 'DataSegment'): ['_get_var_memory', 'varptr', 'var_start', 'var_current', '_get_free', 'check_free'],
}


def _swap_pairs(ctx, rep):
    """SWAP exchanges exactly its two operands: each operand's name is looked up with its own subscripts."""
    sw = ctx.fn('pcbasic/basic/memory/memory.py:DataSegment.swap_')
    pairs = []
    for a in own_nodes(sw):
        if isinstance(a, ast.Assign) and isinstance(a.targets[0], ast.Tuple) and len(a.targets[0].elts) == 2 \
                and all(isinstance(e, ast.Name) for e in a.targets[0].elts) and norm(a.value) == 'next(args)':
            pairs.append(tuple(e.id for e in a.targets[0].elts))
    rep.ob('swap.operands-paired', 'swap_ reads two (name, subscripts) operands', len(pairs) == 2, repr(pairs), ctx.where(sw))
    views = [c for c in own_nodes(sw) if isinstance(c, ast.Call) and norm(c.func) == 'self._view_buffer']
    seen = []
    for c in views:
        names = [x.id for x in c.args[:2] if isinstance(x, ast.Name)]
        ok = len(names) == 2 and tuple(names) in pairs
        seen.append(tuple(names))
        rep.ob('swap.operands-paired', 'swap_: %s takes a name with its own subscripts' % short(c, 50), ok,
               'the buffer is looked up with the subscripts of the other operand: SWAP changes an element that was not named', ctx.where(c))
    rep.ob('swap.operands-paired', 'swap_ views both operands, once each', sorted(seen) == sorted(pairs), repr(seen), ctx.where(sw))
    ex = [a for a in own_nodes(sw) if isinstance(a, ast.Assign) and isinstance(a.targets[0], ast.Tuple) and isinstance(a.value, ast.Tuple) and len(a.value.elts) == 2
          and all(isinstance(t, ast.Subscript) for t in a.targets[0].elts)]
    ok = False
    if len(ex) == 1:
        l, r = (norm(t.value) for t in ex[0].targets[0].elts)
        ok = [norm(v) for v in ex[0].value.elts] == ['%s.tobytes()' % r, '%s.tobytes()' % l]
        srcs = dict((norm(a.targets[0]), a.value) for a in own_nodes(sw) if isinstance(a, ast.Assign) and isinstance(a.targets[0], ast.Name))
        ok = ok and all(n in srcs and srcs[n] in views for n in (l, r)) and l != r
    rep.ob('swap.operands-paired', 'swap_ stores each buffer`s bytes into the other', ok, '', ctx.where(sw))


def _sigil_survives(ctx, rep):
    """A name written with a type character keeps it: read_name cuts the name to 40 characters before it appends the
    sigil, and nothing cuts the name afterwards -- otherwise A...A% and A...A$ (40+ characters) are one variable."""
    rn = ctx.fn('pcbasic/basic/base/codestream.py:CodeStream.read_name')
    fl = ctx.flow(rn)
    app = [a for a in own_nodes(rn) if isinstance(a, ast.AugAssign) and norm(a.target) == 'name' and isinstance(a.op, ast.Add)
           and any(f.text == 'd in tk.SIGILS' and f.pol for f in fl.facts(a))]
    rep.ob('names.sigil-survives-truncation', 'read_name appends the type character it reads', len(app) == 1, '', ctx.where(rn))
    if len(app) != 1:
        return
    pos = (app[0].lineno, app[0].col_offset)
    cuts = [n for n in own_nodes(rn) if isinstance(n, ast.Subscript) and isinstance(n.slice, ast.Slice) and norm(n.value) == 'name']
    rep.floor('names.sigil-survives-truncation', len(cuts), 1, 'truncations of the name')
    for c in cuts:
        rep.ob('names.sigil-survives-truncation', 'read_name: %s comes before the type character is appended' % norm(c),
               (c.lineno, c.col_offset) < pos and ctx.fold(c.slice.upper) == 40 and c.slice.lower is None,
               'the name is cut after the type character has been appended: a 40-character name loses its sigil and all four types collapse into one variable', ctx.where(c))
    rets = [r for r in own_nodes(rn) if isinstance(r, ast.Return) and (r.lineno, r.col_offset) > pos]
    rep.ob('names.sigil-survives-truncation', 'read_name returns the whole name, upper-cased', [norm(r.value) for r in rets] == ['name.upper()'],
           repr([norm(r.value) for r in rets]), ctx.where(rn))


def check(ctx, rep):
    _swap_pairs(ctx, rep)
    from ..sigils import check as _sigils
    _sigils(ctx, rep, ['pcbasic/basic/memory/memory.py:DataSegment.swap_'], 2)
    _sigil_survives(ctx, rep)
    from . import c12, c10, _share
    _share.share(ctx, rep, c10, ('temporaries.boundary', 'roots.argument', 'roots.array-views', 'roots.scalar-views', 'collector.one-copy-per-string'), 'a live string is never treated as a temporary or read after it may have been collected (assigning one variable must not change another)')
    _share.share(ctx, rep, c12, ('index.', 'allocate.checks-what-it-takes'), 'distinct in-bounds subscript tuples get distinct element offsets (mixed-radix numeral)')
    total_checked = 0
    n_fn = 0
    for (path, cname), cfg in sorted(PER_CLASS.items()):
        cls = ctx.cls('%s:%s' % (path, cname))
        seeds = dict(COMMON_SEEDS)
        seeds.update(cfg['seeds'])
        meths = class_methods(cls)
        names = METHODS[(path, cname)] or sorted(meths)
        for mname in names:
            if mname not in meths:
                rep.error('anchor %s.%s vanished' % (cname, mname))
                continue
            fn = meths[mname]
            uf = UnitFlow('ABS', 'OFF', seeds=seeds, params=PARAMS, containers=cfg['containers'])
            uf.run(fn)
            n_fn += 1
            total_checked += uf.checked
            if not uf.errors:
                rep.ob('units.consistent', '%s.%s' % (cname, mname), True)
            for e in uf.errors:
                rep.ob('units.consistent', '%s.%s: %s' % (cname, mname, short(e.node, 80)), False, e.msg, ctx.where(e.node))
    rep.note('unit_typed_comparisons', total_checked)
    rep.floor('units.consistent', n_fn, 30, 'functions analysed')
    rep.floor('units.typed-comparisons', total_checked, 12, 'comparisons with both sides typed')
    # ---- seeds are what they claim: definitions of the seed functions --------------
    vs = ctx.fn(M + ':DataSegment.var_start')
    vc = ctx.fn(M + ':DataSegment.var_current')
    ss = ctx.fn(M + ':DataSegment.stack_start')
    ret = lambda fn: norm([r for r in own_nodes(fn) if isinstance(r, ast.Return)][0].value)
    rep.ob('seeds.definitions', 'var_start = code_start + program size', ret(vs) == 'self.code_start + self.program.size()', ret(vs), ctx.where(vs))
    rep.ob('seeds.definitions', 'var_current = var_start + scalars.current', ret(vc) == 'self.var_start() + self.scalars.current', ret(vc), ctx.where(vc))
    rep.ob('seeds.definitions', 'stack_start = total_memory - stack_size - 2', ret(ss) == 'self.total_memory - self.stack_size - 2', ret(ss), ctx.where(ss))
    # pointer tables are filled as the container seeds say
    sset = ctx.fn(S + ':Scalars.set')
    a = dict((norm(n.targets[0]), norm(n.value)) for n in own_nodes(sset) if isinstance(n, ast.Assign))
    rep.ob('seeds.pointer-tables', 'Scalars records absolute addresses: name_ptr = var_current(); var_ptr = name_ptr + record size',
           a.get('name_ptr') == 'self._memory.var_current()' and a.get('var_ptr') == 'name_ptr + self._record_size(name)'
           and a.get('self._var_memory[name]') == '(name_ptr, var_ptr)', repr(a), ctx.where(sset))
    al = ctx.fn(A + ':Arrays.allocate')
    a = dict((norm(n.targets[0]), norm(n.value)) for n in own_nodes(al) if isinstance(n, ast.Assign))
    rep.ob('seeds.pointer-tables', 'Arrays records offsets into the array area: name_ptr = self.current; array_ptr = name_ptr + record_len',
           a.get('name_ptr') == 'self.current' and a.get('array_ptr') == 'name_ptr + record_len' and a.get('self._array_memory[name]') == '(name_ptr, array_ptr)',
           repr(a), ctx.where(al))
    # ---- formulas ---------------------------------------------------------------------
    rs = ctx.fn(A + ':Arrays._record_size')
    er = ctx.fn(A + ':Arrays.erase_')
    f1 = lin([r for r in own_nodes(rs) if isinstance(r, ast.Return)][0].value)
    cp = [n.value for n in own_nodes(er) if isinstance(n, ast.Assign) and norm(n.targets[0]) == 'record_len']
    ok = len(cp) == 1 and (lin(cp[0]) == f1 or norm(cp[0]) == 'self._record_size(name, dimensions)')
    rep.ob('formula.record-size-agrees', 'ERASE frees the same record size that DIM allocated', ok, '%r vs %r' % (f1, lin(cp[0]) if cp else None), ctx.where(er))
    fb = [n.value for n in own_nodes(er) if isinstance(n, ast.Assign) and norm(n.targets[0]) == 'freed_bytes']
    rep.ob('formula.freed-bytes', 'freed bytes = buffer size + record size', len(fb) == 1 and lin(fb[0]) == {'self._buffer_size(name, dimensions)': 1, 'record_len': 1},
           '', ctx.where(er))
    srs = ctx.fn(S + ':Scalars._record_size')
    rep.ob('formula.scalar-record', 'scalar record = max(3, len(name)) + 1', lin([r for r in own_nodes(srs) if isinstance(r, ast.Return)][0].value) ==
           {'max(3, len(name))': 1, '': 1}, '', ctx.where(srs))
    # name field length used when reading array memory equals the one in the record size: 1 + max(3,len)
    gm = ctx.fn(A + ':Arrays.get_memory')
    uses = [norm(n) for n in own_nodes(gm) if isinstance(n, ast.BinOp) and 'max(3, len(the_arr))' in norm(n) and isinstance(n.op, ast.Add)]
    rep.ob('formula.name-field', 'Arrays.get_memory uses the name-field length 1 + max(3, len(name)) of the record', bool(uses) and
           all(u == 'max(3, len(the_arr)) + 1' for u in uses), repr(uses), ctx.where(gm))
    # shift on ERASE
    sh = [n for n in own_nodes(er) if isinstance(n, ast.If) and norm(n.test) == 'name_ptr > erased_name_ptr']
    ok = len(sh) == 1 and [norm(s) for s in sh[0].body] == ['self._array_memory[name] = (name_ptr - freed_bytes, array_ptr - freed_bytes)']
    rep.ob('erase.shift', 'ERASE moves exactly the arrays stored after the erased one down by the freed size', ok, '', ctx.where(er))
    cu = [n for n in own_nodes(er) if isinstance(n, ast.AugAssign) and norm(n) == 'self.current -= freed_bytes']
    rep.ob('erase.shift', 'and shrinks the array area by the same amount', len(cu) == 1, '', ctx.where(er))
    # ---- varptr / VARPTR$ ----------------------------------------------------------------
    av = ctx.fn(A + ':Arrays.varptr')
    r = [x for x in own_nodes(av) if isinstance(x, ast.Return)][0].value
    rep.ob('varptr.array-element', 'VARPTR(element) = array area start + buffer offset + element size * flat index',
           lin(r) == {'self._memory.var_current()': 1, 'array_ptr': 1, 'self.index(indices, dimensions)*values.size_bytes(name)': 1}, repr(lin(r)), ctx.where(av))
    vp = ctx.fn(M + ':DataSegment.varptr_str_')
    pk = [n for n in own_nodes(vp) if isinstance(n, ast.Call) and norm(n.func) == 'struct.pack']
    rep.ob('varptr.string-form', 'VARPTR$ = size byte + the address VARPTR computes',
           len(pk) == 1 and [norm(a) for a in pk[0].args] == ["'<BH'", 'values.size_bytes(self.complete_name(name))', 'var_ptr'] and
           any(norm(n) == 'var_ptr = self.varptr(name, indices)' for n in own_nodes(vp) if isinstance(n, ast.Assign)), '', ctx.where(vp))
    vpf = ctx.fn(M + ':DataSegment.varptr_')
    rep.ob('varptr.same-source', 'VARPTR uses the same DataSegment.varptr', any(norm(n) == 'var_ptr = self.varptr(name, indices)' for n in own_nodes(vpf) if isinstance(n, ast.Assign)), '', ctx.where(vpf))
    # memory dispatch ranges in _get_var_memory are ordered: scalars < arrays < (free) < strings
    gv = ctx.fn(M + ':DataSegment._get_var_memory')
    tests = []
    node = [s for s in gv.body if isinstance(s, ast.If)][0]
    while isinstance(node, ast.If):
        tests.append((norm(node.test), norm(node.body[0])))
        node = node.orelse[0] if len(node.orelse) == 1 and isinstance(node.orelse[0], ast.If) else None
    rep.ob('dispatch.var-memory', '_get_var_memory: scalars below var_current, arrays below var_current+arrays.current, strings above strings.current',
           tests == [('address < self.var_current()', 'return self.scalars.get_memory(address)'),
                     ('address < self.var_current() + self.arrays.current', 'return self.arrays.get_memory(address)'),
                     ('address > self.strings.current', 'return self.strings.get_memory(address)')], repr(tests), ctx.where(gv))
    # Arrays.get_memory must consider every array (no early exit from the search loop)
    loops = [n for n in gm.body if isinstance(n, ast.For) and norm(n.iter) == 'self._array_memory']
    brk = [b for l in loops for b in own_nodes(l) if isinstance(b, ast.Break)]
    rep.ob('search.all-arrays', 'Arrays.get_memory searches all arrays for the one containing the address', len(loops) == 1 and not brk,
           'the search loop stops at the first array: PEEK into any later array reads the first one', ctx.where(gm))
    sgm = ctx.fn(S + ':Scalars.get_memory')
    loops = [n for n in sgm.body if isinstance(n, ast.For)]
    brk = [b for l in loops for b in own_nodes(l) if isinstance(b, ast.Break)]
    rep.ob('search.all-scalars', 'Scalars.get_memory searches all scalars', len(loops) == 1 and not brk, '', ctx.where(sgm))
    # ---- searches over the variable tables use what they found, not what the loop ended on -------------
    from ..defassign import loop_target_escapes
    n_loops = 0
    for path in (A, S, M, ST):
        for fn in ctx.idx.functions(path):
            n_loops += len([x for x in ast.walk(fn) if isinstance(x, ast.For)])
            for name, node in loop_target_escapes(fn):
                rep.ob('search.loop-variable-read-after-loop', '%s: `%s` is read after the loop that binds it' % (qualname(fn).split(':')[1], name), False,
                       'after the loop the variable holds the last element iterated, not the one the search selected: the value is taken from the wrong variable/array',
                       ctx.where(node))
    rep.ob('search.loop-variable-read-after-loop', 'no loop variable of the variable-memory modules is read after its loop (%d loops)' % n_loops, True)
    rep.floor('search.loop-variable-read-after-loop', n_loops, 15, 'for loops in the variable-memory modules')
    # ---- assignment never makes two variables share one string descriptor ----------------------------
    # LET is the only statement that stores an *expression value* that may already be another variable's
    # string: a permanent (variable-owned) or FIELD string must be deep-copied before it is stored
    let = ctx.fn(M + ':DataSegment.let_')
    fll = ctx.flow(let)
    copies = [a for a in own_nodes(let) if isinstance(a, ast.Assign) and norm(a.targets[0]) == 'value'
              and 'from_str(value.dereference())' in norm(a.value) and '.new()' in norm(a.value)]
    need = set(['self.strings.is_permanent(value)', 'self.strings.is_field_string(value)'])
    ok = False
    got = set()
    if len(copies) == 1:
        p_ = copies[0]._parent
        if isinstance(p_, ast.If) and copies[0] in p_.body:
            t = p_.test
            got = set(norm(v) for v in (t.values if isinstance(t, ast.BoolOp) and isinstance(t.op, ast.Or) else [t]))
            ok = need <= got and fll.knows(copies[0], 'isinstance(value, values.String)', True)
    stores = [c for c in own_nodes(let) if isinstance(c, ast.Call) and norm(c.func) == 'self.set_variable' and len(c.args) == 3 and norm(c.args[2]) == 'value']
    rep.ob('no-alias.let-copies-owned-strings', 'LET deep-copies a string that is already owned by a variable or a FIELD buffer before storing it',
           ok and len(stores) == 1 and stores[0].lineno > copies[0].lineno,
           'copy happens only for %s: B$=A$ leaves two descriptors on one address, and MID$/LSET on one changes the other' % sorted(got), ctx.where(let))


def variants(ctx):
    Va = mu.Variant

    def in_fn(f_name, f):
        return lambda tree: f(mu.find_def(tree, f_name))

    return [
        Va('swap-second-operand-with-first-subscripts', 'break', M,
           in_fn('DataSegment.swap_', lambda fn: mu.replace_expr(fn, mu.text_is('self._view_buffer(name2, index2, True)'), 'self._view_buffer(name2, index1, True)')), expect='swap.operands-paired'),
        Va('name-cut-after-sigil', 'break', 'pcbasic/basic/base/codestream.py',
           in_fn('CodeStream.read_name', _cut_in_return), expect='names.sigil-survives-truncation'),
        Va('swap-compares-uncompleted-names', 'break', M,
           in_fn('DataSegment.swap_', lambda fn: mu.remove_stmt(fn, lambda st: isinstance(st, ast.Assign) and 'complete_name(name1)' in norm(st.value))), expect='names.sigil-read-from-completed-name'),
        Va('dereference-reads-last-array', 'break', A,
           lambda tree: mu.replace_expr(mu.find_def(tree, 'Arrays.dereference'), mu.text_is('self._buffers[found_name]'), 'self._buffers[name]'), expect='search.loop-variable'),
        Va('let-copies-field-strings-only', 'break', M,
           lambda tree: mu.replace_expr(mu.find_def(tree, 'DataSegment.let_'), mu.text_is('self.strings.is_permanent(value) or self.strings.is_field_string(value)'), 'self.strings.is_field_string(value)'), expect='no-alias'),
        Va('scalars-stores-offsets', 'break', S,
           in_fn('Scalars.set', lambda fn: mu.replace_stmt(fn, mu.text_is('name_ptr = self._memory.var_current()'), 'name_ptr = self.current')), expect='units'),
        Va('arrays-varptr-drops-area-start', 'break', A,
           in_fn('Arrays.varptr', lambda fn: mu.replace_expr(fn, mu.text_is('self._memory.var_current() + array_ptr'), 'array_ptr')), expect='varptr.array-element'),
        Va('dereference-compares-offset', 'break', A,
           in_fn('Arrays.dereference', lambda fn: mu.replace_stmt(fn, mu.text_is('addr = self._memory.var_current() + data[1]'), 'addr = data[1]')), expect='units'),
        Va('var-memory-dispatch-offset', 'break', M,
           in_fn('DataSegment._get_var_memory', lambda fn: mu.replace_expr(fn, mu.text_is('address < self.var_current() + self.arrays.current'),
                                                                         'address < self.scalars.current + self.arrays.current')), expect='units'),
        Va('erase-record-size-differs', 'break', A,
           in_fn('Arrays.erase_', lambda fn: mu.replace_expr(fn, mu.text_is('1 + max(3, len(name)) + 3 + 2 * len(dimensions)'), '1 + max(3, len(name)) + 2 + 2 * len(dimensions)')),
           expect='formula.record-size'),
        Va('erase-shifts-all', 'break', A,
           in_fn('Arrays.erase_', lambda fn: mu.replace_expr(fn, mu.text_is('name_ptr > erased_name_ptr'), 'name_ptr >= 0')), expect='erase.shift'),
        Va('varptr-str-other-address', 'break', M,
           in_fn('DataSegment.varptr_str_', lambda fn: mu.replace_expr(fn, lambda n: isinstance(n, ast.Name) and n.id == 'var_ptr' and isinstance(n.ctx, ast.Load), 'var_ptr + 1')),
           expect='varptr.string-form'),
        Va('string-view-compares-length', 'break', ST,
           in_fn('StringSpace.view', lambda fn: mu.replace_expr(fn, mu.text_is('address >= self._memory.var_start()'), 'address >= self._memory.scalars.current')), expect='units'),
        Va('search-stops-early', 'break', S,
           in_fn('Scalars.get_memory', lambda fn: mu.insert_before(fn, mu.text_is('the_var = name'), 'break', after=True)), expect='search'),
        Va('rename-locals', 'neutral', A, in_fn('Arrays.dereference', lambda fn: mu.rename_local(fn, 'addr', 'element_address'))),
    ]


def _cut_in_return(fn):
    ok = mu.remove_stmt(fn, mu.text_is('name = name[:40]'))
    return ok and mu.replace_expr(fn, mu.text_is('name.upper()'), 'name[:40].upper()')

"""
C15 -- saved programs load back identically; the protection cipher is a bijection.

Decides (the cipher part as a proof): unprotect o protect = id on every byte and stream
position, by algebra on the operation words extracted from the AST; plus
writer/reader table agreement (magic bytes, save/load file-type dispatch) and
the converter going through LOAD/SAVE of a Session.
Not decided: ASCII round trip (value-level; C17's runtime half).
"""
import ast

from ..source import norm, short, AnalysisError
from ..flow import own_nodes
from .. import mutate as mu

PROP = 'C15'
LEVEL = 'other'   # the cipher sub-claim is proved; the property as a whole has a known finding (tokenised LOAD keeps the EOF marker)
EXPLANATION = """
Static proof obligations over pcbasic/basic/converter/protect.py: the sequence
of augmented assignments on the byte variable in protect() and unprotect() is
extracted as an algebraic word over Z/256 (+=k, -=k, ^=k); unprotect's word must
be the reversed inverse of protect's word with AST-equal operands (adjacent xors
commute); both reduce mod 256 exactly at output, advance the position counter
identically from the same start, and index keys within their lengths. Table
checks: TYPE_TO_MAGIC/MAGIC_TO_TYPE mutually inverse, Program.save/load dispatch
on the same file types and call protect/unprotect in matching branches,
main._convert executes LOAD then SAVE statements of a Session.
"""
ASSUMPTIONS = [
    'Python int semantics: (a ^ k) % 256 == ((a % 256) ^ k) for 0 <= k < 256; +,- commute with reduction mod 256',
    'ins.read(1) returns successive bytes of the stream',
]

PROTECT = 'pcbasic/basic/converter/protect.py'
PROGRAM = 'pcbasic/basic/program.py'


def _cipher_word(ctx, rep, fname):
    """Extract (word, facts) from protect/unprotect."""
    fn = ctx.fn(PROTECT + ':' + fname)
    loops = [n for n in fn.body if isinstance(n, ast.While)]
    if len(loops) != 1:
        raise AnalysisError('%s: expected exactly one while loop' % fname)
    loop = loops[0]
    # the byte variable: target of `x = ord(...)` in the loop
    var = None
    seq = []
    write_seen = None
    index_updates = []
    ord_arg = None
    for st in loop.body:
        if isinstance(st, ast.Assign) and isinstance(st.value, ast.Call) and norm(st.value.func) == 'ord' \
                and isinstance(st.targets[0], ast.Name):
            var = st.targets[0].id
            ord_arg = norm(st.value.args[0])
            seq = []
            continue
        if var and isinstance(st, ast.AugAssign) and isinstance(st.target, ast.Name) and st.target.id == var:
            if write_seen is not None:
                rep.ob('cipher.word-before-output', '%s: %s' % (fname, short(st)), False,
                       'byte modified after it was written', ctx.where(st))
            op = {ast.Add: 'add', ast.Sub: 'sub', ast.BitXor: 'xor'}.get(type(st.op))
            if op is None:
                rep.ob('cipher.invertible-op', '%s: %s' % (fname, short(st)), False,
                       'operation %s is not invertible mod 256' % type(st.op).__name__, ctx.where(st))
                op = type(st.op).__name__
            if var in [n.id for n in ast.walk(st.value) if isinstance(n, ast.Name)]:
                rep.ob('cipher.invertible-op', '%s: %s' % (fname, short(st)), False,
                       'operand depends on the byte itself', ctx.where(st))
            seq.append((op, norm(st.value), st))
            continue
        if var and isinstance(st, ast.Assign) and any(norm(t) == var for t in st.targets):
            rep.ob('cipher.invertible-op', '%s: %s' % (fname, short(st)), False,
                   'plain re-assignment of the byte inside the word', ctx.where(st))
            continue
        if isinstance(st, ast.Expr) and isinstance(st.value, ast.Call) and norm(st.value.func).endswith('.write'):
            write_seen = st
            continue
        if isinstance(st, ast.Assign) and norm(st.targets[0]) == 'index':
            index_updates.append(st)
    if var is None or not seq:
        raise AnalysisError('%s: no cipher word found' % fname)
    # output reduction
    ok_write = (
        write_seen is not None
        and norm(write_seen.value.args[0]) == 'int2byte(%s %% 256)' % var
    )
    rep.ob('cipher.reduce-at-output', fname, ok_write,
           'output must be int2byte(%s %% 256); found %s' % (var, short(write_seen) if write_seen else 'no write'),
           ctx.where(write_seen or loop))
    # index discipline
    init = [st for st in fn.body if isinstance(st, ast.Assign) and norm(st.targets[0]) == 'index']
    init_txt = norm(init[0].value) if init else None
    upd_txt = norm(index_updates[0].value) if len(index_updates) == 1 else None
    # position of index update relative to word: must come after the word statements
    if index_updates:
        last_word = seq[-1][2]
        order_ok = loop.body.index(index_updates[0]) > loop.body.index(last_word)
    else:
        order_ok = False
    # no conditional statements between ord() and write that touch var or index (if/for inside loop)
    nested = [st for st in loop.body if isinstance(st, (ast.If, ast.For, ast.While, ast.Try))]
    for st in nested:
        names = set(n.id for n in own_nodes(st) if isinstance(n, ast.Name) and isinstance(n.ctx, ast.Store))
        for sub in own_nodes(st):
            if isinstance(sub, ast.AugAssign) and isinstance(sub.target, ast.Name):
                names.add(sub.target.id)
        if var in names or 'index' in names:
            rep.ob('cipher.straight-line', '%s: %s' % (fname, short(st, 60)), False,
                   'byte or position modified conditionally', ctx.where(st))
    return dict(fn=fn, var=var, word=[(o, t) for o, t, _ in seq], nodes=[n for _, _, n in seq],
                init=init_txt, upd=upd_txt, order_ok=order_ok, ord_arg=ord_arg, loop=loop)


def _canon(word):
    """Group runs of adjacent xors into sorted tuples (xors commute)."""
    out, run = [], []
    for op, t in word:
        if op == 'xor':
            run.append(t)
        else:
            if run:
                out.append(('xor', tuple(sorted(run))))
                run = []
            out.append((op, t))
    if run:
        out.append(('xor', tuple(sorted(run))))
    return out


def _inverse(word):
    inv = {'add': 'sub', 'sub': 'add', 'xor': 'xor'}
    return [(inv.get(op, '?' + op), t) for op, t in reversed(word)]


def _erase_cuts_behind_terminator(ctx, rep):
    """LOAD starts from an erased program: erase() writes the three-byte terminator at 0 and cuts the buffer *behind* it;
    cutting first (at whatever position the pointer had) leaves the old program's tail behind the newly loaded one."""
    for meth, want in (('erase', ['seek(0)', "write(b'\\x00\\x00\\x00')", 'truncate()']), ('truncate', ['write(*)', 'truncate()'])):
        fn = ctx.fn('pcbasic/basic/program.py:Program.' + meth)
        ops = []
        for c in sorted((c for c in own_nodes(fn) if isinstance(c, ast.Call) and norm(c.func).startswith('self.bytecode.')), key=lambda c: (c.lineno, c.col_offset)):
            op = norm(c.func)[len('self.bytecode.'):]
            if op == 'tell':
                continue
            ops.append('%s(%s)' % (op, ', '.join(norm(a) for a in c.args)))
        got = [o if not (w.endswith('(*)') and o.startswith(w[:-2])) else w for o, w in zip(ops, want)] if len(ops) == len(want) else ops
        rep.ob('erase.cuts-behind-terminator', 'Program.%s: %s' % (meth, ' then '.join(want)), got == want, repr(ops), ctx.where(fn))


def _tokenised_load_drops_eof_marker(ctx, rep):
    """SAVE (tokenised) ends the file with the 0x1A marker (BinaryFile.close); program memory must not receive it on LOAD.
    The protected branch drops it in unprotect(); the tokenised branch has to drop it as well."""
    ld = ctx.fn('pcbasic/basic/program.py:Program.load')
    fl = ctx.flow(ld)
    w = [c for c in own_nodes(ld) if isinstance(c, ast.Call) and norm(c.func) == 'self.bytecode.write' and fl.knows(c, "g.filetype == b'B'", True)]
    rep.floor('load.tokenised-drops-eof-marker', len(w), 1, 'stores of a tokenised file into program memory')
    cl = ctx.fn('pcbasic/basic/devices/diskfiles.py:BinaryFile.close')
    marker = any(isinstance(c, ast.Call) and norm(c.func) == 'self.write' and ctx.fold(c.args[0]) == b'\x1a' for c in own_nodes(cl))
    rep.ob('load.tokenised-drops-eof-marker', 'BinaryFile.close ends a written file with the 0x1A marker', marker, '', ctx.where(cl))
    for c in w:
        arg = norm(c.args[0])
        rep.ob('load.tokenised-drops-eof-marker', 'Program.load (tokenised): %s' % short(c, 60), arg != 'g.read()',
               'the whole rest of the file, marker included, is stored: program memory is one byte longer after SAVE + LOAD, and one more with every further cycle', ctx.where(c))


def check(ctx, rep):
    # the end of the program is sealed with three NUL bytes everywhere it is written (erase, truncate, rebuild_line_dict): the
    # protected reader drops exactly one byte behind them, so a shorter seal loses a byte of the program on a cassette round trip
    n_seal = 0
    for fn in ctx.idx.functions('pcbasic/basic/program.py'):
        for c in own_nodes(fn):
            if isinstance(c, ast.Call) and norm(c.func) == 'self.bytecode.write' and c.args:
                for k in ast.walk(c.args[0]):
                    if isinstance(k, ast.Constant) and isinstance(k.value, bytes) and k.value and set(k.value) == {0}:
                        n_seal += 1
                        rep.ob('seal.three-nul-bytes', '%s: %s' % (fn.name, short(c, 50)), len(k.value) == 3,
                               'the program end is sealed with %d NUL byte(s), not 3' % len(k.value), ctx.where(c))
    rep.floor('seal.three-nul-bytes', n_seal, 3, 'seals written to program memory')
    _tokenised_load_drops_eof_marker(ctx, rep)
    from . import c24 as _c24, _share as _sh
    from . import c17 as _c17
    _sh.share(ctx, rep, _c17, ('lines.one-space-after-the-number',), 'ASCII SAVE then LOAD re-enters every listed line: only the single space the lister adds after the line number is dropped again')
    _sh.share(ctx, rep, _c24, ('lines.reader',), 'an ASCII program is loaded line by line through TextFile.read_line: a line of up to 255 characters arrives whole')
    _erase_cuts_behind_terminator(ctx, rep)
    p = _cipher_word(ctx, rep, 'protect')
    u = _cipher_word(ctx, rep, 'unprotect')
    rep.note('protect_word', ['%s %s' % w for w in p['word']])
    rep.note('unprotect_word', ['%s %s' % w for w in u['word']])
    # (1) inverse words
    want = _canon(_inverse(p['word']))
    got = _canon(u['word'])
    rep.ob('cipher.inverse-word', 'unprotect word == reversed inverse of protect word', want == got,
           'protect=%r unprotect=%r; expected unprotect=%r' % (p['word'], u['word'], want),
           ctx.where(u['nodes'][0]))
    # individual steps, for naming the construct
    for k, (a, b) in enumerate(zip(want, got)):
        rep.ob('cipher.inverse-step', 'step %d: %s %s' % (k, b[0], b[1]), a == b,
               'expected %r' % (a,), ctx.where(u['nodes'][min(k, len(u['nodes']) - 1)]))
    # (3) same position counter evolution
    rep.ob('cipher.index-init', 'index starts equal', p['init'] is not None and p['init'] == u['init'],
           'protect: %s, unprotect: %s' % (p['init'], u['init']), ctx.where(p['fn']))
    rep.ob('cipher.index-step', 'index advances equally, once per byte',
           p['upd'] is not None and p['upd'] == u['upd'] and p['order_ok'] and u['order_ok'],
           'protect: %s, unprotect: %s' % (p['upd'], u['upd']), ctx.where(u['loop']))
    # (4,5) keys: every subscript KEY[index % n] has n <= len(KEY); all key bytes in 0..255
    keys = {}
    for name in ('KEY1', 'KEY2'):
        v = ctx.const(PROTECT, name)
        keys[name] = v
        rep.ob('cipher.key-bytes', name, all(isinstance(b, int) and 0 <= b <= 255 for b in v),
               'key bytes must be in 0..255', PROTECT)
    nsub = 0
    for d in (p, u):
        for node in d['nodes']:
            for s in ast.walk(node.value):
                if isinstance(s, ast.Subscript):
                    nsub += 1
                    kname = norm(s.value)
                    ok = False
                    detail = 'index expression %s' % norm(s.slice)
                    if kname in keys and isinstance(s.slice, ast.BinOp) and isinstance(s.slice.op, ast.Mod):
                        mval = ctx.fold(s.slice.right)
                        ok = isinstance(mval, int) and 0 < mval <= len(keys[kname])
                        detail += '; len(%s)=%d' % (kname, len(keys[kname]))
                    rep.ob('cipher.key-index-in-range', '%s: %s' % (d['fn'].name, norm(s)), ok, detail, ctx.where(node))
    rep.floor('cipher.key-index-in-range', nsub, 4, 'subscripts')
    # operands must not depend on anything but index and constants
    for d in (p, u):
        for node in d['nodes']:
            free = set(n.id for n in ast.walk(node.value) if isinstance(n, ast.Name)) - {'index', 'KEY1', 'KEY2'}
            rep.ob('cipher.operand-pure', '%s: %s' % (d['fn'].name, short(node)), not free,
                   'operand uses %s' % sorted(free), ctx.where(node))
    # unprotect drops exactly the trailing EOF byte: loop breaks when lookahead is empty
    brk = [st for st in u['loop'].body if isinstance(st, ast.If) and any(isinstance(x, ast.Break) for x in st.body)]
    rep.ob('cipher.unprotect-drops-only-eof', 'break only on empty lookahead',
           len(brk) == 1 and norm(brk[0].test) in ("nxt == b''",),
           'found %s' % [norm(b.test) for b in brk], ctx.where(u['loop']))

    # --- tables -------------------------------------------------------------
    DB = 'pcbasic/basic/devices/devicebase.py'
    t2m = ctx.const(DB, 'TYPE_TO_MAGIC')
    m2t = ctx.const(DB, 'MAGIC_TO_TYPE')
    rep.ob('magic.inverse', 'TYPE_TO_MAGIC <-> MAGIC_TO_TYPE',
           dict((v, k) for k, v in t2m.items()) == m2t and len(set(t2m.values())) == len(t2m),
           '%r vs %r' % (t2m, m2t), DB)
    for path, k, _ in ctx.cf.duplicates:
        if path == DB:
            rep.ob('magic.no-duplicate-keys', k, False, 'duplicate key in dict literal', DB)

    # save/load dispatch on the same types and matching cipher direction
    save = ctx.fn(PROGRAM + ':Program.save')
    load = ctx.fn(PROGRAM + ':Program.load')

    def branches(fn, var_texts):
        out = {}
        for n in own_nodes(fn):
            if isinstance(n, ast.If) and isinstance(n.test, ast.Compare) and len(n.test.ops) == 1 \
                    and isinstance(n.test.ops[0], ast.Eq) and norm(n.test.left) in var_texts \
                    and isinstance(n.test.comparators[0], ast.Constant):
                out[n.test.comparators[0].value] = n
        return out

    sb = branches(save, ('mode', 'g.filetype'))
    lb = branches(load, ('g.filetype',))
    rep.ob('saveload.types', 'save handles B,P explicitly', b'B' in sb and b'P' in sb, 'found %r' % sorted(sb), ctx.where(save))
    rep.ob('saveload.types', 'load handles B,P,A explicitly', all(k in lb for k in (b'B', b'P', b'A')),
           'found %r' % sorted(lb), ctx.where(load))

    def calls(nodes):
        return [norm(c.func) for st in nodes for c in own_nodes(st) if isinstance(c, ast.Call)]

    if b'P' in sb and b'P' in lb:
        cs, cl = calls(sb[b'P'].body), calls(lb[b'P'].body)
        rep.ob('saveload.cipher-direction', 'save P -> protect(bytecode, g)',
               'converter.protect' in cs and 'converter.unprotect' not in cs, 'calls %r' % cs, ctx.where(sb[b'P']))
        rep.ob('saveload.cipher-direction', 'load P -> unprotect(g, bytecode)',
               'converter.unprotect' in cl and 'converter.protect' not in cl, 'calls %r' % cl, ctx.where(lb[b'P']))
        # argument order
        for n in own_nodes(sb[b'P']):
            if isinstance(n, ast.Call) and norm(n.func) == 'converter.protect':
                rep.ob('saveload.cipher-args', 'protect(self.bytecode, g)',
                       [norm(a) for a in n.args] == ['self.bytecode', 'g'], norm(n), ctx.where(n))
        for n in own_nodes(lb[b'P']):
            if isinstance(n, ast.Call) and norm(n.func) == 'converter.unprotect':
                rep.ob('saveload.cipher-args', 'unprotect(g, self.bytecode)',
                       [norm(a) for a in n.args] == ['g', 'self.bytecode'], norm(n), ctx.where(n))
    if b'B' in sb and b'B' in lb:
        cs, cl = calls(sb[b'B'].body), calls(lb[b'B'].body)
        rep.ob('saveload.binary-verbatim', 'save B writes bytecode.read() verbatim',
               any(norm(st) == 'g.write(self.bytecode.read())' for st in sb[b'B'].body), 'calls %r' % cs, ctx.where(sb[b'B']))
        rep.ob('saveload.binary-verbatim', 'load B writes g.read() verbatim',
               any(norm(st) == 'self.bytecode.write(g.read())' for st in lb[b'B'].body), 'calls %r' % cl, ctx.where(lb[b'B']))
    # both start at bytecode offset 1 (skip the leading NUL) for B and P
    seeks_save = [norm(n) for n in own_nodes(save) if isinstance(n, ast.Call) and norm(n.func) == 'self.bytecode.seek']
    rep.ob('saveload.offset', 'save seeks to 1 before writing', 'self.bytecode.seek(1)' in seeks_save, repr(seeks_save), ctx.where(save))
    # the length announced to the device (the cassette header stores it and the reader fetches exactly that many
    # bytes) is the number of bytes save() writes: the whole stream less the leading byte it skips
    from ..algebra import lin as _lin
    sv_ = ctx.fn('pcbasic/basic/implementation.py:Implementation.save_')
    lens = [k.value for c in own_nodes(sv_) if isinstance(c, ast.Call) and norm(c.func) == 'self.files.open' for k in c.keywords if k.arg == 'length']
    want_len = _lin(ast.parse('len(self.program.bytecode.getvalue()) - 1', mode='eval').body)
    rep.ob('saveload.announced-length', 'SAVE announces len(bytecode) - 1 bytes: what save() writes after skipping the leading byte',
           len(lens) == 1 and _lin(lens[0]) == want_len and 'self.bytecode.seek(1)' in seeks_save,
           'announced %s' % [norm(x) for x in lens], ctx.where(sv_))
    for t in (b'B', b'P'):
        if t in lb:
            s = [norm(n) for st in lb[t].body for n in own_nodes(st) if isinstance(n, ast.Call) and norm(n.func) == 'self.bytecode.seek']
            rep.ob('saveload.offset', 'load %s seeks to 1 before reading' % t.decode(), s[:1] == ['self.bytecode.seek(1)'], repr(s), ctx.where(lb[t]))
    # load erases first and rebuilds line dict for non-ascii
    first_call = None
    for st in load.body:
        if isinstance(st, ast.Expr) and isinstance(st.value, ast.Call):
            first_call = norm(st.value)
            break
    rep.ob('saveload.load-erases-first', 'Program.load', first_call == 'self.erase()', 'first call: %s' % first_call, ctx.where(load))
    fl = ctx.flow(load)
    rb = [n for n in own_nodes(load) if isinstance(n, ast.Call) and norm(n.func) == 'self.rebuild_line_dict']
    ok = bool(rb) and all(
        any(f.text == "g.filetype != b'A'" and f.pol for f in fl.facts(n)) or not fl.facts(n) for n in rb)
    rep.ob('saveload.load-rebuilds', 'rebuild_line_dict after binary/protected load', ok, '', ctx.where(load))

    # ASCII load: read_line returns (text, terminator); the terminator is None only at end of file, so an
    # empty text with a terminator is a blank line (or the tail of a 255-character line), not the end
    mg = ctx.fn(PROGRAM + ':Program.merge')
    flm = ctx.flow(mg)
    rl = [a for a in own_nodes(mg) if isinstance(a, ast.Assign) and isinstance(a.value, ast.Call) and norm(a.value.func).endswith('.read_line')
          and isinstance(a.targets[0], ast.Tuple) and len(a.targets[0].elts) == 2]
    brk = [b for b in own_nodes(mg) if isinstance(b, ast.Break)]
    ok = len(rl) == 1 and len(brk) == 1
    detail = ''
    if ok:
        text, term = [norm(e) for e in rl[0].targets[0].elts]
        facts = [(f.text, f.pol) for f in flm.facts(brk[0])]
        atoms = set()
        for t, pol in facts:
            if pol and ' and ' in t:
                atoms |= set(x.strip() for x in t.split(' and '))
            elif pol:
                atoms.add(t)
            elif t in (text, term):
                atoms.add('not ' + t)
        ok = ('not ' + text) in atoms and (('not ' + term) in atoms or (term + ' is None') in atoms)
        detail = 'the loop ends under %s: a blank line ends LOAD/MERGE and the rest of the file is dropped' % sorted(atoms)
    rep.ob('ascii.eof-needs-no-terminator', 'Program.merge stops only when read_line returns neither text nor a line terminator', ok, detail, ctx.where(mg))

    # converter goes through LOAD and SAVE of a session
    conv = ctx.fn('pcbasic/main.py:_convert')
    execs = [n for n in own_nodes(conv) if isinstance(n, ast.Call) and norm(n.func) == 'session.execute']
    texts = [norm(e.args[0]) for e in execs if e.args]
    rep.ob('convert.via-load-save', 'main._convert: LOAD then SAVE statements',
           len(texts) == 2 and 'LOAD' in texts[0] and 'SAVE' in texts[1], repr(texts), ctx.where(conv))
    rep.ob('convert.mode-suffix', 'main._convert passes ,A / ,P suffix',
           any('mode_suffix' in t for t in texts[1:]) and any(
               isinstance(n, ast.Assign) and norm(n.targets[0]) == 'mode_suffix' and "('A', 'P')" in norm(n.value)
               for n in own_nodes(conv)), repr(texts), ctx.where(conv))
    rep.floor('cipher.inverse-step', len(got), 3, 'steps')


def variants(ctx):
    V = mu.Variant

    def in_fn(fname, f):
        def t(tree):
            return f(mu.find_def(tree, fname))
        return t

    return [
        V('seal-shortened-to-two-bytes', 'break', PROGRAM,
          in_fn('Program.rebuild_line_dict', lambda fn: mu.replace_expr(fn, lambda n: isinstance(n, ast.Constant) and n.value == b'\x00\x00\x00', "b'\\0\\0'")), expect='seal.three-nul-bytes'),
        V('erase-cuts-before-writing-the-terminator', 'break', PROGRAM, in_fn('Program.erase', _truncate_first), expect='erase.cuts-behind-terminator'),
        V('merge-ends-at-blank-line', 'break', PROGRAM,
          in_fn('Program.merge', lambda fn: mu.replace_expr(fn, mu.text_is('not line and (not cr)'), 'not line')), expect='ascii.eof'),
        V('unprotect-swap-sub-add', 'break', PROTECT,
          in_fn('unprotect', lambda fn: mu.replace_stmt(fn, mu.text_is('c -= 11 - index % 11'), 'c -= 13 - index % 13')),
          expect='cipher.inverse'),
        V('protect-reorder-steps', 'break', PROTECT,
          in_fn('protect', lambda fn: (mu.remove_stmt(fn, mu.text_is('c += 11 - index % 11'))
                                       and mu.insert_before(fn, mu.text_is('c ^= KEY1[index % 13]'), 'c += 11 - index % 11'))),
          expect='cipher.inverse'),
        V('unprotect-wrong-key-modulus', 'break', PROTECT,
          in_fn('unprotect', lambda fn: mu.replace_expr(fn, mu.text_is('KEY2[index % 11]'), 'KEY2[index % 13]')),
          expect='cipher'),
        V('protect-index-period', 'break', PROTECT,
          in_fn('protect', lambda fn: mu.replace_expr(fn, mu.text_is('(index + 1) % (13 * 11)'), '(index + 1) % (13 * 10)')),
          expect='cipher.index-step'),
        V('key-shortened', 'break', PROTECT,
          lambda tree: mu.replace_expr(tree, lambda n: isinstance(n, ast.Tuple) and len(n.elts) == 11,
                                       lambda n: ast.Tuple(elts=n.elts[:10], ctx=ast.Load())),
          expect='cipher.key-index-in-range'),
        V('protect-output-not-reduced', 'break', PROTECT,
          in_fn('protect', lambda fn: mu.replace_expr(fn, mu.text_is('int2byte(c % 256)'), 'int2byte(c & 127)')),
          expect='cipher.reduce-at-output'),
        V('magic-table-mismatch', 'break', 'pcbasic/basic/devices/devicebase.py',
          lambda tree: mu.set_dict_value(mu.find_assign_value(tree, 'MAGIC_TO_TYPE'), "b'\\xfe'", "b'B'"),
          expect='magic.inverse'),
        V('load-P-calls-protect', 'break', PROGRAM,
          in_fn('Program.load', lambda fn: mu.replace_expr(fn, mu.text_is('converter.unprotect'), 'converter.protect')),
          expect='saveload.cipher-direction'),
        V('save-announces-one-byte-too-many', 'break', 'pcbasic/basic/implementation.py',
          in_fn('Implementation.save_', lambda fn: mu.replace_expr(fn, mu.text_is('len(self.program.bytecode.getvalue()) - 1'), 'len(self.program.bytecode.getvalue())')), expect='saveload.announced'),
        V('save-skips-no-leading-nul', 'break', PROGRAM,
          in_fn('Program.save', lambda fn: mu.replace_expr(fn, mu.text_is('self.bytecode.seek(1)'), 'self.bytecode.seek(0)')),
          expect='saveload.offset'),
        V('convert-bypasses-save', 'break', 'pcbasic/main.py',
          in_fn('_convert', lambda fn: mu.replace_expr(fn, lambda n: isinstance(n, ast.Constant) and n.value == b'SAVE "%s"%s',
                                                       "b'LIST ,\"%s\"%s'")),
          expect='convert.via-load-save'),
        # neutral
        V('swap-xor-order', 'neutral', PROTECT,
          in_fn('unprotect', lambda fn: (mu.remove_stmt(fn, mu.text_is('c ^= KEY1[index % 13]'))
                                         and mu.insert_before(fn, mu.text_is('c ^= KEY2[index % 11]'), 'c ^= KEY1[index % 13]', after=True)))),
        V('rename-local', 'neutral', PROTECT, in_fn('protect', lambda fn: mu.rename_local(fn, 's', 'cur'))),
        V('add-logging', 'neutral', PROGRAM,
          in_fn('Program.save', lambda fn: mu.insert_first(fn, "logging.debug('saving')"))),
    ]


def _truncate_first(fn):
    t = [st for st in fn.body if norm(st) == 'self.bytecode.truncate()']
    if len(t) != 1:
        return False
    fn.body.remove(t[0])
    k = 1 if isinstance(fn.body[0], ast.Expr) and isinstance(fn.body[0].value, ast.Constant) else 0
    fn.body.insert(k, t[0])
    return True

"""
C01 -- no BASIC input ever produces an internal interpreter error
(structural half of the exception boundary).

The boundary is Implementation._handle_exceptions, which turns BASICError,
Break and Exit into BASIC behaviour; anything else escapes.  Decided:
 E1 dispatch totality: every key of the statement / function parse tables
    (folded dict literals, `tok+selector` for the two-level tables, dialect
    additions included) has a callback key, so the table lookups in
    parse_statement/_parse_function cannot raise KeyError; every callback
    resolves to an existing method;
 E2 None-default dereference: every keyword of Implementation.__init__ whose
    documented default is None is followed through constructor arguments into
    `self._x = param` stores; each subscript / call / iteration / attribute use
    of such a field must be dominated by a None test, or the store must supply
    a default (`param or {}`) -- Session() with defaults made PEEK raise
    TypeError (repaired in /repo b24059ae);
 E3 float-signal interception: numbers.py signals overflow / division by zero
    with host exceptions; every call of an in-place arithmetic method
    (iadd isub imul idiv ipow_int idiv_int imod ifloor itrunc from_decimal) or
    of Float.from_value outside numbers.py lies in a @float_safe function or in
    a try that handles it, or in a frozen, reasoned exemption table -- the FOR
    counter increment was unprotected (repaired in /repo 0bfaa29a) and PMAP's
    result conversion too (d68602a7);
 E4 explicit non-BASIC raises: all `raise <host exception>` sites under
    pcbasic/basic are enumerated against a frozen triage table: unreachable
    from the dispatch roots (host API, set-up), intercepted (the named
    interceptor must still contain the handler), or failsafe; a new site that
    is reachable from a callback on the resolved call graph is a violation;
 E5 line-number map lookups outside Program (jump targets, RESTORE, traps,
    RENUM map) are in a try for KeyError, dominated by a membership test, or
    use .get with the key as default;
 E6 validating host calls fed by user values: datetime.datetime(...) in the
    clock and os.environ stores are inside try/except ValueError -> IFC or all
    user components are bounded on both sides (details in C44);
 E7 host stream I/O in devices/: every _fhandle read/write/seek/tell/... is
    inside `with safe_io()` / a try for EnvironmentError, or the class works on
    in-memory streams, or is in the exemption table (C01 does not quantify
    over host I/O faults);
 E8 operator callbacks type-check each operand before using it as a number
    (IMP with a string operand raised AttributeError; repaired in 195a4d61);
 E9 possibly-unbound locals: a definite-assignment analysis of every function
    under pcbasic/basic reports each read of a local that is not assigned on
    every path to it (UnboundLocalError).  The analysis is path-insensitive, so
    correlated-condition idioms are listed, one reason each, in a frozen table;
    a site that is not in the table is a violation.  On the pinned tree this
    found LOAD of a protected file without payload (unprotect: `c`, repaired in
    a4516a99) and OPEN "CON" FOR APPEND (`dev_param`, repaired in ebb54d70).
E10 the calls in execute / evaluate / interact that run BASIC code sit inside
    `with self._handle_exceptions()`;
E11 lookups in module-level constant tables with a run-time key are inside a
    try that catches KeyError, under a membership test on the same key and
    table, or in a frozen table with the reason the key is always present;
    constant keys must be keys of the table; the adapters' mode lists and the
    mode descriptions agree (PLAY with a forged VARPTR$ type byte raised
    KeyError; repaired in 103d9d6b);
E12 sibling devices: a device class whose available() is `self.X is not None`
    refuses OPEN with Device Unavailable under a test of the same X, and uses X
    only after that test (OPEN "LPT2:" with nothing attached handed out a file
    on a None stream; repaired in bc5e3143);
E13 a device's master file may be None: whoever reads `<device>.device_file`
    tests it before use, or keeps it only from a device whose constructor
    always creates one (WIDTH "LPT2:",40 raised AttributeError; 16399ed3).
E14 line and jump numbers are packed as uint16 by the tokeniser: the reader
    that produces them has a bounded digit loop and a cut-off K with
    min(10^N - 1, 10K + 9) <= 65535 (seeded C01e).
E15 the value POKE and OUT hand on is range-checked to 0..255 first: the memory
    writers store it with byte formats that raise for 256 (seeded C01h).
Not decided: exceptions raised implicitly by arbitrary Python operations
outside these patterns -- no sound static argument in reach bounds those.
"""
import ast

from ..source import norm, short, qualname, enclosing_class, class_methods, decorators, AnalysisError
from ..consts import is_unknown
from ..flow import own_nodes
from ..intervals import bounds
from ..resolve import dispatch_roots
from .. import mutate as mu
from .. import valuesmodel as vm

PROP = 'C01'
LEVEL = 'other'
TECHNIQUE = 'static analysis: dispatch-table totality, None-default def-use, interceptor dominance for host exceptions over the call graph, frozen triage table of raise sites'
EXPLANATION = __doc__

IMPL = 'pcbasic/basic/implementation.py'
STMT = 'pcbasic/basic/parser/statements.py'
EXPR = 'pcbasic/basic/parser/expressions.py'
INTERP = 'pcbasic/basic/interpreter.py'
N = 'pcbasic/basic/values/numbers.py'

ARITH = {'iadd', 'isub', 'imul', 'idiv', 'ipow_int', 'idiv_int', 'imod', 'ifloor', 'itrunc', 'from_decimal'}
FLOAT_RECV = ('new_single()', 'new_double()', 'Single(None', 'Double(None', 'floatcls(')
E3_EXEMPT = {
    ('Randomiser.rnd_', 'idiv'): 'divisor is the non-zero constant period; seed < 2^24: cannot overflow or divide by zero',
    ('int_', 'ifloor'): 'floor subtracts one only when a fractional part existed, i.e. |x| < 2^24 (single) / 2^56 (double): cannot overflow',
    ('fix_', 'itrunc'): 'truncation only reduces the magnitude',
    ('Clock.timer_', 'from_value'): 'seconds since midnight, bounded by 86400',
}
HOST_CATCH = ('ValueError', 'ArithmeticError', 'OverflowError', 'ZeroDivisionError', 'Exception')
BASIC_EXC = ('BASICError', 'Break', 'Exit', 'Reset')

# E4 triage table: (function, exception) -> (category, reason / interceptor spec)
U, I, F = 'unreachable', 'intercepted', 'failsafe'
E4_TABLE = {
    ('Session.set_variable', 'ValueError'): (U, 'host API'),
    ('Session.get_variable', 'ValueError'): (U, 'host API'),
    ('ByteMatrix.__setitem__', 'TypeError'): (F, 'else-branch after the exhaustive type chain; only ByteMatrix/int are ever assigned'),
    ('ByteStream.write', 'ValueError'): (I, 'pcbasic/basic/devices/diskfiles.py:FieldFile.write|ValueError'),
    ('ByteStream.read', 'ValueError'): (F, 'closed FIELD stream is never read: the buffer lives as long as the file'),
    ('ByteStream.read', 'TypeError'): (F, 'argument is always an int'),
    ('Console.set_macro', 'ValueError'): (I, 'pcbasic/basic/implementation.py:Implementation.key_|ValueError'),
    ('CassetteStream._read_record', 'EndOfTape'): (I, 'pcbasic/basic/devices/cassette.py:CASDevice._search|EndOfTape'),
    ('CassetteStream._read_block', 'PulseError'): (I, 'pcbasic/basic/devices/cassette.py:CASDevice.open|EnvironmentError'),
    ('CassetteStream._read_block', 'CRCError'): (I, 'pcbasic/basic/devices/cassette.py:CASDevice.open|EnvironmentError'),
    ('TapeBitStream.read_byte', 'PulseError'): (I, 'pcbasic/basic/devices/cassette.py:CASDevice.open|EnvironmentError'),
    ('CASBitStream.read_bit', 'EndOfTape'): (I, 'pcbasic/basic/devices/cassette.py:TapeBitStream.read_leader|EndOfTape'),
    ('WAVBitStream.__init__', 'EndOfTape'): (U, 'device set-up'),
    ('WAVBitStream.read_bit', 'EndOfTape'): (I, 'pcbasic/basic/devices/cassette.py:TapeBitStream.read_leader|EndOfTape'),
    ('WAVBitStream._fill_buffer', 'EndOfTape'): (I, 'pcbasic/basic/devices/cassette.py:TapeBitStream.read_leader|EndOfTape'),
    ('Chunk.__init__', 'EOFError'): (U, 'WAV image parsing at device set-up'),
    ('Chunk.isatty', 'ValueError'): (U, 'never called'),
    ('Chunk.seek', 'ValueError'): (F, 'closed-chunk guard; the chunk is open while the device exists'),
    ('Chunk.seek', 'OSError'): (I, 'pcbasic/basic/devices/cassette.py:CASDevice.open|EnvironmentError'),
    ('Chunk.seek', 'RuntimeError'): (F, 'seek position guard; positions come from tell()'),
    ('Chunk.tell', 'ValueError'): (F, 'closed-chunk guard'),
    ('Chunk.read', 'ValueError'): (F, 'closed-chunk guard'),
    ('Chunk.skip', 'ValueError'): (F, 'closed-chunk guard'),
    ('Chunk.skip', 'EOFError'): (U, 'device set-up'),
    ('DiskDevice._create_file_object', 'ValueError'): (F, 'file type / mode combinations are fixed by the callers'),
    ('StringField.__init__', 'ValueError'): (I, 'pcbasic/basic/devices/formatter.py:Formatter._print_using|ValueError'),
    ('NumberField.__init__', 'ValueError'): (I, 'pcbasic/basic/devices/formatter.py:Formatter._print_using|ValueError'),
    ('LPTFile.write', 'TypeError'): (F, 'callers write bytes'),
    ('ParallelStream.__init__', 'IOError'): (U, 'device set-up'),
    ('COMDevice._init_serial', 'ValueError'): (U, 'device set-up'),
    ('VideoBuffer.get_chars', 'ValueError'): (U, 'host API argument check'),
    ('Font.__init__', 'ValueError'): (U, 'set-up'),
    ('NullQueue.get', 'queue.Empty'): (I, 'pcbasic/basic/eventcycle.py:EventQueues._check_input|queue.Empty'),
    ('Implementation.get_converter', 'ValueError'): (U, 'host API'),
    ('IOStreams._remove_input_streams', 'ValueError'): (U, 'host API'),
    ('IOStreams._get_wrapped_input_stream', 'TypeError'): (U, 'host API'),
    ('IOStreams._remove_output_streams', 'ValueError'): (U, 'host API'),
    ('IOStreams._get_wrapped_output_stream', 'TypeError'): (U, 'host API'),
    ('Arrays._from_list', 'ValueError'): (U, 'host API'),
    ('DataSegment._get_field_offset', 'ValueError'): (F, 'addresses between the first FIELD buffer and the code always fall in an existing file number'),
    ('load_session', 'ValueError'): (U, 'host API'),
    ('save_session', 'ValueError'): (U, 'host API'),
    ('str_to_decimal', 'ValueError'): (I, 'pcbasic/basic/values/values.py:Values.from_repr|@float_safe'),
    ('Integer.from_token', 'ValueError'): (F, 'token class is checked by the caller (lead byte in tokens.NUMBER)'),
    ('Integer.from_str', 'ValueError'): (I, 'pcbasic/basic/values/values.py:Values.from_repr|ValueError'),
    ('Integer.idiv_int', 'ZeroDivisionError'): (I, 'pcbasic/basic/values/values.py:intdiv|@float_safe'),
    ('Integer.imod', 'ZeroDivisionError'): (I, 'pcbasic/basic/values/values.py:mod_|@float_safe'),
    ('Float.idiv', 'ZeroDivisionError'): (I, 'pcbasic/basic/values/values.py:div|@float_safe'),
    ('Float._check_limits', 'OverflowError'): (I, 'pcbasic/basic/values/values.py:add|@float_safe'),
    ('Single.from_token', 'ValueError'): (F, 'token class is checked by the caller'),
    ('Double.from_token', 'ValueError'): (F, 'token class is checked by the caller'),
    ('StringSpace._retrieve', 'KeyError'): (F, 'detached string pointer: an invariant violation of the string space (C10), not an input condition'),
    ('check_value', 'TypeError'): (F, 'non-Value operand: cannot come from the expression parser'),
    ('match_types', 'TypeError'): (F, 'non-Value operand'),
    ('_call_float_function', 'ValueError'): (I, 'pcbasic/basic/values/values.py:_call_float_function|ValueError'),
    ('to_type', 'ValueError'): (F, 'sigil comes from complete_name'),
    ('to_repr', 'TypeError'): (F, 'non-Value operand'),
    ('Values.from_token', 'ValueError'): (F, 'token class is checked by the caller'),
}
E7_EXEMPT = {
    'FieldFile': 'works on the in-memory FIELD buffer (ByteStream)',
    'TextFileBase.write': 'buffered host stream: a device fault surfaces at flush/close, which are inside safe_io; C01 does not quantify over host I/O faults',
    'RandomFile.__init__': 'seek(0) on a freshly opened stream',
}


def _dict_keys(ctx, dict_node, module):
    out = []
    for k in dict_node.keys:
        v = ctx.cf.fold(k, module)
        if is_unknown(v):
            raise AnalysisError('cannot fold dispatch key %s' % norm(k))
        out.append((v, k))
    return out


def _assigned_dicts(fn, target):
    out = []
    for n in own_nodes(fn):
        if isinstance(n, ast.Assign) and norm(n.targets[0]) == target and isinstance(n.value, ast.Dict):
            out.append(n.value)
        if isinstance(n, ast.Call) and norm(n.func) == target + '.update' and n.args and isinstance(n.args[0], ast.Dict):
            out.append(n.args[0])
    return out


def check_e1(ctx, rep):
    for path, cls, init_syntax, init_cb in ((STMT, 'Parser', '_init_syntax', 'init_statements'), (EXPR, 'ExpressionParser', '_init_syntax', 'init_functions')):
        m = ctx.mod(path)
        fs = ctx.fn('%s:%s.%s' % (path, cls, init_syntax))
        fc = ctx.fn('%s:%s.%s' % (path, cls, init_cb))
        parse_keys = set()
        for d in _assigned_dicts(fs, 'self._simple'):
            for v, k in _dict_keys(ctx, d, m):
                parse_keys.add(v)
        for d in _assigned_dicts(fs, 'self._complex'):
            for v, k in _dict_keys(ctx, d, m):
                inner = d.values[[id(x) for x in d.keys].index(id(k))]
                if not isinstance(inner, ast.Dict):
                    raise AnalysisError('second-level dispatch table is not a literal')
                for sv, sk in _dict_keys(ctx, inner, m):
                    parse_keys.add(v if sv is None else v + sv)
        cb = _assigned_dicts(fc, 'self._callbacks')
        if len(cb) != 1:
            raise AnalysisError('%s.%s: expected one _callbacks literal' % (cls, init_cb))
        cb_keys = set(v for v, k in _dict_keys(ctx, cb[0], m))
        missing = sorted(parse_keys - cb_keys)
        rep.ob('E1.dispatch-total', '%s: every parse-table key has a callback (%d keys)' % (cls, len(parse_keys)), not missing,
               ('no callback for %r: the lookup raises KeyError' % missing[:5]) if missing else '', ctx.where(fc))
        rep.floor('E1.%s' % cls, len(parse_keys), 70 if cls == 'ExpressionParser' else 120, 'parse keys')
    unresolved = []
    n = 0
    for k, kind, v, targets in dispatch_roots(ctx):
        t = norm(v)
        if t in ('list', 'None'):
            continue
        n += 1
        if not targets:
            unresolved.append('%s -> %s' % (k, t))
    rep.ob('E1.callbacks-resolve', 'every callback names an existing method (%d callbacks)' % n, not unresolved, repr(unresolved[:5]) if unresolved else '', STMT)
    # FN: None callback is special-cased before the table is used
    pf = ctx.fn(EXPR + ':ExpressionParser._parse_function')
    fl = ctx.flow(pf)
    use = [s for s in own_nodes(pf) if isinstance(s, ast.Subscript) and norm(s) == 'self._callbacks[token]']
    rep.ob('E1.fn-special-case', 'FN (callback None) is evaluated by the user function, never through the table',
           len(use) == 1 and fl.knows(use[0], 'token == tk.FN', False), '', ctx.where(pf))
    ps = ctx.fn(STMT + ':Parser.parse_statement')
    txt = norm(ps)
    rep.ob('E1.statement-lookup-guarded', 'statement tables are indexed only after membership tests',
           'if c in self._simple' in txt and 'elif c in self._complex' in txt and 'if selector not in stat_dict.keys()' in txt, '', ctx.where(ps))


def _deref_uses(fn, text):
    """Nodes in fn that use expression `text` in a way that fails on None."""
    for u in own_nodes(fn):
        if isinstance(u, ast.Subscript) and norm(u.value) == text:
            yield u
        elif isinstance(u, ast.Call) and norm(u.func) == text:
            yield u
        elif isinstance(u, ast.Call) and norm(u.func) in ('len', 'iter', 'iteritems', 'list', 'dict', 'sorted') and u.args and norm(u.args[0]) == text:
            yield u
        elif isinstance(u, (ast.For, ast.comprehension)) and norm(u.iter) == text:
            yield u.iter
        elif isinstance(u, ast.Attribute) and norm(u.value) == text and isinstance(getattr(u, '_parent', None), ast.Call) and u._parent.func is u:
            yield u
        elif isinstance(u, ast.Compare) and any(isinstance(o, (ast.In, ast.NotIn)) for o in u.ops) and any(norm(c) == text for c in u.comparators):
            yield u


def _not_none(fl, use, text):
    for f in fl.facts(use):
        if (f.text == text and f.pol) or (f.text == '%s is not None' % text and f.pol) or (f.text == '%s is None' % text and not f.pol) \
                or (f.text == 'not %s' % text and not f.pol):
            return True
    # short-circuit: `x and x[...]`
    p = getattr(use, '_parent', None)
    cur = use
    while p is not None and not isinstance(p, ast.stmt):
        if isinstance(p, ast.BoolOp) and isinstance(p.op, ast.And):
            i = [id(v) for v in p.values].index(id(cur)) if id(cur) in [id(v) for v in p.values] else 0
            if any(norm(v) == text for v in p.values[:i]):
                return True
        if isinstance(p, ast.IfExp) and cur is p.body and norm(p.test) == text:
            return True
        cur, p = p, getattr(p, '_parent', None)
    return fl.in_try_catching(use, ('TypeError', 'Exception')) is not None


def check_e2(ctx, rep):
    init = ctx.fn(IMPL + ':Implementation.__init__')
    args = init.args
    defaults = dict(zip([a.arg for a in args.args[len(args.args) - len(args.defaults):]], args.defaults))
    none_params = [p for p, d in defaults.items() if isinstance(d, ast.Constant) and d.value is None]
    rep.floor('E2.none-default-params', len(none_params), 5, 'keyword parameters defaulting to None')
    w = ctx.wiring
    stats = {'fields': 0, 'functions': 0, 'uses': 0}
    visited = set()

    def tracked_until(fn, param):
        """Line after which the local no longer holds the caller's value (first rebinding that is
        unconditional or conditional on the parameter itself)."""
        best = None
        for n in own_nodes(fn):
            if isinstance(n, ast.Assign) and any(isinstance(t, ast.Name) and t.id == param for t in n.targets):
                p = getattr(n, '_parent', None)
                cond = isinstance(p, ast.If) and param not in [x.id for x in ast.walk(p.test) if isinstance(x, ast.Name)]
                if not cond:
                    line = p.end_lineno if isinstance(p, ast.If) else n.lineno
                    if best is None or line < best[0]:
                        best = (line, n)
        return best

    def follow(fn, cls, param, depth, trail, origin):
        if depth > 5 or (id(fn), param) in visited:
            return
        visited.add((id(fn), param))
        stats['functions'] += 1
        until = tracked_until(fn, param)
        limit = until[0] if until else 10 ** 9
        fl = ctx.flow(fn)
        who = qualname(fn).split(':')[1]
        # a rebinding `p = f(p)` forwards the value into f
        for use in _deref_uses(fn, param):
            if use.lineno > limit or (use.lineno == limit and until and not isinstance(getattr(until[1], '_parent', None), ast.If) and False):
                continue
            stats['uses'] += 1
            ok = _not_none(fl, use, param)
            rep.ob('E2.none-default-dereferenced', '%s: parameter `%s` (keyword `%s` of Session, default None): %s' % (who, param, origin, short(use, 40)),
                   ok, '' if ok else 'used without a None test: with the documented default this raises TypeError', ctx.where(use))
        for n in own_nodes(fn):
            if getattr(n, 'lineno', 0) > limit:
                continue
            if isinstance(n, ast.Assign) and isinstance(n.targets[0], ast.Attribute) and norm(n.targets[0].value) == 'self' and cls is not None:
                v = n.value
                if isinstance(v, ast.Name) and v.id == param:
                    if not _not_none(fl, n, param):
                        field_uses(cls, n.targets[0].attr, origin)
                elif isinstance(v, ast.BoolOp) and isinstance(v.op, ast.Or) and isinstance(v.values[0], ast.Name) and v.values[0].id == param:
                    rep.ob('E2.default-supplied', '%s.%s = %s' % (cls.name, n.targets[0].attr, norm(v)), True)
            if isinstance(n, ast.Call):
                hit = [i for i, a in enumerate(n.args) if isinstance(a, ast.Name) and a.id == param]
                hitk = [kw.arg for kw in n.keywords if isinstance(kw.value, ast.Name) and kw.value.id == param]
                if not hit and not hitk:
                    continue
                if _not_none(fl, n, param):
                    continue
                for callee in w.call_targets(n, fn, cls, w.local_types(fn, cls), fallback=False):
                    params = [a.arg for a in callee.args.args]
                    if params and params[0] in ('self', 'cls'):
                        params = params[1:]
                    for i in hit:
                        if i < len(params):
                            follow(callee, enclosing_class(callee), params[i], depth + 1, trail + [who], origin)
                    for k in hitk:
                        if k in params:
                            follow(callee, enclosing_class(callee), k, depth + 1, trail + [who], origin)

    def field_uses(cls, field, origin):
        stats['fields'] += 1
        attr = 'self.' + field
        bad = None
        n_use = 0
        for m in class_methods(cls).values():
            fl = None
            for use in _deref_uses(m, attr):
                fl = fl or ctx.flow(m)
                n_use += 1
                if not _not_none(fl, use, attr) and bad is None:
                    bad = (m, use)
        construct = '%s.%s (from keyword `%s` of Session/Implementation, default None)' % (cls.name, field, origin)
        rep.ob('E2.none-default-dereferenced', construct, bad is None,
               '' if bad is None else '%s uses %s without a None test: with the documented default this raises TypeError' % (
                   qualname(bad[0]).split(':')[1], short(bad[1], 50)), ctx.where(bad[1]) if bad else '')

    for p in sorted(none_params):
        follow(init, enclosing_class(init), p, 0, [], p)
    rep.note('E2.followed', stats)
    rep.floor('E2.followed', stats['functions'], 10, 'functions reached by a None-default value')


def check_e3(ctx, rep):
    n_sites = 0
    for fn in ctx.idx.functions('pcbasic/basic/'):
        if fn._module.path == N:
            continue
        fl = None
        who = qualname(fn).split(':')[1]
        for x in own_nodes(fn):
            if not (isinstance(x, ast.Call) and isinstance(x.func, ast.Attribute)):
                continue
            a = x.func.attr
            recv = norm(x.func.value)
            hit = a in ARITH or (a == 'from_value' and any(k in recv for k in FLOAT_RECV))
            if not hit:
                continue
            n_sites += 1
            fl = fl or ctx.flow(fn)
            safe = 'float_safe' in decorators(fn) or fl.in_try_catching(x, HOST_CATCH) is not None
            construct = '%s: %s' % (who, short(x, 70))
            if safe:
                rep.ob('E3.float-signal-intercepted', construct, True)
            elif (who, a) in E3_EXEMPT:
                rep.ob('E3.float-signal-intercepted', construct, True, 'exempt: ' + E3_EXEMPT[(who, a)])
            else:
                rep.ob('E3.float-signal-intercepted', construct, False,
                       '%s() can raise OverflowError/ZeroDivisionError and is neither in a @float_safe function nor in a try that handles it' % a, ctx.where(x))
    rep.floor('E3.float-signal-intercepted', n_sites, 14, 'arithmetic call sites outside numbers.py')
    # the interceptors themselves
    fs = ctx.fn(vm.VALUES + ':float_safe')
    hs = [h for n in ast.walk(fs) if isinstance(n, ast.Try) for h in n.handlers]
    caught = set()
    for h in hs:
        if h.type is not None:
            caught |= set(norm(e) for e in (h.type.elts if isinstance(h.type, ast.Tuple) else [h.type]))
    rep.ob('E3.float_safe-catches', 'float_safe handles ValueError and ArithmeticError', {'ValueError', 'ArithmeticError'} <= caught, repr(caught), ctx.where(fs))
    hd = ctx.fn(vm.VALUES + ':FloatErrorHandler.handle')
    outs = [norm(r.exc) for r in own_nodes(hd) if isinstance(r, ast.Raise) and r.exc is not None]
    rep.ob('E3.handler-raises-basic', 'the float error handler raises only BASIC errors (or re-raises what it was not made for)',
           sorted(outs) == ['e', 'error.BASICError(math_error)'], repr(outs), ctx.where(hd))


def check_e4(ctx, rep):
    roots = [t for k, kind, v, ts in dispatch_roots(ctx) for t in ts]
    seen = ctx.cg_precise.reachable(roots)
    n = 0
    found = set()
    for fn in ctx.idx.functions('pcbasic/basic/'):
        who = qualname(fn).split(':')[1]
        for x in own_nodes(fn):
            if not (isinstance(x, ast.Raise) and x.exc is not None):
                continue
            t = norm(x.exc.func) if isinstance(x.exc, ast.Call) else norm(x.exc)
            if t.split('.')[-1] in BASIC_EXC or (isinstance(x.exc, ast.Name) and x.exc.id in ('e', 'err')):
                continue
            if isinstance(x.exc, ast.Call) and isinstance(x.exc.func, ast.Attribute) and x.exc.func.attr == '__class__':
                continue
            n += 1
            key = (who, t)
            found.add(key)
            if key in E4_TABLE:
                cat, spec = E4_TABLE[key]
                if cat == I:
                    ok, why = _interceptor_present(ctx, spec)
                    rep.ob('E4.interceptor-present', '%s raises %s; intercepted by %s' % (who, t, spec.split(':')[1]), ok, why, ctx.where(x))
                else:
                    rep.ob('E4.triaged', '%s raises %s [%s]' % (who, t, cat), True, spec)
                continue
            # untriaged: locally handled?
            fl = ctx.flow(fn)
            if fl.in_try_catching(x, (t.split('.')[-1], 'Exception')) is not None:
                rep.ob('E4.triaged', '%s raises %s inside a try that handles it' % (who, t), True)
                continue
            reachable = id(fn) in seen
            rep.ob('E4.untriaged-host-raise', '%s raises %s' % (who, t), not reachable,
                   'a host exception raised on a path reachable from a statement/function callback (%s)' % ' -> '.join(
                       p.split(':')[1] for p in ctx.cg_precise.path(seen, fn)[-4:]) if reachable else 'not reachable from callbacks on the resolved graph', ctx.where(x))
    rep.floor('E4.sites', n, 55, 'non-BASIC raise sites')
    rep.note('E4.table_entries_unused', sorted('%s:%s' % k for k in set(E4_TABLE) - found)[:8])
    # boundary
    hx = ctx.fn(IMPL + ':Implementation._handle_exceptions')
    types = [norm(h.type) for n_ in own_nodes(hx) if isinstance(n_, ast.Try) for h in n_.handlers]
    rep.ob('E4.boundary', '_handle_exceptions lets only Break, BASICError, Exit be BASIC behaviour', types == ['error.Break', 'error.BASICError', 'error.Exit'], repr(types), ctx.where(hx))


def _interceptor_present(ctx, spec):
    loc, _, exc = spec.partition('|')
    try:
        fn = ctx.fn(loc)
    except AnalysisError as e:
        return False, 'interceptor function vanished: %s' % e
    if exc == '@float_safe':
        return 'float_safe' in decorators(fn), 'decorators: %r' % decorators(fn)
    for n in ast.walk(fn):
        if isinstance(n, ast.ExceptHandler):
            if n.type is None:
                return True, ''
            names = [norm(e) for e in (n.type.elts if isinstance(n.type, ast.Tuple) else [n.type])]
            if exc in names or exc.split('.')[-1] in [x.split('.')[-1] for x in names]:
                return True, ''
    return False, 'no `except %s` left in %s' % (exc, loc.split(':')[1])


def check_e5(ctx, rep):
    n = 0
    for fn in ctx.idx.functions('pcbasic/basic/'):
        cls = enclosing_class(fn)
        if cls is not None and cls.name == 'Program':
            continue
        if fn._module.path.endswith('api.py'):
            continue
        fl = None
        who = qualname(fn).split(':')[1]
        for x in own_nodes(fn):
            if isinstance(x, ast.Subscript) and isinstance(x.ctx, ast.Load) and (norm(x.value).endswith('.line_numbers') or norm(x.value) == 'old_to_new'):
                n += 1
                fl = fl or ctx.flow(fn)
                key = norm(x.slice)
                table = norm(x.value)
                facts = fl.facts(x)
                ok = fl.in_try_catching(x, ('KeyError', 'LookupError', 'Exception')) is not None
                ok = ok or any(f.pol and f.text == '%s in %s' % (key, table) for f in facts) or any((not f.pol) and f.text == '%s not in %s' % (key, table) for f in facts)
                if not ok:
                    # key returned by get_line_number and checked to be a real line number
                    defs = [a for a in own_nodes(fn) if isinstance(a, ast.Assign) and norm(a.targets[0]) == key]
                    if len(defs) == 1 and 'get_line_number(' in norm(defs[0].value):
                        b = bounds(ctx, facts, key)
                        ok = b.lo() is not None and b.lo() >= 0
                rep.ob('E5.line-map-lookup-total', '%s: %s' % (who, short(x, 60)), ok,
                       'a line that is not (or no longer) in the map raises KeyError', ctx.where(x))
    rep.floor('E5.line-map-lookup-total', n, 3, 'lookups outside Program')


def check_e6(ctx, rep):
    from . import c44
    sub = type(rep)('C44')
    c44.check(ctx, sub)
    for f in sub.findings:
        if f.rule in ('validate.user-component', 'validate.non-numeric', 'validate.component-count', 'environ.host-refusal-is-ifc', 'environ.non-ascii-name',
                      'environ.statement', 'environ.empty-name'):
            rep.ob('E6.validating-host-call', f.construct, False, f.detail, f.where)
    rep.ob('E6.validating-host-call', 'datetime.datetime / os.environ arguments are validated or the call is protected (%d obligations from C44)' % sub.obligations,
           not sub.errors, '; '.join(sub.errors))
    for e in sub.errors:
        rep.error('E6 (via C44): ' + e)


def check_e7(ctx, rep):
    n = 0
    for fn in ctx.idx.functions('pcbasic/basic/devices/'):
        cls = enclosing_class(fn)
        who = qualname(fn).split(':')[1]
        fl = None
        for x in own_nodes(fn):
            if isinstance(x, ast.Call) and isinstance(x.func, ast.Attribute) and norm(x.func.value) == 'self._fhandle' \
                    and x.func.attr in ('read', 'write', 'seek', 'tell', 'truncate', 'flush', 'close', 'readline'):
                n += 1
                fl = fl or ctx.flow(fn)
                safe = any('safe_io' in w_ for w_ in fl.with_items(x)) or fl.in_try_catching(x, ('EnvironmentError', 'IOError', 'OSError', 'Exception')) is not None
                reason = E7_EXEMPT.get(who) or (E7_EXEMPT.get(cls.name) if cls is not None else None)
                rep.ob('E7.host-io-translated', '%s: %s' % (who, short(x, 50)), safe or bool(reason),
                       reason or 'host stream access outside safe_io(): an OSError escapes the interpreter', ctx.where(x))
    rep.floor('E7.host-io-translated', n, 30, 'stream accesses')
    si = ctx.fn('pcbasic/basic/devices/devicebase.py:safe_io')
    hs = [h for t in own_nodes(si) if isinstance(t, ast.Try) for h in t.handlers]
    rep.ob('E7.safe_io', 'safe_io converts EnvironmentError into a BASIC error', len(hs) == 1 and norm(hs[0].type) == 'EnvironmentError' and
           any(ctx.basic_error_code(r) for r in own_nodes(hs[0]) if isinstance(r, ast.Raise)), '', ctx.where(si))
    ho = ctx.fn('pcbasic/basic/devices/disk.py:handle_oserror')
    rep.ob('E7.handle_oserror', 'handle_oserror always ends in a BASIC error (unmapped codes -> Device I/O error)',
           isinstance(ho.body[-1], ast.Raise) and norm(ho.body[-1].exc) == 'error.BASICError(basic_err)', '', ctx.where(ho))


def check_e8(ctx, rep):
    prec, unary, binary = vm.operator_tables(ctx)
    n = 0
    for table in (unary, binary):
        for tok, (k, v) in sorted(table.items()):
            fn = vm.resolve_callback(ctx, v)
            if fn is None or isinstance(fn, ast.Lambda):
                continue
            checked, bad = vm.type_gate_findings(ctx, fn)
            n += 1
            for node, p, attr in bad:
                rep.ob('E8.operand-type-checked', '%s: %s.%s' % (fn.name, p, attr), False,
                       'operand %s is used as a number without a type check: a string operand raises AttributeError' % p, ctx.where(node))
            if not bad:
                rep.ob('E8.operand-type-checked', '%s' % fn.name, True)
    rep.floor('E8.operand-type-checked', n, 20, 'operator callbacks')


E9_TABLE = {
    ('protect', 's'): 'the program stream always holds at least the terminator, so the loop runs',
    ('COMFile.read_line', 'c'): '`out` starts empty, so the `while len(out) < 255` loop runs at least once',
    ('Display._set_mode', 'saved_buffer'): 'assigned and used under the same `if not erase` (parameter, not re-assigned)',
    ('Display._set_mode', 'saved_addr'): 'assigned and used under the same `if not erase`',
    ('Graphics._draw_circle', 'coo0x'): 'used only if line0, i.e. a start angle was given; its octant coordinate coo0 lies in the scanned range 0..r/sqrt(2) (3000 random pie slices drawn while triaging)',
    ('Graphics._draw_circle', 'coo1x'): 'as coo0x, for the end angle',
    ('Graphics._check_scanline', 'repeated_back'): 'assigned and used under the same `if bg_tile`',
    ('Graphics.put_', 'rect'): 'operation_token is one of the five tokens the PUT syntax admits (require_read) or defaults to XOR',
    ('Graphics.point_', 'point'): 'fn is range-checked to 0..3 and the two branches cover (0, 1) and (2, 3)',
    ('Graphics.pmap_', 'value'): 'mode is range-checked to 0..3 and the branches cover 0, 1, 2, 3',
    ('Shell._communicate', 'c'): 'not decided: needs Ctrl+Break as the very first event inside an interactive SHELL, which talks to a host process; could not be driven from a Session while triaging',
    ('Arrays.dereference', 'name'): 'found_name is set only inside the loop, so the loop ran (since 055d05f1 the loop variable is no longer read after the loop)',
    ('Parser._parse_circle', 'count_args'): '`for count_args in range(4)` always runs',
    ('Parser._parse_paint', 'last'): '_parse_pair always yields two values',
    ('Parser._parse_paint', 'count_args'): '`for count_args in range(3)` always runs',
    ('Parser._parse_view', 'fill'): 'read only when fill_comma is true, which is set in the branch that assigns fill (short-circuit `and`)',
    ('Sound.sound_', 'dur'): 'assigned when command is None; when command is not None the function returns before the read',
    ('Sound.sound_', 'freq'): 'as dur',
    ('Sound.sound_', 'volume'): 'as dur',
    ('Sound.sound_', 'voice'): 'as dur',
}


def check_e9(ctx, rep):
    from ..defassign import possibly_unbound
    n_fn = n_hit = 0
    seen = set()
    for fn in ctx.idx.functions('pcbasic/basic/'):
        n_fn += 1
        who = qualname(fn).split(':')[1]
        for name, line in possibly_unbound(fn):
            n_hit += 1
            key = (who, name)
            seen.add(key)
            reason = E9_TABLE.get(key)
            rep.ob('E9.possibly-unbound-local', '%s: local `%s`' % (who, name), reason is not None,
                   reason or 'the local is read on a path on which it was never assigned (assigned only inside a loop or branch that may be skipped): UnboundLocalError',
                   '%s (line %s)' % (qualname(fn), line))
    rep.floor('E9.possibly-unbound-local', n_fn, 1500, 'functions analysed')
    rep.note('E9.sites', n_hit)
    rep.note('E9.table_entries_unused', sorted('%s:%s' % k for k in set(E9_TABLE) - seen))


# E11 triage table: (function, lookup) -> why the key is always in the table
E11_TABLE = {
    ('CassetteStream.open_write', 'TYPE_TO_TOKEN[filetype]'):
        'filetype comes from Files.open / the program (LOAD/SAVE/BSAVE) paths, which pass one of D A B P M; TYPE_TO_TOKEN has all five',
    ('DiskDevice.open_stream', 'ACCESS_MODES[mode]'):
        'mode passed Device.open`s `mode not in self.allowed_modes` test (IOR for disks) or is a literal in the callers; ACCESS_MODES has I O R A',
    ('BinaryFile.__init__', 'TYPE_TO_MAGIC[filetype]'):
        'constructed only under `filetype in (B, P, M)` in DiskDevice._create_file_object; TYPE_TO_MAGIC has all three',
    ('_CompositeMixin._get_rgb_table', 'COMPOSITE[self._adapter]'):
        'read only when self._has_composite, which __init__ sets to `monitor == composite and adapter in COMPOSITE`',
    ('get_mode', '_MODE_INFO[name]'):
        'name is a value of _MODES; E11.mode-tables-agree shows every such value is a key of _MODE_INFO',
    ('UserFunction.evaluate', 'values.TYPE_TO_CONV[self._memory.complete_name(name)[-1:]]'):
        'complete_name always returns a name ending in one of the four sigils',
    ('size_bytes', 'TYPE_TO_SIZE[name[-1:]]'):
        'internal primitive: callers pass a completed name or a sigil (Memory.complete_name / tokeniser); not decided per call site',
    ('Values.create', 'SIZE_TO_CLASS[len(buf)]'):
        'internal primitive: buffers are slices of the sizes in TYPE_TO_SIZE made by the variable stores',
    ('Values.new', 'TYPE_TO_CLASS[sigil]'):
        'internal primitive: sigil is name[-1:] of a completed name, or a literal',
    ('Values.from_value', 'TYPE_TO_CLASS[typechar]'):
        'internal primitive: typechar is a literal sigil at every caller (API conversion, INPUT, READ)',
    ('Values.from_bytes', 'SIZE_TO_CLASS[len(token_bytes)]'):
        'callers pass token payloads of the sizes in PLUS_BYTES (padded at end of stream since 3c00fe40) or a size checked against SIZE_TO_TYPE (103d9d6b)',
}


def _is_table(val):
    return isinstance(val, (ast.Dict, ast.DictComp)) or (
        isinstance(val, ast.Call) and norm(val.func) in ('dict', 'OrderedDict', 'collections.OrderedDict'))


def check_e11(ctx, rep):
    """Lookups in module-level constant tables: the key is known to be present, or a miss is caught."""
    n = n_static = 0
    seen = set()
    for fn in ctx.idx.functions('pcbasic/basic/'):
        fl = None
        who = qualname(fn).split(':')[1]
        module = ctx.idx.modules[qualname(fn).split(':')[0]]
        for sub in own_nodes(fn):
            if not (isinstance(sub, ast.Subscript) and isinstance(sub.ctx, ast.Load)) or isinstance(sub.slice, ast.Slice):
                continue
            base = norm(sub.value)
            last = base.split('.')[-1]
            if base.startswith('self.') or not last.replace('_', '').isupper() or not last.replace('_', '').isalpha():
                continue
            r = ctx.idx.resolve_name(module, base)
            if not r or r[0] != 'const':
                continue
            val = r[1]
            if not _is_table(val):
                continue
            n += 1
            text = norm(sub)
            key = ctx.cf.fold(sub.slice, module)
            if not is_unknown(key):
                n_static += 1
                if isinstance(val, ast.Dict):
                    rmod = [m for m in ctx.idx.modules.values() if m.assigns.get(last) is val]
                    keys = [ctx.cf.fold(k, rmod[0]) for k in val.keys] if rmod else None
                    if keys is not None and not any(is_unknown(k) for k in keys):
                        rep.ob('E11.constant-key-present', '%s: %s' % (who, text), key in keys,
                               'constant key %r is not in the table: KeyError on every execution' % (key,), ctx.where(sub))
                continue
            fl = fl or ctx.flow(fn)
            guarded = bool(fl.in_try_catching(sub, ('KeyError', 'LookupError', 'Exception')))
            kt = norm(sub.slice)
            for f in fl.facts(sub):
                if (f.text == '%s in %s' % (kt, base) and f.pol) or (f.text == '%s not in %s' % (kt, base) and not f.pol):
                    guarded = True
            if guarded:
                rep.ob('E11.table-lookup-guarded', '%s: %s' % (who, text), True, '', ctx.where(sub))
                continue
            seen.add((who, text))
            reason = E11_TABLE.get((who, text))
            rep.ob('E11.table-lookup-guarded', '%s: %s' % (who, text), reason is not None,
                   reason or 'lookup in a constant table with a run-time key, not inside a try that catches KeyError and not under a membership test: a key outside the table ends in KeyError',
                   ctx.where(sub))
    rep.floor('E11.table-lookup-guarded', n, 30, 'lookups in module-level constant tables')
    rep.note('E11.sites', dict(total=n, constant_keys=n_static, triaged=len(seen)))
    rep.note('E11.table_entries_unused', sorted('%s:%s' % k for k in set(E11_TABLE) - seen))
    # the mode tables agree: every mode name the adapters list is described
    modes = ctx.idx.modules['pcbasic/basic/display/modes.py']
    m_modes, m_info = modes.assigns.get('_MODES'), modes.assigns.get('_MODE_INFO')
    if m_modes is None or m_info is None:
        raise AnalysisError('modes.py: _MODES / _MODE_INFO not found')
    info_keys = set(k.value for k in m_info.keys if isinstance(k, ast.Constant))
    for st in modes.tree.body:
        if isinstance(st, ast.Assign) and isinstance(st.targets[0], ast.Subscript) and norm(st.targets[0].value) == '_MODE_INFO' \
                and isinstance(st.targets[0].slice, ast.Constant):
            info_keys.add(st.targets[0].slice.value)
    names = []
    for adapter in m_modes.values:
        if isinstance(adapter, ast.Dict):
            names.extend(v for v in adapter.values)
    for v in names:
        rep.ob('E11.mode-tables-agree', '_MODES names %s' % norm(v), isinstance(v, ast.Constant) and v.value in info_keys,
               'mode name listed for an adapter but not described in _MODE_INFO: SCREEN with that mode ends in KeyError', 'pcbasic/basic/display/modes.py (line %d)' % v.lineno)
    rep.floor('E11.mode-tables-agree', len(names), 40, 'mode names in _MODES')


def check_e12(ctx, rep):
    """Sibling devices: a device that can be unattached refuses OPEN before it hands out its missing stream."""
    n = 0
    for cls in [c for (path, _n), c in sorted(ctx.idx.class_table().items()) if path.startswith('pcbasic/basic/devices/')]:
        meths = class_methods(cls)
        av, op = meths.get('available'), meths.get('open')
        if av is None:
            continue
        rets = [r for r in own_nodes(av) if isinstance(r, ast.Return) and r.value is not None]
        if len(rets) != 1 or not (isinstance(rets[0].value, ast.Compare) and norm(rets[0].value).endswith(' is not None')):
            continue
        attr = norm(rets[0].value.left)
        n += 1
        if op is None:
            rep.ob('E12.unattached-device-refuses-open', '%s: open()' % cls.name, False,
                   'available() depends on %s but the class has no open() of its own' % attr, ctx.where(cls))
            continue
        fl = ctx.flow(op)
        refusal = [r for r, c in ctx.raises_in(op) if c == 'DEVICE_UNAVAILABLE' and
                   any((f.text in ('not %s' % attr, '%s is None' % attr) and f.pol) or (f.text in (attr, '%s is not None' % attr) and not f.pol) for f in fl.facts(r))]
        rep.ob('E12.unattached-device-refuses-open', '%s.open: raises Device Unavailable when %s is missing' % (cls.name, attr), bool(refusal),
               'available() says the device is absent when %s is None, but open() does not refuse: a file is opened on a None stream and the first write ends in AttributeError' % attr,
               ctx.where(op))
        for u in own_nodes(op):
            if isinstance(u, ast.Attribute) and norm(u) == attr and isinstance(u.ctx, ast.Load):
                facts = fl.facts(u)
                tested_here = any(attr in f.text for f in facts) or any(isinstance(p_, ast.If) and u in list(ast.walk(p_.test)) for p_ in own_nodes(op))
                rep.ob('E12.unattached-device-refuses-open', '%s.open: use of %s (line-independent: %s)' % (cls.name, attr, short(fl.stmt_of(u), 50) if hasattr(fl, 'stmt_of') else ''),
                       tested_here, 'used on a path on which it was never tested', ctx.where(u))
    rep.floor('E12.unattached-device-refuses-open', n, 3, 'device classes whose availability depends on an attached stream')


def _refused_right_after(assign, local):
    """The statement after `local = ...` (or after the try that holds it) is `if local is None: raise ...`."""
    st = assign
    while isinstance(getattr(st, '_parent', None), ast.Try) and st in st._parent.body:
        st = st._parent
    par = getattr(st, '_parent', None)
    for fld in ('body', 'orelse', 'finalbody'):
        block = getattr(par, fld, None)
        if isinstance(block, list) and st in block:
            i = block.index(st)
            if i + 1 < len(block):
                nxt = block[i + 1]
                return isinstance(nxt, ast.If) and norm(nxt.test) in ('%s is None' % local, 'not %s' % local) \
                    and isinstance(nxt.body[-1], (ast.Raise, ast.Return))
    return False


def check_e13(ctx, rep):
    """A device's master file may be None (nothing attached): whoever fetches `<device>.device_file` tests it before use."""
    n = 0
    for fn in ctx.idx.functions('pcbasic/basic/'):
        who = qualname(fn).split(':')[1]
        fl = None
        for a in own_nodes(fn):
            if not (isinstance(a, ast.Attribute) and a.attr == 'device_file' and isinstance(a.ctx, ast.Load)) or norm(a.value) == 'self':
                continue
            fl = fl or ctx.flow(fn)
            n += 1
            par = getattr(a, '_parent', None)
            text = norm(a)
            if isinstance(par, ast.Attribute) and par.value is a:
                rep.ob('E13.master-file-tested-before-use', '%s: %s' % (who, norm(par)), _not_none(fl, par, text),
                       'the device may have nothing attached (device_file is None): AttributeError', ctx.where(a))
            elif isinstance(par, ast.Assign) and isinstance(par.targets[0], ast.Name):
                local = par.targets[0].id
                uses = [u for u in own_nodes(fn) if isinstance(u, ast.Attribute) and norm(u.value) == local and isinstance(u.ctx, ast.Load) and u.lineno > par.lineno]
                refused = _refused_right_after(par, local)
                for u in uses:
                    rep.ob('E13.master-file-tested-before-use', '%s: %s (from %s)' % (who, norm(u), text), refused or _not_none(fl, u, local),
                           'the device may have nothing attached (device_file is None): AttributeError', ctx.where(u))
            elif isinstance(par, ast.Assign) and isinstance(par.targets[0], ast.Attribute) and isinstance(a.value, ast.Subscript):
                # kept for unconditional use: the device must be one that always has a master file
                key = ctx.fold(a.value.slice)
                devs = [v for d in own_nodes(fn) if isinstance(d, ast.Dict) for k, v in zip(d.keys, d.values) if k is not None and ctx.fold(k) == key]
                ok, why = False, 'device %r is not constructed in this function' % (key,)
                if len(devs) == 1 and isinstance(devs[0], ast.Call):
                    cname = norm(devs[0].func).split('.')[-1]
                    cls = [c for (path, nm), c in ctx.idx.class_table().items() if nm == cname and path.startswith('pcbasic/basic/devices/')]
                    init = class_methods(cls[0]).get('__init__') if cls else None
                    if init is not None:
                        ifl = ctx.flow(init)
                        sets = [st for st in own_nodes(init) if isinstance(st, ast.Assign) and norm(st.targets[0]) == 'self.device_file' and not (isinstance(st.value, ast.Constant) and st.value.value is None)]
                        uncond = [st for st in sets if not ifl.facts(st)]
                        if uncond:
                            ok, why = True, ''
                        elif sets and all([(f.text, f.pol) for f in ifl.facts(st)] == [('self.stream', True)] for st in sets):
                            # LPT: the master file exists if a stream does; the stream defaults to the second constructor argument
                            dflt = devs[0].args[1] if len(devs[0].args) > 1 else None
                            ok = dflt is not None and not (isinstance(dflt, ast.Constant) and dflt.value is None)
                            why = '' if ok else 'the device is constructed without a default stream, so its master file can be None, but it is kept for unconditional use'
                        else:
                            why = '%s.__init__ does not always create a master file' % cname
                rep.ob('E13.master-file-tested-before-use', '%s: %s kept as %s' % (who, text, norm(par.targets[0])), ok, why, ctx.where(a))
            elif isinstance(par, (ast.BoolOp, ast.If, ast.While, ast.IfExp)) or (isinstance(par, ast.UnaryOp) and isinstance(par.op, ast.Not)) \
                    or (isinstance(par, ast.Compare) and all(isinstance(o, (ast.Is, ast.IsNot)) for o in par.ops)):
                rep.ob('E13.master-file-tested-before-use', '%s: %s is a truth test' % (who, short(par, 50)), True, '', ctx.where(a))
            else:
                rep.ob('E13.master-file-tested-before-use', '%s: %s' % (who, short(fl.stmt_of(a), 60)), False, 'unrecognised use of a master file that may be None', ctx.where(a))
    rep.floor('E13.master-file-tested-before-use', n, 5, 'reads of another object`s device_file')


TOKENISER = 'pcbasic/basic/converter/tokeniser.py'


def check_e14(ctx, rep):
    """Line and jump numbers are packed as uint16: the reader that produces them cannot return more than 65535."""
    rd = ctx.fn(TOKENISER + ':PlainTextStream.read_line_number')
    loops = [w for w in own_nodes(rd) if isinstance(w, ast.While)]
    ndig = cut = None
    for w in loops:
        t = w.test
        if isinstance(t, ast.Compare) and len(t.ops) == 1 and isinstance(t.ops[0], ast.Lt) and isinstance(t.left, ast.Name):
            v = ctx.fold(t.comparators[0])
            counter = t.left.id
            incs = [a for a in ast.walk(w) if isinstance(a, ast.AugAssign) and norm(a.target) == counter and isinstance(a.op, ast.Add) and ctx.fold(a.value) == 1]
            appends = [a for a in ast.walk(w) if isinstance(a, ast.AugAssign) and norm(a.target) == 'word']
            # each digit appended counts once
            same_block = all(any(i in blk for i in incs) for blk in [getattr(a, '_parent', None).body if hasattr(getattr(a, '_parent', None), 'body') else [] for a in appends])
            if not is_unknown(v) and incs and appends and same_block:
                ndig = v
        for c in ast.walk(w):
            if isinstance(c, ast.If) and isinstance(c.test, ast.Compare) and norm(c.test.left) == 'int(word)' and len(c.test.ops) == 1 \
                    and isinstance(c.test.ops[0], (ast.Gt, ast.GtE)) and any(isinstance(b, ast.Break) for b in c.body):
                k = ctx.fold(c.test.comparators[0])
                if not is_unknown(k):
                    cut = k if isinstance(c.test.ops[0], ast.Gt) else k - 1
    rep.ob('E14.line-number-fits-uint16', 'read_line_number: digit loop is bounded (`while counter < N`, one count per digit)', ndig is not None,
           'no bounded digit loop recognised', ctx.where(rd))
    bound = None
    if ndig is not None:
        bound = 10 ** ndig - 1
        if cut is not None:
            bound = min(bound, 10 * cut + 9)
    rep.ob('E14.line-number-fits-uint16', 'read_line_number: largest number it can return is at most 65535',
           bound is not None and bound <= 0xffff,
           'at most %s digits, further digits only while the number read so far is <= %s: it can return up to %s, and the tokeniser packs it with struct.pack(\'<H\'): struct.error'
           % (ndig, cut, bound), ctx.where(rd))
    rets = [r for r in own_nodes(rd) if isinstance(r, ast.Return) and r.value is not None and not (isinstance(r.value, ast.Constant) and r.value.value is None)]
    rep.ob('E14.line-number-fits-uint16', 'read_line_number returns int(word) only', bool(rets) and all(norm(r.value) == 'int(word)' for r in rets),
           '', ctx.where(rd))
    n = 0
    for name in ('Tokeniser._tokenise_line_number', 'Tokeniser._tokenise_jump_number'):
        fn = ctx.fn(TOKENISER + ':' + name)
        for c in own_nodes(fn):
            if isinstance(c, ast.Call) and norm(c.func) == 'struct.pack' and len(c.args) == 2 and ctx.fold(c.args[0]) == '<H':
                n += 1
                src = [a for a in own_nodes(fn) if isinstance(a, ast.Assign) and norm(a.targets[0]) == norm(c.args[1])]
                rep.ob('E14.line-number-fits-uint16', '%s: packed value comes from read_line_number' % name,
                       len(src) == 1 and norm(src[0].value) == 'ins.read_line_number()', '', ctx.where(c))
    rep.floor('E14.line-number-fits-uint16', n, 2, 'uint16 packs of line numbers in the tokeniser')


RUNS_BASIC = ('self._store_line', 'self.interpreter.loop', 'self.parser.parse_expression', 'self.tokeniser.tokenise_line',
              'self._auto_step', 'self._show_prompt', 'self.console.read_line')


def check_e15(ctx, rep):
    """E15: a value that POKE or OUT hands on is a byte.  The memory writers behind _set_memory store it with
    struct 'B' formats, bytearray items and int2byte, each of which raises a host exception for 256."""
    M = 'pcbasic/basic/machine.py'
    n = 0
    for name, var in (('Memory.poke_', 'val'), ('MachinePorts.out_', 'val')):
        fn = ctx.fn('%s:%s' % (M, name))
        rc = [c for c in own_nodes(fn) if isinstance(c, ast.Call) and norm(c.func) == 'error.range_check' and len(c.args) >= 3 and var in [norm(a) for a in c.args[2:]]]
        use = [c for c in own_nodes(fn) if isinstance(c, ast.Call) and c not in rc and not norm(c.func).startswith(('values.', 'error.'))
               and var in [norm(a) for a in c.args]]
        n += len(rc)
        lo = [ctx.fold(c.args[0]) for c in rc]
        hi = [ctx.fold(c.args[1]) for c in rc]
        ok = len(rc) == 1 and isinstance(lo[0], int) and isinstance(hi[0], int) and lo[0] >= 0 and hi[0] <= 255 and all(rc[0].lineno < u.lineno for u in use)
        rep.ob('E15.poked-value-is-a-byte', '%s: `%s` is range-checked to 0..255 before it is handed on' % (name, var), ok,
               'bounds %s..%s: 256 reaches struct.pack(\'B\') / a bytearray item and ends in struct.error or ValueError' % (lo, hi), ctx.where(rc[0] if rc else fn))
    rep.floor('E15.poked-value-is-a-byte', n, 2, 'byte range checks in POKE and OUT')


def check_e10(ctx, rep):
    """The three entry points that run BASIC code do all of it inside `with self._handle_exceptions()`."""
    n = 0
    for name in ('execute', 'evaluate', 'interact'):
        fn = ctx.fn(IMPL + ':Implementation.' + name)
        fl = ctx.flow(fn)
        for c in own_nodes(fn):
            if isinstance(c, ast.Call) and norm(c.func) in RUNS_BASIC:
                n += 1
                inside = any('_handle_exceptions' in w_ for w_ in fl.with_items(c))
                rep.ob('E10.entry-point-inside-boundary', 'Implementation.%s: %s' % (name, short(c, 50)), inside,
                       'runs outside `with self._handle_exceptions()`: a BASIC error raised here leaves Session.%s as a raw BASICError instead of an error message' % name,
                       ctx.where(c))
    rep.floor('E10.entry-point-inside-boundary', n, 8, 'calls that run BASIC code in execute / evaluate / interact')


def check(ctx, rep):
    from . import c10 as _c10, _share as _sh
    _sh.share(ctx, rep, _c10, ('roots.registration-released-on-every-exit', 'temporaries.no-boundary'),
              'a stale collector root that was a temporary string makes the next garbage collection end in KeyError')
    from . import c33 as _c33
    _sh.share(ctx, rep, _c33, ('colour.within-mode-range',), 'a drawing colour outside the byte range ends in ValueError when the pixel is written')
    from . import c34 as _c34
    _sh.share(ctx, rep, _c34, ('access.mapper-interface-complete', 'access.video-part-length-not-negative'), 'an operation missing from the mapper of the current mode, or a negative block length, ends in a host exception')
    from . import c23 as _c23
    _sh.share(ctx, rep, _c23, ('commons.function-pointers-are-not-strings',), 'CHAIN ...,ALL reads as string pointers only scalars that are strings: the code address kept for DEF FNA$ would be dereferenced into ValueError')
    check_e9(ctx, rep)
    check_e10(ctx, rep)
    check_e15(ctx, rep)
    check_e11(ctx, rep)
    check_e12(ctx, rep)
    check_e13(ctx, rep)
    check_e14(ctx, rep)
    check_e1(ctx, rep)
    check_e2(ctx, rep)
    check_e3(ctx, rep)
    check_e4(ctx, rep)
    check_e5(ctx, rep)
    check_e6(ctx, rep)
    check_e7(ctx, rep)
    check_e8(ctx, rep)


def variants(ctx):
    Va = mu.Variant
    V = vm.VALUES

    def in_fn(f_name, f):
        return lambda tree: f(mu.find_def(tree, f_name))

    return [
        Va('poke-accepts-256', 'break', 'pcbasic/basic/machine.py',
           in_fn('Memory.poke_', lambda fn: mu.replace_expr(fn, mu.text_is('error.range_check(0, 255, val)'), 'error.range_check(0, 256, val)')), expect='E15'),
        Va('chain-all-dereferences-function-pointer', 'break', 'pcbasic/basic/memory/memory.py',
           in_fn('DataSegment.preserve_commons', lambda fn: mu.replace_expr(fn, mu.text_is("name[-1:] == values.STR and name[:1] < b'\\x80'"), 'name[-1:] == values.STR')),
           expect='shared.commons.function-pointers'),
        Va('statement-without-callback', 'break', STMT,
           in_fn('Parser.init_statements', lambda fn: mu.del_dict_key(mu.find_assign_value(fn, 'self._callbacks'), 'tk.LCOPY')), expect='E1'),
        Va('function-selector-without-callback', 'break', EXPR,
           in_fn('ExpressionParser.init_functions', lambda fn: mu.del_dict_key(mu.find_assign_value(fn, 'self._callbacks'), "tk.ERDEV + b'$'")), expect='E1'),
        Va('callback-names-missing-method', 'break', STMT,
           in_fn('Parser.init_statements', lambda fn: mu.set_dict_value(mu.find_assign_value(fn, 'self._callbacks'), 'tk.BEEP', 'session.sound.beeep_')), expect='E1.callbacks'),
        Va('peek-values-none-again', 'break', 'pcbasic/basic/machine.py',
           in_fn('Memory.__init__', lambda fn: mu.replace_stmt(fn, mu.text_is('self._peek_values = peek_values or {}'), 'self._peek_values = peek_values')), expect='E2'),
        Va('for-counter-unprotected', 'break', INTERP, in_fn('Interpreter.iterate_loop', _unwrap_try), expect='E3'),
        Va('mul-not-float-safe', 'break', V, in_fn('mul', lambda fn: mu.remove_decorator(fn, 'float_safe')), expect='E3'),
        Va('new-host-raise-in-callback', 'break', 'pcbasic/basic/sound.py',
           in_fn('Sound.beep_', lambda fn: mu.insert_first(fn, "if self._sound_on is None:\n    raise ValueError('sound state undefined')")), expect='E4.untriaged'),
        Va('key-no-longer-catches-set-macro', 'break', IMPL, in_fn('Implementation.key_', _unwrap_first_try), expect='E4.interceptor'),
        Va('print-using-lets-valueerror-through', 'break', 'pcbasic/basic/devices/formatter.py', in_fn('Formatter._print_using', _narrow_handlers), expect='E4.interceptor'),
        Va('restore-lookup-unprotected', 'break', INTERP, in_fn('Interpreter.restore_', _unwrap_try), expect='E5'),
        Va('setenv-unprotected', 'break', 'pcbasic/basic/dos.py', in_fn('Environment._setenv', _unwrap_last_try), expect='E6'),
        Va('random-get-outside-safe-io', 'break', 'pcbasic/basic/devices/diskfiles.py', in_fn('RandomFile.get', _unwrap_with), expect='E7'),
        Va('imp-operand-unchecked', 'break', V,
           in_fn('imp_', lambda fn: mu.replace_expr(fn, mu.text_is('to_integer(right)'), 'right.to_integer()')), expect='E8'),
        Va('float-safe-narrowed', 'break', V, in_fn('float_safe', _only_arithmetic), expect='E3.float_safe'),
        Va('store-line-outside-boundary', 'break', IMPL, in_fn('Implementation.execute', _store_line_first), expect='E10'),
        Va('unprotect-returns-unbound', 'break', 'pcbasic/basic/converter/protect.py',
           in_fn('unprotect', lambda fn: mu.remove_stmt(fn, mu.text_is('c = 0'))), expect='E9'),
        Va('con-append-unbound', 'break', 'pcbasic/basic/devices/files.py',
           in_fn('Files._get_device_param', lambda fn: mu.remove_stmt(fn, lambda st: isinstance(st, ast.Raise) and 'BAD_FILE_MODE' in norm(st))), expect='E9'),
        Va('varptrstr-type-byte-unchecked', 'break', 'pcbasic/basic/memory/memory.py',
           in_fn('DataSegment.get_value_for_varptrstr', lambda fn: mu.remove_stmt(fn, lambda st: isinstance(st, ast.If) and 'SIZE_TO_TYPE' in norm(st.test))), expect='E11.table-lookup-guarded'),
        Va('adapter-lists-undescribed-mode', 'break', 'pcbasic/basic/display/modes.py',
           lambda tree: mu.replace_expr(tree, lambda n: isinstance(n, ast.Constant) and n.value == '640x350x4c' and n.col_offset < 16, "'640x350x4x'"), expect='E11.mode-tables-agree'),
        Va('neutral-varptrstr-check-as-positive-test', 'neutral', 'pcbasic/basic/memory/memory.py',
           in_fn('DataSegment.get_value_for_varptrstr', lambda fn: mu.replace_expr(fn, mu.text_is('size not in values.SIZE_TO_TYPE'), 'not (size in values.SIZE_TO_TYPE)'))),
        Va('lpt-open-on-missing-stream', 'break', 'pcbasic/basic/devices/parports.py',
           in_fn('LPTDevice.open', lambda fn: mu.remove_stmt(fn, lambda st: isinstance(st, ast.If) and 'self.stream' in norm(st.test))), expect='E12'),
        Va('com-open-refusal-after-use', 'break', 'pcbasic/basic/devices/ports.py',
           in_fn('COMDevice.open', lambda fn: mu.replace_expr(fn, mu.text_is('not self._serial'), 'not self._spec')), expect='E12'),
        Va('width-on-unattached-device', 'break', 'pcbasic/basic/devices/files.py',
           in_fn('Files.width_', lambda fn: mu.remove_stmt(fn, lambda st: isinstance(st, ast.If) and norm(st.test) == 'dev is None')), expect='E13'),
        Va('lpt1-without-default-stream', 'break', 'pcbasic/basic/devices/files.py',
           in_fn('Files._init_devices', lambda fn: mu.replace_expr(fn, mu.text_is('devicebase.nullstream()'), 'None')), expect='E13'),
        Va('line-number-cutoff-one-higher', 'break', TOKENISER,
           in_fn('PlainTextStream.read_line_number', lambda fn: mu.replace_expr(fn, lambda n: isinstance(n, ast.Constant) and n.value == 6552, '6553')), expect='E14'),
        Va('line-number-six-digits', 'break', TOKENISER,
           in_fn('PlainTextStream.read_line_number', lambda fn: mu.replace_expr(fn, mu.text_is('int(word) > 6552'), 'int(word) > 65529')), expect='E14'),
        Va('neutral-line-number-cutoff-as-gte', 'neutral', TOKENISER,
           in_fn('PlainTextStream.read_line_number', lambda fn: mu.replace_expr(fn, mu.text_is('int(word) > 6552'), 'int(word) >= 6553'))),
        Va('neutral-try-widened', 'neutral', INTERP,
           in_fn('Interpreter.iterate_loop', lambda fn: mu.replace_expr(fn, lambda n: isinstance(n, ast.Name) and n.id == 'OverflowError', 'ArithmeticError'))),
    ]


def _unwrap_try(fn):
    for n in ast.walk(fn):
        for fld in ('body', 'orelse'):
            b = getattr(n, fld, None)
            if isinstance(b, list):
                for i, s in enumerate(b):
                    if isinstance(s, ast.Try):
                        b[i:i + 1] = s.body
                        return True
    return False


_unwrap_first_try = _unwrap_try


def _unwrap_last_try(fn):
    last = None
    for n in ast.walk(fn):
        for fld in ('body', 'orelse'):
            b = getattr(n, fld, None)
            if isinstance(b, list):
                for i, s in enumerate(b):
                    if isinstance(s, ast.Try):
                        last = (b, i, s)
    if last:
        b, i, s = last
        b[i:i + 1] = s.body
        return True
    return False


def _narrow_handlers(fn):
    done = False
    for n in ast.walk(fn):
        if isinstance(n, ast.ExceptHandler) and n.type is not None and norm(n.type) == 'ValueError':
            n.type = ast.Name(id='KeyError', ctx=ast.Load())
            done = True
    return done


def _unwrap_with(fn):
    for n in ast.walk(fn):
        for fld in ('body', 'orelse'):
            b = getattr(n, fld, None)
            if isinstance(b, list):
                for i, s in enumerate(b):
                    if isinstance(s, ast.With) and 'safe_io' in norm(s.items[0].context_expr):
                        b[i:i + 1] = s.body
                        return True
    return False


def _only_arithmetic(fn):
    for n in ast.walk(fn):
        if isinstance(n, ast.ExceptHandler) and isinstance(n.type, ast.Tuple):
            n.type = ast.Name(id='ArithmeticError', ctx=ast.Load())
            return True
    return False


def _store_line_first(fn):
    w = [st for st in fn.body if isinstance(st, ast.With)]
    if len(w) != 1:
        return False
    st = [x for x in w[0].body if '_store_line' in norm(x)]
    if len(st) != 1:
        return False
    w[0].body.remove(st[0])
    fn.body.insert(fn.body.index(w[0]), st[0])
    return True

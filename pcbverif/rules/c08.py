"""
C08 -- PRINT USING produces fields of the declared width (structural half).

Decides, with N = len(tokens) (the characters of the field specification):
 * width bookkeeping: in NumberField.__init__ and StringField.__init__ every
   character consumed from the format string (`fors.read(k)`) is appended to
   the token word, so N is exactly the declared field width; a rejected field
   rewinds by len(word);
 * NumberField.format: the value returned is either b'%' + valstr under the
   fact len(valstr) > N, or valstr.rjust(N, fill) under len(valstr) <= N (whose
   length is then exactly N) -- on every path; `tokens` is never reassigned; the
   fill is '*' iff the field contains '*';
 * more than 24 digit positions raise Illegal function call; non-numbers raise
   Type mismatch (pass_number) before anything is formatted; the value is
   formatted from a copy (clone().iabs());
 * StringField.format: '&' emits the whole string, every other field emits
   s.ljust(n)[:n] with the same n = len(field) ('!' has n == 1);
 * format-string cycling: at the end of the format string the parser seeks back
   to 0 iff at least one field was found (else breaks: no infinite loop), and a
   format string without any field raises Illegal function call.
Not decided: which digits appear (numeric; C07).
"""
import ast

from ..source import norm, short
from ..flow import own_nodes
from .. import mutate as mu

PROP = 'C08'
LEVEL = 'other'
TECHNIQUE = 'static analysis: length lattice on the last branch of format(), consumption bookkeeping (every read is appended), path facts'
EXPLANATION = __doc__

F = 'pcbasic/basic/devices/formatter.py'


def _reads_appended(ctx, rep, spec):
    fn = ctx.fn(spec)
    reads = [c for c in own_nodes(fn) if isinstance(c, ast.Call) and norm(c.func) == 'fors.read']
    n = 0
    for r in reads:
        n += 1
        p = r._parent
        ok = isinstance(p, ast.AugAssign) and isinstance(p.op, ast.Add) and norm(p.target) == 'word' and p.value is r
        if not ok and isinstance(p, ast.Assign) and norm(p.targets[0]) == 'c':
            # c = fors.read(1); word += c
            blk = p._parent.body
            i = blk.index(p)
            ok = i + 1 < len(blk) and norm(blk[i + 1]) == 'word += c'
        rep.ob('width.every-consumed-char-counted', '%s: %s' % (spec.split(':')[1], short(r._parent, 50)), ok,
               'a character is consumed from the format string without being counted in the field width', ctx.where(r))
    seeks = [c for c in own_nodes(fn) if isinstance(c, ast.Call) and norm(c.func) == 'fors.seek']
    for s in seeks:
        rep.ob('width.reject-rewinds', '%s: %s' % (spec.split(':')[1], short(s)), norm(s) == 'fors.seek(-len(word), 1)', '', ctx.where(s))
    return n


def _fixed_rounds_at_last_decimal(ctx, rep):
    """to_str_fixed asks to_decimal for a positive number of significant digits only: with 0 or fewer, to_decimal rounds at the
    units, and a value whose first significant digit lies beyond the field's last decimal is shown unrounded (0.06 in #.# as 0.0)."""
    from ..intervals import bounds as _bounds
    fx = ctx.fn('pcbasic/basic/values/numbers.py:Float.to_str_fixed')
    fl = ctx.flow(fx)
    calls = [c for c in own_nodes(fx) if isinstance(c, ast.Call) and isinstance(c.func, ast.Attribute) and c.func.attr == 'to_decimal' and c.args]
    rep.floor('fixed.rounds-at-last-decimal', len(calls), 2, 'calls of to_decimal in to_str_fixed')
    for c in calls:
        a = c.args[0]
        if norm(a) == 'self.digits':
            ok, why = True, ''
        elif isinstance(a, ast.Constant) and a.value == 0:
            # rounding a scaled copy to an integer: the receiver must be the value times 10**n_decimals
            recv = c.func.value
            src = [x.value for x in own_nodes(fx) if isinstance(x, ast.Assign) and isinstance(recv, ast.Name) and norm(x.targets[0]) == recv.id]
            ok = len(src) == 1 and '10 ** n_decimals' in norm(src[0]) and '.imul(' in norm(src[0]) and 'self.clone()' in norm(src[0])
            why = 'to_decimal(0) rounds at the units: the receiver must be a copy of the value scaled by 10**n_decimals'
        else:
            b = _bounds(ctx, fl.facts(c), norm(a))
            ok = b.lo() is not None and b.lo() >= 1
            why = 'the digit count %s is not known to be positive here (%s)' % (norm(a), b.describe())
        rep.ob('fixed.rounds-at-last-decimal', 'to_str_fixed: %s' % short(c, 50), ok, why, ctx.where(c))


def check(ctx, rep):
    from . import c07 as _c07, _share as _sh8
    _sh8.share(ctx, rep, _c07, ('print.window-limits-alike', 'print.sign-after-shift'), 'the digits of a field come from Float.to_decimal: its working window and its rounding are the same for both signs and both limits')
    # the mantissa is made with `work_digits` digits (the call to to_decimal), so the radix lies `work_digits` places to the right of
    # the returned exponent -- counted in the digits actually produced, not in the digits the field asks for
    from ..algebra import lin as _lin8
    sc8 = ctx.fn('pcbasic/basic/values/numbers.py:Float.to_str_scientific')
    td = [c for c in own_nodes(sc8) if isinstance(c, ast.Call) and isinstance(c.func, ast.Attribute) and c.func.attr == 'to_decimal' and c.args]
    rp = [a for a in own_nodes(sc8) if isinstance(a, ast.Assign) and norm(a.targets[0]) == 'radix_position']
    ok8 = len(td) == 1 and len(rp) == 1 and _lin8(rp[0].value) == {'exponent': 1, norm(td[0].args[0]): 1}
    rep.ob('scientific.radix-counted-in-produced-digits', 'to_str_scientific: radix position = exponent + the digit count given to to_decimal', ok8,
           '%s with to_decimal(%s)' % (norm(rp[0].value) if rp else None, norm(td[0].args[0]) if td else None), ctx.where(sc8))
    # scientific fields: to_decimal may return one digit more than asked for when rounding carries; the digit string is then cut to
    # the field, so the radix position has to move with the extra digit (or 9.96 in ##.#^^^^ is shown as a tenth of its value)
    sc = ctx.fn('pcbasic/basic/values/numbers.py:Float.to_str_scientific')
    fls_ = ctx.flow(sc)
    adj = [a for a in own_nodes(sc) if isinstance(a, ast.AugAssign) and norm(a.target) == 'radix_position' and isinstance(a.op, ast.Add)]
    ok_ = len(adj) == 1 and 'len(digitstr)' in norm(adj[0].value) and 'work_digits' in norm(adj[0].value) \
        and any(f.pol and 'len(digitstr) > work_digits' in f.text for f in fls_.facts(adj[0]))
    cut = [a for a in own_nodes(sc) if isinstance(a, ast.Assign) and norm(a.targets[0]) == 'digitstr' and '[:digits_requested]' in norm(a.value)]
    rep.ob('scientific.exponent-follows-a-carried-digit', 'to_str_scientific moves the radix position by the extra digit of a carried rounding, before the digits are cut to the field',
           ok_ and len(cut) == 1 and adj[0].lineno < cut[0].lineno, '', ctx.where(sc))
    # an integer is promoted before formatting with to_float(), which leaves a double a double: the digits of a double field
    # come from the double
    nf_ = ctx.fn('pcbasic/basic/devices/formatter.py:NumberField.format')
    prom = [a for a in own_nodes(nf_) if isinstance(a, ast.Assign) and norm(a.targets[0]) == 'value' and isinstance(a.value, ast.Call)
            and isinstance(a.value.func, ast.Attribute) and a.value.func.attr.startswith('to_') and norm(a.value.func.value) == 'value']
    rep.ob('format.double-keeps-its-precision', 'NumberField.format promotes with value.to_float()', [norm(a.value) for a in prom] == ['value.to_float()'],
           repr([norm(a.value) for a in prom]) + ': a double is rounded to single before it is formatted', ctx.where(nf_))
    # the position of the point is taken from the digits actually produced: rounding can add a leading digit (9.96 -> 10.0), so the
    # count of digits before the point is computed from the digit string made AFTER the last conversion
    fx_ = ctx.fn('pcbasic/basic/values/numbers.py:Float.to_str_fixed')
    convs = [c for c in own_nodes(fx_) if isinstance(c, ast.Call) and isinstance(c.func, ast.Attribute) and c.func.attr == 'to_decimal']
    nb = [a for a in own_nodes(fx_) if isinstance(a, ast.Assign) and norm(a.targets[0]) == 'n_before']
    ds = [a for a in own_nodes(fx_) if isinstance(a, ast.Assign) and norm(a.targets[0]) == 'digitstr' and 'mantissa' in norm(a.value)]
    ok = len(nb) == 1 and len(ds) == 1 and 'len(digitstr)' in norm(nb[0].value) and 'n_after' in norm(nb[0].value) \
        and all(c.lineno < ds[0].lineno for c in convs) and ds[0].lineno < nb[0].lineno
    rep.ob('fixed.point-placed-after-rounding', 'to_str_fixed: digits before the point = len(digit string after the last conversion) - digits after it', ok,
           'the count is fixed before the rounding step: when rounding carries into a new leading digit the point lands one place too far left (9.96 in ##.# as 1.00)', ctx.where(fx_))
    # thousands: the leading partial group exists only if it is not empty
    gt = ctx.fn('pcbasic/basic/values/numbers.py:Float._group_thousands')
    flg = ctx.flow(gt)
    lead = [n for n in own_nodes(gt) if isinstance(n, ast.List) and any(norm(e) == 'digitstr[:first]' for e in n.elts)]
    rep.ob('commas.no-empty-leading-group', '_group_thousands adds the leading partial group only when it has digits',
           len(lead) >= 1 and all(flg.knows(n, 'first', True) for n in lead),
           'an empty first group is joined in: 123456 in ###,### comes out as ,123,456', ctx.where(gt))
    _fixed_rounds_at_last_decimal(ctx, rep)
    n = _reads_appended(ctx, rep, F + ':NumberField.__init__') + _reads_appended(ctx, rep, F + ':StringField.__init__')
    rep.floor('width.every-consumed-char-counted', n, 10, 'reads')
    ni = ctx.fn(F + ':NumberField.__init__')
    st = [norm(s) for s in ni.body]
    rep.ob('width.stored', 'the token word is what format() measures', '(self._tokens, self._digits_before) = (word, digits_before)' in st or
           'self._tokens, self._digits_before = (word, digits_before)' in st, repr(st[-2:]), ctx.where(ni))
    # digit positions contributed by the prefix: '**' fills two positions with digits or asterisks; of '$$' one
    # position is the dollar sign itself, so only one is a digit position (this count drives the ^^^^ exponent
    # and the 24-digit limit)
    ni_ = ctx.fn(F + ':NumberField.__init__')
    fli = ctx.flow(ni_)
    pre = {}
    for a in own_nodes(ni_):
        if isinstance(a, ast.AugAssign) and norm(a.target) == 'digits_before' and isinstance(a.op, ast.Add) and isinstance(a.value, ast.Constant):
            facts = dict((f.text, f.pol) for f in fli.facts(a))
            if facts.get("c in (b'$', b'*')") is True:
                star = facts.get("c == b'*'")
                pre['**' if star else '$$' if star is False else '?'] = a.value.value
    rep.ob('width.prefix-digit-positions', "'**' adds two digit positions, '$$' adds one", pre == {'**': 2, '$$': 1}, repr(pre), ctx.where(ni_))
    nf = ctx.fn(F + ':NumberField.format')
    fl = ctx.flow(nf)
    tok_assign = [a for a in own_nodes(nf) if isinstance(a, ast.Assign) and norm(a.targets[0]) == 'tokens']
    rep.ob('format.tokens-fixed', 'tokens = self._tokens, assigned once', len(tok_assign) == 1 and norm(tok_assign[0].value) == 'self._tokens', '', ctx.where(nf))
    last_if = [s for s in nf.body if isinstance(s, ast.If)][-1]
    ret = nf.body[-1]
    ok = isinstance(ret, ast.Return) and norm(ret.value) == 'valstr' and nf.body.index(last_if) == len(nf.body) - 2
    rep.ob('format.final-branch', 'the width decision is the last thing before the return', ok, '', ctx.where(nf))
    t = last_if.test
    big = isinstance(t, ast.Compare) and norm(t) == 'len(valstr) > len(tokens)'
    b = [norm(s) for s in last_if.body]
    e = [s for s in last_if.orelse if isinstance(s, ast.Assign)]
    rep.ob('format.overflow-marker', "too wide: '%' + the full representation", big and b == ["valstr = b'%' + valstr"], repr(b), ctx.where(last_if))
    okfit = False
    fill = ''
    if len(e) == 1 and isinstance(e[0].value, ast.Call) and norm(e[0].value.func) == 'valstr.rjust' and norm(e[0].targets[0]) == 'valstr':
        okfit = norm(e[0].value.args[0]) == 'len(tokens)'
        fill = norm(e[0].value.args[1]) if len(e[0].value.args) > 1 else ''
    rep.ob('format.exact-width', 'fits: right-justified to exactly len(tokens) characters (len <= N  =>  rjust(N) has length N)', big and okfit, '', ctx.where(last_if))
    rep.ob('format.fill', "fill is '*' iff the field contains '*'", fill == "b'*' if b'*' in tokens else b' '", fill, ctx.where(last_if))
    # cosmetic padding (the leading zero before a bare radix point) must never turn a number that fits
    # into one that does not: every statement that lengthens the finished representation is under len < N
    grow = []
    seen_fmt = False
    for st in nf.body[:nf.body.index(last_if)]:
        if any(isinstance(c, ast.Call) and norm(c.func) in ('value.to_str_scientific', 'value.to_str_fixed') for c in ast.walk(st)):
            seen_fmt = True
            continue
        if not seen_fmt:
            continue
        for a in ast.walk(st):
            if isinstance(a, ast.Assign) and norm(a.targets[0]) == 'valstr' and isinstance(a.value, ast.BinOp) and isinstance(a.value.op, ast.Add) \
                    and isinstance(a.value.left, ast.Constant) and isinstance(a.value.left.value, bytes):
                r = a.value.right
                cut = 0
                if isinstance(r, ast.Subscript) and isinstance(r.slice, ast.Slice) and r.slice.lower is not None and isinstance(r.slice.lower, ast.Constant) and r.slice.upper is None:
                    cut = r.slice.lower.value
                    r = r.value
                if norm(r) == 'valstr' and len(a.value.left.value) - cut > 0:
                    grow.append(a)
    for a in grow:
        rep.ob('format.padding-keeps-fit', 'leading zero only where there is room: %s' % short(a, 40), fl.knows(a, 'len(valstr) < len(tokens)', True),
               'the representation is lengthened without knowing that it is shorter than the field: a number that fits exactly is reported as overflow (%)',
               ctx.where(a))
    rep.floor('format.padding-keeps-fit', len(grow), 3, 'padding statements')
    ifc = [r for r, c in ctx.raises_in(nf) if c == 'ILLEGAL_FUNCTION_CALL']
    rep.ob('format.max-digits', 'more than 24 digit positions raise IFC', len(ifc) == 1 and fl.knows(ifc[0], 'digits_before + decimals > 24', True), '', ctx.where(nf))
    first = [s for s in nf.body if isinstance(s, ast.Assign)][0]
    rep.ob('format.type-check-first', 'the value is checked to be a number first', norm(first) == 'value = values.pass_number(value)', norm(first), ctx.where(nf))
    ab = [a for a in own_nodes(nf) if isinstance(a, ast.Assign) and 'iabs()' in norm(a.value)]
    rep.ob('format.no-operand-mutation', 'the absolute value is taken on a copy', len(ab) == 1 and norm(ab[0].value) == 'value.clone().iabs()', '', ctx.where(nf))
    sci = [c for c in own_nodes(nf) if isinstance(c, ast.Call) and norm(c.func) in ('value.to_str_scientific', 'value.to_str_fixed')]
    d = dict((norm(c.func), fl.knows(c, "b'^' in tokens", True)) for c in sci)
    rep.ob('format.notation', "scientific notation iff the field has '^^^^'", d == {'value.to_str_scientific': True, 'value.to_str_fixed': False}, repr(d), ctx.where(nf))
    # string fields
    sf = ctx.fn(F + ':StringField.format')
    fl2 = ctx.flow(sf)
    a = dict((norm(x.value), fl2.knows(x, "self._string_field == b'&'", True)) for x in own_nodes(sf) if isinstance(x, ast.Assign) and norm(x.targets[0]) == 's'
             and 'to_str' in norm(x.value))
    rep.ob('string.fields', "'&' emits the whole string; other fields pad and cut to the field width",
           a == {'s.to_str()': True, 's.to_str().ljust(len(self._string_field))[:len(self._string_field)]': False}, repr(a), ctx.where(sf))
    rep.ob('string.type-check-first', 'the value is checked to be a string first', norm([s for s in sf.body if isinstance(s, ast.Assign)][0]) == 's = values.pass_string(value)', '', ctx.where(sf))
    # cycling
    pu = ctx.fn(F + ':Formatter._print_using')
    fl3 = ctx.flow(pu)
    sk = [c for c in own_nodes(pu) if isinstance(c, ast.Call) and norm(c) == 'fors.seek(0)']
    rep.ob('cycle.rewind', 'at the end of the format string the parser rewinds to reuse it', len(sk) == 1 and fl3.knows(sk[0], "c == b''", True) and
           fl3.knows(sk[0], 'not format_chars', False), '', ctx.where(pu))
    brk = [b_ for b_ in own_nodes(pu) if isinstance(b_, ast.Break) and fl3.knows(b_, 'not format_chars', True)]
    rep.ob('cycle.no-infinite-loop', 'a format string without fields ends the loop', len(brk) == 1, '', ctx.where(pu))
    ifc = [r for r, c in ctx.raises_in(pu) if c == 'ILLEGAL_FUNCTION_CALL']
    rep.ob('cycle.no-field-is-ifc', 'no field at all (or an empty format) raises IFC', len(ifc) == 2 and any(fl3.knows(r, 'not format_chars', True) for r in ifc)
           and any(fl3.knows(r, "format_expr == b''", True) for r in ifc), '', ctx.where(pu))
    wr = [c for c in own_nodes(pu) if isinstance(c, ast.Call) and norm(c) == 'self._output.write(format_field.format(value))']
    rep.ob('cycle.one-field-one-value', 'each field formats exactly one value', len(wr) == 1, '', ctx.where(pu))
    order = [norm(h.type) for t_ in own_nodes(pu) if isinstance(t_, ast.Try) for h in t_.handlers]
    rep.ob('cycle.field-recognition', 'string field, then number field, else literal character', order.count('ValueError') == 2, repr(order), ctx.where(pu))


def variants(ctx):
    Va = mu.Variant

    def in_fn(f_name, f):
        return lambda tree: f(mu.find_def(tree, f_name))

    return [
        mu.Variant('radix-counted-in-requested-digits', 'break', 'pcbasic/basic/values/numbers.py',
                   lambda tree: mu.replace_expr(mu.find_def(tree, 'Float.to_str_scientific'), mu.text_is('exponent + work_digits'), 'exponent + digits_requested'), expect='scientific.radix-counted-in-produced-digits'),
        mu.Variant('carried-digit-cut-without-moving-the-exponent', 'break', 'pcbasic/basic/values/numbers.py',
                   lambda tree: mu.remove_stmt(mu.find_def(tree, 'Float.to_str_scientific'), lambda st: isinstance(st, ast.If) and 'len(digitstr) > work_digits' in norm(st.test)), expect='scientific.exponent-follows-a-carried-digit'),
        mu.Variant('doubles-formatted-as-singles', 'break', 'pcbasic/basic/devices/formatter.py',
                   lambda tree: mu.replace_expr(mu.find_def(tree, 'NumberField.format'), mu.text_is('value.to_float()'), 'value.to_single()'), expect='format.double-keeps-its-precision'),
        mu.Variant('leading-group-always-added', 'break', 'pcbasic/basic/values/numbers.py',
                   lambda tree: _always_lead(mu.find_def(tree, 'Float._group_thousands')), expect='commas.no-empty-leading-group'),
        mu.Variant('fixed-notation-asks-for-zero-digits', 'break', 'pcbasic/basic/values/numbers.py',
                   lambda tree: mu.replace_expr(mu.find_def(tree, 'Float.to_str_fixed'), mu.text_is('n_work > 0'), 'n_work >= 0'), expect='fixed.rounds-at-last-decimal'),
        Va('dollar-prefix-counts-two-digits', 'break', F, in_fn('NumberField.__init__', _dollar_two), expect='width.prefix-digit'),
        Va('leading-zero-without-room', 'break', F,
           in_fn('NumberField.format', lambda fn: mu.replace_expr(fn, mu.text_is('len(valstr) < len(tokens)'), 'len(valstr) <= len(tokens)')), expect='format.padding-keeps-fit'),
        Va('rjust-to-digit-count', 'break', F,
           in_fn('NumberField.format', lambda fn: mu.replace_expr(fn, mu.text_is("valstr.rjust(len(tokens), b'*' if b'*' in tokens else b' ')"),
                                                                 "valstr.rjust(digits_before + decimals, b'*' if b'*' in tokens else b' ')")), expect='format.exact-width'),
        Va('overflow-test-ge', 'break', F,
           in_fn('NumberField.format', lambda fn: mu.replace_expr(fn, mu.text_is('len(valstr) > len(tokens)'), 'len(valstr) >= len(tokens) + 2')), expect='format'),
        Va('caret-not-counted', 'break', F,
           in_fn('NumberField.__init__', lambda fn: mu.replace_stmt(fn, mu.text_is('word += fors.read(4)'), 'fors.read(4)')), expect='width.every'),
        Va('string-field-not-cut', 'break', F,
           in_fn('StringField.format', lambda fn: mu.replace_expr(fn, mu.text_is('s.to_str().ljust(len(self._string_field))[:len(self._string_field)]'),
                                                                 's.to_str().ljust(len(self._string_field))')), expect='string.fields'),
        Va('max-digits-25', 'break', F,
           in_fn('NumberField.format', lambda fn: mu.replace_expr(fn, mu.text_is('digits_before + decimals > 24'), 'digits_before + decimals > 25')), expect='format.max-digits'),
        Va('abs-in-place', 'break', F,
           in_fn('NumberField.format', lambda fn: mu.replace_expr(fn, mu.text_is('value.clone().iabs()'), 'value.iabs()')), expect='format.no-operand'),
        Va('tokens-trimmed-later', 'break', F,
           in_fn('NumberField.format', lambda fn: mu.insert_before(fn, lambda st: isinstance(st, ast.If) and norm(st.test) == 'len(valstr) > len(tokens)',
                                                                  "tokens = tokens.rstrip(b'-+')")), expect='format.tokens-fixed'),
        Va('no-rewind', 'break', F,
           in_fn('Formatter._print_using', lambda fn: mu.replace_stmt(fn, mu.text_is('fors.seek(0)'), 'break')), expect='cycle.rewind'),
        Va('star-fill-always', 'break', F,
           in_fn('NumberField.format', lambda fn: mu.replace_expr(fn, mu.text_is("b'*' if b'*' in tokens else b' '"), "b'*'")), expect='format.fill'),
        Va('neutral-rename', 'neutral', F, in_fn('NumberField.format', lambda fn: mu.rename_local(fn, 'post_sign', 'trailing'))),
    ]


def _dollar_two(fn):
    for a in ast.walk(fn):
        if isinstance(a, ast.If) and norm(a.test) == "c == b'*'" and a.orelse and norm(a.orelse[0]) == 'digits_before += 1':
            a.orelse[0].value = ast.Constant(value=2)
            return True
    return False


def _always_lead(fn):
    ifs = [st for st in fn.body if isinstance(st, ast.If) and norm(st.test) == 'first']
    if len(ifs) != 1:
        return False
    i = fn.body.index(ifs[0])
    fn.body[i:i + 1] = ifs[0].body
    return True


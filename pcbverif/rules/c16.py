"""
C16 -- a protected program never discloses its text in direct mode.

Decides: every direct-mode route to program bytes is guarded.
 R1 self-guarded sinks: in Program.list_lines / edit / save / store_line every
    access to the program text (self.bytecode, self.line_numbers, the lister)
    is dominated by `if self.protected [and mode != b'P']: raise IFC`.
 R2 guarded cut: on the resolved call graph, from every statement and function
    callback in the dispatch tables, the byte-level readers Program.get_memory /
    get_memory_block (reached via PEEK, BSAVE, VARPTR-style memory reads) are
    reachable only through a call edge dominated by a protection guard
    (`<program>.protected [and not run_mode | and merge]` -> raise IFC), or
    through StringSpace.view (code-literal strings the running program itself
    bound to variables -- inherent in "still runs as the original").
    Writers (POKE, BLOAD -> DataSegment.set_memory) are cut the same way.
 R3 CHAIN MERGE / MERGE: chain_ tests `protected and merge` before any file is
    opened; merge_ reaches the text only through the self-guarded store_line.
 R4 who may clear the flag: `protected` is written only by Program.erase (NEW),
    Program.load, and the guarded POKE path DataSegment._set_basic_memory.
 R5 statement callbacks that copy program text into BASIC-visible values
    (found by def-use: a value read from the program code stream flows into
    set_variable / a console or file write) must be guarded.  Today this finds
    Interpreter.read_ (READ in direct mode reads a protected program's DATA):
    recorded as a known finding.
Not decided: "runs exactly as the unprotected original".
"""
import ast

from ..source import norm, short, qualname, enclosing_class
from ..flow import own_nodes
from ..resolve import dispatch_roots
from .. import mutate as mu

PROP = 'C16'
LEVEL = 'other'
TECHNIQUE = 'static analysis: dominance of protection guards (path facts) + guarded-cut reachability on the resolved call graph + who-may-write'
EXPLANATION = __doc__

PROGRAM = 'pcbasic/basic/program.py'
IMPL = 'pcbasic/basic/implementation.py'
MACHINE = 'pcbasic/basic/machine.py'
INTERP = 'pcbasic/basic/interpreter.py'
MEMORY = 'pcbasic/basic/memory/memory.py'

ALLOWED_CONJUNCTS = {'not self.interpreter.run_mode', "mode != b'P'", 'merge', 'not self.run_mode'}


def is_guard_fact(f):
    """Fact (cond False) whose cond is `<x>.protected` optionally AND-ed with allowed conjuncts."""
    if f.pol:
        return False
    c = f.cond
    parts = c.values if isinstance(c, ast.BoolOp) and isinstance(c.op, ast.And) else [c]
    texts = [norm(p) for p in parts]
    prot = [t for t in texts if t.endswith('.protected') or t == 'protected']
    rest = [t for t in texts if t not in prot]
    return len(prot) == 1 and all(t in ALLOWED_CONJUNCTS for t in rest)


def guard_raises_ifc(ctx, fn):
    """The protection guards in fn raise Illegal function call."""
    out = []
    for n in own_nodes(fn):
        if isinstance(n, ast.If) and 'protected' in norm(n.test):
            codes = [ctx.basic_error_code(r) for r in own_nodes(n) if isinstance(r, ast.Raise)]
            out.append((n, codes))
    for node, code, cond in ctx.throwers(fn):
        if isinstance(node, ast.Call) and cond and 'protected' in cond:
            out.append((node, [code]))
    return out


def guarded(ctx, fn, node):
    fl = ctx.flow(fn)
    if not fl.reached(node):
        return True
    return any(is_guard_fact(f) for f in fl.facts(node))


def check(ctx, rep):
    from . import c15, _share
    _share.share(ctx, rep, c15, ('cipher.',), 'a protected program runs exactly as its original only if decoding returns every byte of it: the cipher pair is a bijection and unprotect drops nothing but the final EOF marker')
    # ---- R1 ---------------------------------------------------------------
    n_acc = 0
    for meth in ('list_lines', 'edit', 'save', 'store_line'):
        fn = ctx.fn('%s:Program.%s' % (PROGRAM, meth))
        gs = guard_raises_ifc(ctx, fn)
        rep.ob('R1.guard-raises-ifc', 'Program.%s: protection guard raises Illegal function call' % meth,
               len(gs) >= 1 and all('ILLEGAL_FUNCTION_CALL' in codes for _, codes in gs), repr([c for _, c in gs]), ctx.where(fn))
        for n in own_nodes(fn):
            if isinstance(n, ast.Attribute) and norm(n) in ('self.bytecode', 'self.line_numbers', 'self.lister'):
                n_acc += 1
                rep.ob('R1.text-access-guarded', 'Program.%s: %s' % (meth, short(fn_stmt(ctx, fn, n), 70)), guarded(ctx, fn, n),
                       'program text is touched before/without the protection check', ctx.where(n))
    rep.floor('R1.text-access-guarded', n_acc, 15, 'text accesses')
    # save: only the protected format passes
    save = ctx.fn(PROGRAM + ':Program.save')
    tests = [norm(n.test) for n in own_nodes(save) if isinstance(n, ast.If) and 'protected' in norm(n.test)]
    rep.ob('R1.save-only-protected-format', "Program.save: guard is `self.protected and mode != b'P'`",
           tests == ["self.protected and mode != b'P'"], repr(tests), ctx.where(save))

    # ---- R2 ---------------------------------------------------------------
    # resolved edges only: a by-name fallback would connect every `x.get_memory()` to Program.get_memory.
    # Soundness of that choice is an obligation: every call site of a sink-named method must resolve,
    # or have a receiver that is provably not the program (the video memory mapper).
    cg = ctx.cg_precise
    w = ctx.wiring
    n_named = 0
    for fn in ctx.idx.functions('pcbasic/basic/'):
        cls = enclosing_class(fn)
        local = w.local_types(fn, cls)
        for n in w.fn_nodes(fn)[3]:
            if isinstance(n.func, ast.Attribute) and n.func.attr in ('get_memory', 'get_memory_block', 'set_memory', 'list_lines',
                                                                      'store_line', 'edit', 'save', 'merge'):
                n_named += 1
                t = w.call_targets(n, fn, cls, local, fallback=False)
                recv = norm(n.func.value)
                rep.ob('R2.sink-named-call-resolves', '%s: %s' % (qualname(fn).split(':')[1], norm(n.func)),
                       bool(t) or recv.endswith('.memorymap') or recv.endswith('memory_mapper'),
                       'cannot tell whether this call reaches the program text', ctx.where(n))
    rep.floor('R2.sink-named-call-resolves', n_named, 15, 'call sites')
    roots = dispatch_roots(ctx)
    root_fns = []
    for k, kind, v, targets in roots:
        for t in targets:
            root_fns.append((k, kind, t))
    rep.floor('R2.roots', len(root_fns), 190, 'resolved callbacks')
    prog = ctx.cls(PROGRAM + ':Program')
    sinks = {}
    for nm in ('get_memory', 'get_memory_block', 'set_memory'):
        sinks[id(ctx.fn('%s:Program.%s' % (PROGRAM, nm)))] = 'Program.' + nm
    exempt = {id(ctx.fn('pcbasic/basic/values/strings.py:StringSpace.view')): 'StringSpace.view'}
    selfguarded = set(id(ctx.fn('%s:Program.%s' % (PROGRAM, m))) for m in ('list_lines', 'edit', 'save', 'store_line'))
    # unguarded reachability (resolved edges; by-name fallback edges are included but reported separately)
    n_paths = 0
    reported = set()
    for k, kind, root in root_fns:
        seen = {id(root): None}
        work = [root]
        while work:
            fn = work.pop()
            if id(fn) in exempt or id(fn) in selfguarded:
                continue
            for call, callee in cg.callees(fn):
                if id(callee) in seen:
                    continue
                if isinstance(call, ast.Call) and guarded(ctx, fn, call):
                    continue
                seen[id(callee)] = (fn, call)
                if id(callee) in sinks:
                    n_paths += 1
                    path = cg.path(seen, callee)
                    key = (path[0], sinks[id(callee)])
                    if key not in reported:
                        reported.add(key)
                        rep.ob('R2.guarded-cut', '%s reaches %s unguarded' % (path[0].split(':')[1], sinks[id(callee)]), False,
                               'call path: ' + ' -> '.join(p.split(':')[1] for p in path), ctx.where(root))
                    continue
                work.append(callee)
    rep.note('R2.unguarded_paths', n_paths)
    # positive counterpart: the four memory callbacks carry the guard before the memory access
    mem = {}
    for meth, access in (('peek_', '_get_memory'), ('poke_', '_set_memory'), ('bload_', '_set_memory_block'), ('bsave_', '_get_memory_block')):
        fn = ctx.fn('%s:Memory.%s' % (MACHINE, meth))
        calls = [n for n in own_nodes(fn) if isinstance(n, ast.Call) and norm(n.func) == 'self.' + access]
        gs = guard_raises_ifc(ctx, fn)
        rep.ob('R2.memory-callback-guard', 'Memory.%s: guard dominates self.%s and raises IFC' % (meth, access),
               len(calls) >= 1 and all(guarded(ctx, fn, c) for c in calls)
               and bool(gs) and all(codes == ['ILLEGAL_FUNCTION_CALL'] for _, codes in gs), '', ctx.where(fn))
        # also: any file is opened only after the guard
        for n in own_nodes(fn):
            if isinstance(n, ast.Call) and norm(n.func) == 'self._files.open':
                rep.ob('R2.memory-callback-guard', 'Memory.%s: file opened only after the guard' % meth, guarded(ctx, fn, n), '', ctx.where(n))
    rep.ob('R2.sinks-reachable-at-all', 'the guarded paths do reach the sinks (analysis is not vacuous)',
           _reaches(cg, ctx.fn(MACHINE + ':Memory.peek_'), set(sinks)), 'peek_ no longer reaches Program.get_memory in the call graph', MACHINE)

    # ---- R3 ---------------------------------------------------------------
    chain = ctx.fn(IMPL + ':Implementation.chain_')
    for n in own_nodes(chain):
        if isinstance(n, ast.Call) and norm(n.func) in ('self.program.merge', 'self.files.open', 'self.program.delete', 'self._clear_all'):
            fl = ctx.flow(chain)
            ok = any((not f.pol) and norm(f.cond) == 'self.program.protected and merge' for f in fl.facts(n))
            rep.ob('R3.chain-merge-guard', 'chain_: %s after the `protected and merge` check' % short(n, 50), ok, '', ctx.where(n))
    gs = guard_raises_ifc(ctx, chain)
    rep.ob('R3.chain-merge-guard', 'chain_: guard raises IFC', len(gs) == 1 and gs[0][1] == ['ILLEGAL_FUNCTION_CALL'], repr([c for _, c in gs]), ctx.where(chain))
    merge = ctx.fn(PROGRAM + ':Program.merge')
    writes = [n for n in own_nodes(merge) if isinstance(n, ast.Attribute) and norm(n) == 'self.bytecode']
    stores = [n for n in own_nodes(merge) if isinstance(n, ast.Call) and norm(n.func) == 'self.store_line']
    rep.ob('R3.merge-through-store_line', 'Program.merge touches the text only via store_line', not writes and len(stores) == 1, '', ctx.where(merge))

    # ---- R4 ---------------------------------------------------------------
    allowed = {(PROGRAM, 'Program.erase'), (PROGRAM, 'Program.load'), (MEMORY, 'DataSegment._set_basic_memory')}
    found = set()
    for fn in ctx.idx.functions('pcbasic/'):
        for n in own_nodes(fn):
            tgts = []
            if isinstance(n, ast.Assign):
                tgts = n.targets
            elif isinstance(n, ast.AugAssign):
                tgts = [n.target]
            for t in tgts:
                if isinstance(t, ast.Attribute) and t.attr == 'protected':
                    q = qualname(fn)
                    key = (q.split(':')[0], q.split(':')[1])
                    found.add(key)
                    rep.ob('R4.flag-writers', '%s: %s' % (key[1], short(n)), key in allowed,
                           'the protection flag is written outside the three known places', ctx.where(n))
    rep.floor('R4.flag-writers', len(found), 3, 'writers')
    sb = ctx.fn(MEMORY + ':DataSegment._set_basic_memory')
    cond = [norm(n.test) for n in own_nodes(sb) if isinstance(n, ast.If)]
    rep.ob('R4.flag-poke-needs-config', '_set_basic_memory changes the flag only at the flag address and if allow_protect',
           cond == ['addr == self.protection_flag_addr and self.program.allow_protect'], repr(cond), ctx.where(sb))
    load = ctx.fn(PROGRAM + ':Program.load')
    sets = [norm(n.value) for n in own_nodes(load) if isinstance(n, ast.Assign) and norm(n.targets[0]) == 'self.protected']
    rep.ob('R4.load-sets-flag', 'Program.load sets protected = allow_protect for P files', sets == ['self.allow_protect'], repr(sets), ctx.where(load))

    # ---- R5 ---------------------------------------------------------------
    w = ctx.wiring
    stream_cls = None
    n_readers = 0
    for k, kind, root in root_fns:
        pass
    READS = ('read', 'read_to', 'read_string', 'read_number', 'read_name', 'peek', 'read_number_token')
    SINKS = ('set_variable', 'write', 'write_line', 'list_line')
    interp = ctx.cls(INTERP + ':Interpreter')
    for fn in ctx.idx.functions('pcbasic/basic/'):
        cls = enclosing_class(fn)
        if cls is None or cls.name in ('Program', 'Lister', 'Tokeniser') or fn._module.path.startswith('pcbasic/basic/base/'):
            continue
        tainted = set()
        reads = []
        for n in own_nodes(fn):
            if isinstance(n, ast.Assign) and isinstance(n.value, ast.Call) and isinstance(n.value.func, ast.Attribute) \
                    and n.value.func.attr in READS and norm(n.value.func.value) in ('self._program_code', 'self._program.bytecode', 'self.program.bytecode'):
                for t in n.targets:
                    for x in ast.walk(t):
                        if isinstance(x, ast.Name):
                            tainted.add(x.id)
                reads.append(n)
        if not tainted:
            continue
        # propagate through simple assignments
        for _ in range(4):
            for n in own_nodes(fn):
                if isinstance(n, (ast.Assign, ast.AugAssign)):
                    used = set(x.id for x in ast.walk(n.value) if isinstance(x, ast.Name))
                    if used & tainted:
                        tg = n.targets if isinstance(n, ast.Assign) else [n.target]
                        for t in tg:
                            for x in ast.walk(t):
                                if isinstance(x, ast.Name):
                                    tainted.add(x.id)
        leaks = []
        for n in own_nodes(fn):
            if isinstance(n, ast.Call) and isinstance(n.func, ast.Attribute) and n.func.attr in SINKS:
                used = set(x.id for a in list(n.args) + [kw.value for kw in n.keywords] for x in ast.walk(a) if isinstance(x, ast.Name))
                if used & tainted:
                    leaks.append(n)
        if not leaks:
            continue
        n_readers += 1
        for lk in leaks:
            rep.ob('R5.program-text-to-value', '%s.%s: %s' % (cls.name, fn.name, short(lk, 70)),
                   guarded(ctx, fn, lk) or _requires_run_mode(ctx, fn, lk),
                   'program text read from the code stream flows into a BASIC-visible value without a protection check',
                   ctx.where(lk))
    rep.floor('R5.program-text-to-value', n_readers, 1, 'text-copying callbacks')


def fn_stmt(ctx, fn, node):
    return ctx.flow(fn).stmt_of(node)


def _requires_run_mode(ctx, fn, node):
    fl = ctx.flow(fn)
    return any((f.text in ('self.run_mode',) and f.pol) or (f.text == 'not self.run_mode' and not f.pol) for f in fl.facts(node))


def _reaches(cg, fn, sink_ids):
    seen = cg.reachable([fn])
    return any(s in seen for s in sink_ids)


def variants(ctx):
    Va = mu.Variant

    def in_fn(fname, f):
        return lambda tree: f(mu.find_def(tree, fname))

    guard = lambda st: isinstance(st, ast.If) and 'protected' in norm(st.test)
    return [
        Va('list-unguarded', 'break', PROGRAM, in_fn('Program.list_lines', lambda fn: mu.remove_stmt(fn, guard)), expect='R1'),
        Va('save-guard-ignores-mode', 'break', PROGRAM,
           in_fn('Program.save', lambda fn: mu.replace_expr(fn, mu.text_is("self.protected and mode != b'P'"), "self.protected and mode == b'A'")),
           expect='R1'),
        Va('store-line-guard-late', 'break', PROGRAM, in_fn('Program.store_line', _move_guard_down), expect='R1.text-access'),
        Va('edit-guard-raises-other', 'break', PROGRAM,
           in_fn('Program.edit', lambda fn: mu.replace_expr(fn, mu.text_is('error.BASICError(error.IFC)'), 'error.BASICError(error.STX)')),
           expect='R1.guard-raises'),
        Va('peek-unguarded', 'break', MACHINE, in_fn('Memory.peek_', lambda fn: mu.remove_stmt(fn, guard)), expect='R2'),
        Va('bsave-guard-after-open', 'break', MACHINE, in_fn('Memory.bsave_', _move_guard_last), expect='R2'),
        Va('new-unguarded-peek-route', 'break', MACHINE,
           in_fn('Memory.def_seg_', lambda fn: mu.append_last(fn, 'self._dbg = self._get_memory(self.segment * 16)')), expect='R2.guarded-cut'),
        Va('chain-merge-unguarded', 'break', IMPL, in_fn('Implementation.chain_', lambda fn: mu.remove_stmt(fn, guard)), expect='R3'),
        Va('unprotect-on-clear', 'break', IMPL,
           in_fn('Implementation._clear_all', lambda fn: mu.append_last(fn, 'self.program.protected = False')), expect='R4'),
        Va('poke-flag-without-config', 'break', MEMORY,
           in_fn('DataSegment._set_basic_memory', lambda fn: mu.replace_expr(fn, mu.text_is('addr == self.protection_flag_addr and self.program.allow_protect'),
                                                                             'addr == self.protection_flag_addr')), expect='R4'),
        Va('guard-via-throw-if', 'neutral', MACHINE,
           in_fn('Memory.peek_', lambda fn: mu.replace_stmt(fn, guard, 'error.throw_if(self._memory.program.protected and not self.interpreter.run_mode)'))),
    ]


def _move_guard_down(fn):
    g = [st for st in fn.body if isinstance(st, ast.If) and 'protected' in norm(st.test)][0]
    fn.body.remove(g)
    k = [i for i, st in enumerate(fn.body) if 'find_pos_line_dict' in norm(st)][0]
    fn.body.insert(k + 1, g)
    return True


def _move_guard_last(fn):
    g = [st for st in fn.body if isinstance(st, ast.If) and 'protected' in norm(st.test)][0]
    fn.body.remove(g)
    fn.body.append(g)
    return True

"""
C32 -- PAINT (scanline bookkeeping only).

That the union of the painted intervals equals the enclosed region is a
connectivity property of a runtime bitmap and is NOT decided.  Decided are the
interval and direction bookkeeping of the scanline fill, each a necessary
condition of "only the 4-connected region of non-border pixels containing the
start point, inside the viewport, in the fill attribute":
 * nothing is painted when the start point lies outside the viewport bounds or
   on a border pixel (both returns precede the first pixel store);
 * an interval is extended to the left from x_start-1 and to the right from
   x_stop+1, stopping at the border attribute and limited by the viewport edge
   (bound_x0-1 / bound_x1+1 as exclusive limits);
 * 4-connectivity: from the start row both neighbouring rows are examined, later
   the row onward in the same direction over [x_left, x_right] and the row
   backward only over the newly found overhang [x_left, x_start-1] and
   [x_stop+1, x_right]; no examined interval is wider than the painted one
   (a widening by one pixel would make the fill 8-connected); rows are examined
   only inside the viewport's y bounds;
 * the pixels written are exactly [x_left, x_right] of the current row, through
   the viewport gate, in the fill attribute for a solid fill;
 * _check_scanline cuts the examined interval at border pixels
   (_scanline_until(border_attr, ...)) and advances past each border pixel;
   the new seeds lie inside the examined interval and carry row and direction;
 * _scanline_until returns the pixels up to (not including) the first border
   pixel in scan direction.
"""
import ast

from ..source import norm, short, qualname
from ..flow import own_nodes
from ..algebra import lin
from .. import mutate as mu

PROP = 'C32'
LEVEL = 'other'
TECHNIQUE = 'static analysis: interval bookkeeping of the scanline fill in linear normal form, path facts for the guards, who-writes-pixels'
EXPLANATION = __doc__

G = 'pcbasic/basic/display/graphics.py'


def _e(text):
    return lin(ast.parse(text, mode='eval').body)


def _optional_arguments(ctx, rep):
    """PAINT's border defaults to the fill attribute only when it was left out: border 0 is a border."""
    from ..optargs import int_truthiness_tests
    n_fn, hits = int_truthiness_tests(ctx, [G])
    for fn, local, test in hits:
        rep.ob('arguments.zero-is-not-omitted', '%s: `%s` tested by truthiness after conversion to int' % (qualname(fn).split(':')[1], local), False,
               'an argument given as 0 is treated as left out (%s); ask `is None`' % short(test, 60), ctx.where(test))
    rep.floor('arguments.zero-is-not-omitted', n_fn, 6, 'graphics callbacks with int-converted arguments')
    pa = ctx.fn(G + ':Graphics.paint_')
    fl = ctx.flow(pa)
    dflt = [a for a in own_nodes(pa) if isinstance(a, ast.Assign) and norm(a.targets[0]) == 'border_index' and norm(a.value) == 'fill_attr_index']
    rep.ob('arguments.zero-is-not-omitted', 'paint_: the border defaults to the fill attribute exactly when it is None',
           len(dflt) == 1 and [(f.text, f.pol) for f in fl.facts(dflt[0]) if 'border_index' in f.text] == [('border_index is None', True)],
           repr([(f.text, f.pol) for f in fl.facts(dflt[0])]) if dflt else 'no default', ctx.where(pa))


def check(ctx, rep):
    _optional_arguments(ctx, rep)
    ff = ctx.fn(G + ':Graphics._flood_fill')
    fl = ctx.flow(ff)
    loops = [n for n in ff.body if isinstance(n, ast.While)]
    ok = len(loops) == 1 and norm(loops[0].test) == 'len(line_seed) > 0'
    rep.ob('fill.work-list', 'the fill works off a list of seed intervals until it is empty', ok, '', ctx.where(ff))
    if not ok:
        return
    loop = loops[0]
    # ---- nothing painted from outside / from a border pixel ------------------------------------------------
    before = ff.body[:ff.body.index(loop)]
    rets = [r for s in before for r in own_nodes(s) if isinstance(r, ast.Return)]
    conds = [norm(r._parent.test) for r in rets if isinstance(r._parent, ast.If)]
    rep.ob('seed.outside-viewport', 'a start point outside the viewport bounds paints nothing',
           'x < bound_x0 or x > bound_x1 or y < bound_y0 or (y > bound_y1)' in conds or 'x < bound_x0 or x > bound_x1 or y < bound_y0 or y > bound_y1' in conds, repr(conds), ctx.where(ff))
    rep.ob('seed.on-border', 'a start point on a border pixel paints nothing', 'self.graph_view[y, x] == border_attr' in conds, repr(conds), ctx.where(ff))
    bounds = [a for s in before for a in own_nodes(s) if isinstance(a, ast.Assign) and norm(a.value) == 'self.graph_view.get_bounds()']
    rep.ob('seed.bounds-from-viewport', 'the bounds are the viewport bounds',
           len(bounds) == 1 and [norm(e) for e in bounds[0].targets[0].elts] == ['bound_x0', 'bound_y0', 'bound_x1', 'bound_y1'], '', ctx.where(ff))
    stores_before = [a for s in before for a in own_nodes(s) if isinstance(a, ast.Assign) and any(norm(t).startswith('self.graph_view[') for t in a.targets)]
    rep.ob('seed.no-store-before-checks', 'no pixel is written before the start point has been checked', not stores_before, '', ctx.where(ff))
    # ---- extension -----------------------------------------------------------------------------------------------
    asg = dict((norm(a.targets[0]), a.value) for a in own_nodes(loop) if isinstance(a, ast.Assign) and isinstance(a.targets[0], ast.Name))

    def scan_call(e):
        cs = [c for c in ast.walk(e) if isinstance(c, ast.Call) and norm(c.func) == 'self._scanline_until']
        return cs[0] if len(cs) == 1 else None
    for side, base, sign, frm, lim in (('x_left', 'x_start', -1, 'x_start - 1', 'bound_x0 - 1'), ('x_right', 'x_stop', 1, 'x_stop + 1', 'bound_x1 + 1')):
        v = asg.get(side)
        c = scan_call(v) if v is not None else None
        ok = c is not None and isinstance(v, ast.BinOp) and norm(v.left) == base and isinstance(v.op, ast.Sub if sign < 0 else ast.Add) \
            and isinstance(v.right, ast.Attribute) and v.right.attr == 'width' and len(c.args) == 4 \
            and norm(c.args[0]) == 'border_attr' and norm(c.args[1]) == 'y' and lin(c.args[2]) == _e(frm) and lin(c.args[3]) == _e(lim)
        rep.ob('extend.%s' % side, '%s: extended from %s up to the border, not beyond the viewport edge (%s exclusive)' % (side, frm, lim), ok, norm(v) if v is not None else 'missing', ctx.where(loop))
    # ---- neighbouring rows -----------------------------------------------------------------------------------------
    calls = [c for c in own_nodes(loop) if isinstance(c, ast.Call) and norm(c.func) == 'self._check_scanline']
    rows = []
    for c in calls:
        if len(c.args) != 9:
            continue
        facts = dict((f.text, f.pol) for f in fl.facts(c))
        rows.append((facts.get('ydir == 0'), norm(c.args[1]), norm(c.args[2]), norm(c.args[3]), norm(c.args[8]), facts, c))
    rep.floor('rows.examined', len(rows), 5, 'calls of _check_scanline')
    want = {
        (True, 'x_left', 'x_right', 'y + 1', '1'): ('y + 1 <= bound_y1',),
        (True, 'x_left', 'x_right', 'y - 1', '-1'): ('y - 1 >= bound_y0',),
        (False, 'x_left', 'x_right', 'y + ydir', 'ydir'): ('y + ydir <= bound_y1 and y + ydir >= bound_y0',),
        (False, 'x_left', 'x_start - 1', 'y - ydir', '-ydir'): ('y - ydir <= bound_y1 and y - ydir >= bound_y0',),
        (False, 'x_stop + 1', 'x_right', 'y - ydir', '-ydir'): ('y - ydir <= bound_y1 and y - ydir >= bound_y0',),
    }
    got = {}
    for first, a, b, y, d, facts, c in rows:
        got[(first, a, b, y, d)] = (facts, c)
    for key, guards in sorted(want.items(), key=repr):
        hit = got.get(key)
        ok = hit is not None and all(hit[0].get(g) is True for g in guards)
        rep.ob('rows.four-connected', '%s row %s over [%s, %s], direction %s, inside the y bounds' % ('start:' if key[0] else 'later:', key[3], key[1], key[2], key[4]), ok,
               'examined rows are %s' % sorted((k[3], k[1], k[2]) for k in got), ctx.where(hit[1]) if hit else ctx.where(loop))
    extra = sorted(set(got) - set(want), key=repr)
    rep.ob('rows.no-other-interval', 'no row is examined over any other interval (a wider one would leak through diagonal gaps)', not extra, repr(extra), ctx.where(loop))
    # ---- stores -------------------------------------------------------------------------------------------------------
    stores = [a for a in own_nodes(loop) if isinstance(a, ast.Assign) and norm(a.targets[0]).startswith('self.graph_view[')]
    okst = len(stores) == 2 and all(norm(a.targets[0]) == 'self.graph_view[y, x_left:x_right + 1]' for a in stores)
    rep.ob('store.exactly-the-interval', 'the pixels written are [x_left, x_right] of the current row, through the viewport gate', okst, repr([norm(a.targets[0]) for a in stores]), ctx.where(loop))
    solid = [a for a in stores if fl.knows(a, 'is_solid', True)]
    tile = [a for a in own_nodes(ff) if isinstance(a, ast.Assign) and norm(a.targets[0]) == 'tile' and fl.knows(a, 'is_solid', True)]
    rep.ob('store.fill-attribute', 'a solid fill writes the fill attribute', len(solid) == 1 and norm(solid[0].value) == 'tile[0, 0]' and len(tile) == 1
           and norm(tile[0].value) == 'bytematrix.ByteMatrix(1, 8, fill_attr)', '', ctx.where(ff))
    other = [a for a in own_nodes(ff) if isinstance(a, ast.Assign) and any(('pixels' in norm(t) or '_apage' in norm(t) or '_pages' in norm(t)) and isinstance(t, ast.Subscript) for t in a.targets)]
    rep.ob('store.only-through-gate', 'the fill writes pixels only through the viewport gate', not other, '', ctx.where(ff))
    # ---- _check_scanline ---------------------------------------------------------------------------------------------------
    cs = ctx.fn(G + ':Graphics._check_scanline')
    flc = ctx.flow(cs)
    empty = [r for r in own_nodes(cs) if isinstance(r, ast.Return) and flc.knows(r, 'x_stop < x_start', True)]
    rep.ob('cut.empty-interval', 'an empty interval adds no seeds', len(empty) == 1 and norm(empty[0].value) == 'line_seed', '', ctx.where(cs))
    wl = [n for n in cs.body if isinstance(n, ast.While)]
    okw = len(wl) == 1 and norm(wl[0].test) == 'x <= x_stop'
    rep.ob('cut.within-interval', 'the examined interval is walked from x_start to x_stop', okw and any(norm(a) == 'x = x_start' for a in cs.body if isinstance(a, ast.Assign)), '', ctx.where(cs))
    if okw:
        sc = [c for c in own_nodes(wl[0]) if isinstance(c, ast.Call) and norm(c.func) == 'self._scanline_until']
        oks = len(sc) == 1 and [norm(a) for a in sc[0].args[:3]] == ['border_attr', 'y', 'x'] and lin(sc[0].args[3]) == _e('x_stop + 1')
        rep.ob('cut.at-border', 'each piece runs from x to the next border pixel, at most to x_stop', oks, '', ctx.where(wl[0]))
        step = [a for a in wl[0].body if isinstance(a, ast.AugAssign) and norm(a.target) == 'x']
        rep.ob('cut.skip-border-pixel', 'the walk continues one past the border pixel that ended the piece',
               len(step) == 1 and isinstance(step[0].op, ast.Add) and lin(step[0].value) == _e('pattern.width + 1'), '', ctx.where(wl[0]))
        app = [c for c in own_nodes(wl[0]) if isinstance(c, ast.Call) and norm(c.func) == 'line_seed.append']
        oka = len(app) == 1 and isinstance(app[0].args[0], (ast.List, ast.Tuple)) and len(app[0].args[0].elts) == 4
        if oka:
            e = app[0].args[0].elts
            oka = norm(e[0]) == 'x' and lin(e[1]) == _e('x + pattern.width - 1') and norm(e[2]) == 'y' and norm(e[3]) == 'ydir' and flc.knows(app[0], 'pattern.width > 0', True)
        rep.ob('cut.seed-is-the-piece', 'a new seed is the non-empty piece [x, x + width - 1] with its row and direction', oka, '', ctx.where(wl[0]))
    # ---- _scanline_until -----------------------------------------------------------------------------------------------------
    su = ctx.fn(G + ':Graphics._scanline_until')
    flu = ctx.flow(su)
    rets = [(norm(r.value), dict((f.text, f.pol) for f in flu.facts(r))) for r in own_nodes(su) if isinstance(r, ast.Return)]
    fw = [t for t, f in rets if f.get('x1 > x0') is True]
    bw = [t for t, f in rets if f.get('x1 > x0') is False and f.get('x0 == x1') is False]
    rows_ = dict((norm(a.value), 1) for a in own_nodes(su) if isinstance(a, ast.Assign) and norm(a.targets[0]) == 'row')
    rep.ob('scan.forward', 'scanning right: pixels [x0, x1) up to, not including, the first border pixel',
           'self.graph_view[y, x0:x1]' in rows_ and sorted(fw) == ['row', 'row[:, :index]'] and
           any(norm(a.value) == 'row.to_bytes().index(int2byte(element))' for a in own_nodes(su) if isinstance(a, ast.Assign) and norm(a.targets[0]) == 'index'), repr(fw), ctx.where(su))
    rep.ob('scan.backward', 'scanning left: pixels (x1, x0] after the last border pixel',
           'self.graph_view[y, x1 + 1:x0 + 1]' in rows_ and sorted(bw) == ['row', 'row[:, index:]'] and
           any(norm(a.value) == '1 + row.to_bytes().rindex(int2byte(element))' for a in own_nodes(su) if isinstance(a, ast.Assign) and norm(a.targets[0]) == 'index'), repr(bw), ctx.where(su))


def variants(ctx):
    Va = mu.Variant

    def t(name, f):
        return lambda tree: f(mu.find_def(tree, 'Graphics.' + name))
    return [
        Va('border-zero-treated-as-omitted', 'break', G, t('paint_', lambda f: mu.replace_expr(f, mu.text_is('border_index is None'), 'not border_index')), expect='arguments.zero-is-not-omitted'),
        Va('fill-zero-treated-as-omitted', 'break', G, t('paint_', lambda f: mu.insert_before(f, lambda st: isinstance(st, ast.Assign) and norm(st.targets[0]) == 'fill_attr', 'fill_attr_index = fill_attr_index or -1')) , expect='arguments.zero-is-not-omitted'),
        Va('paints-from-border-pixel', 'break', G, t('_flood_fill', lambda f: mu.remove_stmt(f, lambda st: isinstance(st, ast.If) and 'border_attr' in norm(st.test) and 'graph_view[y, x]' in norm(st.test))), expect='seed.on-border'),
        Va('paints-from-outside', 'break', G, t('_flood_fill', lambda f: mu.remove_stmt(f, lambda st: isinstance(st, ast.If) and 'bound_x0' in norm(st.test) and 'return' in norm(st))), expect='seed.outside'),
        Va('left-extension-starts-on-interval', 'break', G, t('_flood_fill', lambda f: mu.replace_expr(f, mu.text_is('self._scanline_until(border_attr, y, x_start - 1, bound_x0 - 1)'), 'self._scanline_until(border_attr, y, x_start, bound_x0 - 1)')), expect='extend.x_left'),
        Va('right-extension-past-viewport', 'break', G, t('_flood_fill', lambda f: mu.replace_expr(f, mu.text_is('self._scanline_until(border_attr, y, x_stop + 1, bound_x1 + 1)'), 'self._scanline_until(border_attr, y, x_stop + 1, bound_x1 + 2)')), expect='extend.x_right'),
        Va('start-row-only-downwards', 'break', G, t('_flood_fill', lambda f: mu.remove_stmt(f, lambda st: isinstance(st, ast.If) and norm(st.test) == 'y - 1 >= bound_y0')), expect='rows.'),
        Va('eight-connected', 'break', G, t('_flood_fill', _widen), expect='rows.'),
        Va('backward-row-whole-interval', 'break', G, t('_flood_fill', _backward_whole), expect='rows.'),
        Va('row-below-viewport-examined', 'break', G, t('_flood_fill', lambda f: mu.replace_expr(f, mu.text_is('y + 1 <= bound_y1'), 'y + 1 <= bound_y1 + 1')), expect='rows.four'),
        Va('store-one-pixel-wider', 'break', G, t('_flood_fill', lambda f: mu.replace_expr(f, lambda n: isinstance(n, ast.Subscript) and norm(n) == 'self.graph_view[y, x_left:x_right + 1]', 'self.graph_view[y, x_left:x_right + 2]', count=1)), expect='store.exactly'),
        Va('solid-fill-in-border-attribute', 'break', G, t('_flood_fill', lambda f: mu.replace_expr(f, mu.text_is('bytematrix.ByteMatrix(1, 8, fill_attr)'), 'bytematrix.ByteMatrix(1, 8, border_attr)')), expect='store.fill'),
        Va('pieces-not-cut-at-border', 'break', G, t('_check_scanline', lambda f: mu.replace_stmt(f, mu.text_is('x += pattern.width + 1'), 'x += pattern.width')), expect='cut.skip'),
        Va('seed-one-too-long', 'break', G, t('_check_scanline', lambda f: mu.replace_expr(f, mu.text_is('x + pattern.width - 1'), 'x + pattern.width')), expect='cut.seed'),
        Va('scan-includes-border', 'break', G, t('_scanline_until', lambda f: mu.replace_expr(f, mu.text_is('row[:, :index]'), 'row[:, :index + 1]')), expect='scan.forward'),
        Va('neutral-rename', 'neutral', G, t('_check_scanline', lambda f: mu.rename_local(f, 'pattern', 'piece'))),
    ]


def _widen(f):
    for c in ast.walk(f):
        if isinstance(c, ast.Call) and norm(c.func) == 'self._check_scanline' and norm(c.args[3]) == 'y + ydir':
            c.args[1] = ast.parse('x_left - 1', mode='eval').body
            c.args[2] = ast.parse('x_right + 1', mode='eval').body
            return True
    return False


def _backward_whole(f):
    for c in ast.walk(f):
        if isinstance(c, ast.Call) and norm(c.func) == 'self._check_scanline' and norm(c.args[2]) == 'x_start - 1':
            c.args[2] = ast.parse('x_right', mode='eval').body
            return True
    return False

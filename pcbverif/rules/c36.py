"""
C36 -- the text cursor and screen content stay consistent (structural half).

Decides:
 * ownership: TextScreen.current_row / current_col are written only by
   TextScreen methods (who-may-write over the whole package);
 * every write of the position is normalised: it is (a) inside the normaliser
   _wrap_around_and_scroll_as_needed itself, or (b) followed on every path of
   the same method by a call to the normaliser / set_pos, or (c) made in a
   helper that is only called immediately before the normaliser
   (_consume_overflow_before_write), or (d) a +-1 row adjustment that mirrors a
   scroll under the matching comparison (scroll / scroll_down), or (e)
   dominated by a range check of the stored value to the screen (VIEW PRINT);
 * the normaliser ends with the row clamped to the scroll area
   [top, bottom] and handles columns > width and < 1; scrolling happens only
   when allowed and only if the row passed the bottom of the scroll area;
 * LOCATE: the row is range-checked to the VIEW PRINT window (or 1..height)
   and the column to 1..width before set_pos; refusals are Illegal function
   call and precede any change;
 * scrolling stays inside the window: every page scroll passes
   scroll_area.bottom as the last row, and the first row defaults to
   scroll_area.top;
 * CSRLIN/POS report the stored position (with the documented overflow
   adjustment); SCREEN(r,c) reads get_byte(row, col) of the active page after
   range checks.
Not decided: character placement over histories.
"""
import ast

from ..source import norm, short, qualname, enclosing_class, class_methods
from ..flow import own_nodes, must_follow
from ..intervals import bounds
from .. import mutate as mu

PROP = 'C36'
LEVEL = 'other'
TECHNIQUE = 'static analysis: who-may-write, must-follow normalisation of every cursor store, guard intervals for LOCATE'
EXPLANATION = __doc__

TS = 'pcbasic/basic/display/textscreen.py'
NORMALISER = '_wrap_around_and_scroll_as_needed'


def _pos_writes(fn):
    out = []
    for n in own_nodes(fn):
        tg = n.targets if isinstance(n, ast.Assign) else ([n.target] if isinstance(n, ast.AugAssign) else [])
        for t in tg:
            for e in (t.elts if isinstance(t, ast.Tuple) else [t]):
                if isinstance(e, ast.Attribute) and e.attr in ('current_row', 'current_col'):
                    out.append((n, e))
                    break
    # de-duplicate statements
    seen, res = set(), []
    for n, e in out:
        if id(n) not in seen:
            seen.add(id(n))
            res.append(n)
    return res


def _master_screen_file(ctx, rep):
    """Wrapping "at the screen width": the master SCRN: file (the one PRINT writes to) must read width and column
    from the live screen state -- SCREEN and WIDTH change them behind its back -- and only the windows opened
    with OPEN "SCRN:" keep their own."""
    DB = 'pcbasic/basic/devices/devicebase.py'
    for prop, live in (('width', 'self._display.mode.width'), ('col', 'self.console.current_col')):
        fn = ctx.fn(DB + ':SCRNFile.' + prop)
        fl = ctx.flow(fn)
        rets = [r for r in own_nodes(fn) if isinstance(r, ast.Return)]
        m = [r for r in rets if fl.knows(r, 'self._is_master', True)]
        rep.ob('wrap.master-reads-live-screen-state', 'SCRNFile.%s of the master file is %s' % (prop, live),
               len(m) == 1 and norm(m[0].value) == live,
               'the master screen file returns %s: the value goes stale when SCREEN changes the column count and PRINT wraps at the wrong column' % (
                   [norm(r.value) for r in rets]), ctx.where(fn))


def _mode_change_and_width(ctx, rep):
    """A mode or width change resets the text window *before* the cursor is sent to its top row; and when PRINT decides whether
    a string still fits before the right margin, every printable character counts, the space (32) included."""
    im = ctx.fn('pcbasic/basic/display/textscreen.py:TextScreen.init_mode')
    reset = [c for c in own_nodes(im) if isinstance(c, ast.Call) and norm(c.func) == 'self.scroll_area.init_mode']
    home = [c for c in own_nodes(im) if isinstance(c, ast.Call) and norm(c.func) == 'self.set_pos' and 'self.scroll_area.top' in norm(c)]
    rep.ob('mode-change.window-reset-before-home', 'init_mode resets the text window, then homes the cursor to its top row',
           len(reset) == 1 and len(home) == 1 and (reset[0].lineno, reset[0].col_offset) < (home[0].lineno, home[0].col_offset),
           'the cursor is sent to the top of the OLD window (VIEW PRINT 5 TO 10: WIDTH 40 leaves it on row 5 of a cleared screen)', ctx.where(im))
    bar = [c for c in own_nodes(im) if isinstance(c, ast.Call) and norm(c.func) == 'self.redraw_bar']
    rep.ob('mode-change.cursor-inside-before-redraw', 'init_mode redraws the key bar only after the cursor has been homed into the new screen',
           len(bar) == 1 and len(home) == 1 and (home[0].lineno, home[0].col_offset) < (bar[0].lineno, bar[0].col_offset),
           'the bar is redrawn while the cursor still has its old column: beyond the new width, refreshing it ends in IndexError (KEY ON: LOCATE 1,60: WIDTH 40)', ctx.where(im))
    wr = ctx.fn('pcbasic/basic/devices/devicebase.py:SCRNFile.write')
    tests = [c for c in own_nodes(wr) if isinstance(c, ast.Compare) and len(c.ops) == 1 and norm(c.left) == 'c' and isinstance(c.ops[0], (ast.Gt, ast.GtE))
             and isinstance(ctx.fold(c.comparators[0]), bytes) and len(ctx.fold(c.comparators[0])) == 1]
    rep.floor('width.printable-threshold', len(tests), 1, 'printable-character tests in SCRNFile.write')
    for c in tests:
        k = ctx.fold(c.comparators[0])[0]
        lowest = k if isinstance(c.ops[0], ast.GtE) else k + 1
        rep.ob('width.printable-threshold', 'SCRNFile.write counts every character from 32 (space) up: %s' % norm(c), lowest == 32,
               'characters are counted from %d up: a string with spaces is taken to be shorter than it is and is split at the margin instead of moved to the next row' % lowest,
               ctx.where(c))


def check(ctx, rep):
    # VIEW PRINT homes the cursor into the new window and leaves the overflow state (a full row printed with `;` before it
    # would otherwise put the next character in column 2 while POS reports 1)
    vp_ = ctx.fn(TS + ':TextScreen.view_print_')
    ovf = [a for a in own_nodes(vp_) if isinstance(a, ast.Assign) and norm(a.targets[0]) == 'self.overflow' and norm(a.value) == 'False']
    rep.ob('window.view-print-leaves-overflow', 'view_print_ resets the overflow state', len(ovf) >= 1, '', ctx.where(vp_))
    # the bottom-row latch (LOCATE 25,x) is released as soon as the cursor is on any other row
    wn = ctx.fn(TS + ':TextScreen._wrap_around_and_scroll_as_needed')
    flw = ctx.flow(wn)
    rel = [a for a in own_nodes(wn) if isinstance(a, ast.Assign) and norm(a.targets[0]) == 'self._bottom_row_allowed' and norm(a.value) == 'False']
    facts = [sorted((f.text, f.pol) for f in flw.facts(a)) for a in rel]
    rep.ob('window.bottom-row-latch-released-off-the-row', '_wrap_around_and_scroll_as_needed clears the latch whenever the row is not the bottom row',
           facts == [[('self._bottom_row_allowed', True), ('self.current_row == self.mode.height', False)]], repr(facts), ctx.where(wn))
    _mode_change_and_width(ctx, rep)
    from ..optargs import check as _optargs
    _optargs(ctx, rep, ['pcbasic/basic/display/textscreen.py', 'pcbasic/basic/console.py', 'pcbasic/basic/display/display.py'], 3,
             {('TextScreen.screen_fn_', 'want_attr'): 'the third argument of SCREEN(row, col, z) is a flag: any non-zero z asks for the attribute, 0 and omitted both ask for the character'})
    from . import c35 as _c35, _share as _sh
    _sh.share(ctx, rep, _c35, ('scroll.',), 'scrolling moves exactly the rows of the region: the character rows, the displayed text and the pixels agree on the row dropped and on the blank row')
    _master_screen_file(ctx, rep)
    ts = ctx.cls(TS + ':TextScreen')
    meths = class_methods(ts)
    n_writes = 0
    normal = lambda s: isinstance(s, ast.Expr) and isinstance(s.value, ast.Call) and norm(s.value.func) in ('self.' + NORMALISER, 'self.set_pos')
    for fn in ctx.idx.functions('pcbasic/'):
        ws = _pos_writes(fn)
        if not ws:
            continue
        cls = enclosing_class(fn)
        who = qualname(fn).split(':')[1]
        for w in ws:
            n_writes += 1
            rep.ob('owner.cursor-position', '%s: %s' % (who, short(w, 60)), cls is ts, 'cursor position written outside TextScreen', ctx.where(w))
            if cls is not ts:
                continue
            fl = ctx.flow(fn)
            ok, why = False, ''
            if fn.name == NORMALISER:
                ok, why = True, 'normaliser'
            elif fn.name == '__init__' and isinstance(w, ast.Assign) and isinstance(w.value, ast.Tuple) and [norm(e) for e in w.value.elts[:2]] == ['1', '1']:
                ok, why = True, 'initial position (1, 1)'
            elif must_follow(w, normal):
                ok, why = True, 'followed by normaliser'
            elif fn.name == '_consume_overflow_before_write':
                callers = [m for m in meths.values() if any(isinstance(c, ast.Call) and norm(c.func) == 'self._consume_overflow_before_write' for c in own_nodes(m))]
                good = bool(callers)
                for m in callers:
                    st = [s for s in m.body if isinstance(s, ast.Expr) and isinstance(s.value, ast.Call)]
                    i = [k for k, s in enumerate(st) if norm(s.value.func) == 'self._consume_overflow_before_write']
                    good = good and bool(i) and i[0] + 1 < len(st) and norm(st[i[0] + 1].value.func) == 'self.' + NORMALISER
                ok, why = good, 'helper called right before the normaliser'
            elif fn.name in ('scroll', 'scroll_down') and isinstance(w, ast.AugAssign):
                want = 'self.current_row > from_row' if fn.name == 'scroll' else 'self.current_row >= from_row'
                ok, why = fl.knows(w, want, True) and norm(w.value) == '1', 'mirrors the scroll'
            elif fn.name == 'view_print_':
                b = bounds(ctx, fl.facts(w), 'start')
                ok, why = b.lo() == 1 and b.two_sided() and norm(w.value) == '(start, 1)', 'range-checked'
            rep.ob('normalised.every-position-store', '%s: %s' % (who, short(w, 60)), ok, why or 'the stored position is neither normalised afterwards nor range-checked', ctx.where(w))
    rep.floor('owner.cursor-position', n_writes, 18, 'position stores')
    # normaliser tail
    nz = meths[NORMALISER]
    tail = nz.body[-1]
    ok = isinstance(tail, ast.If) and norm(tail.test) == 'self.current_row > self.scroll_area.bottom' and norm(tail.body[-1]) == 'self.current_row = self.scroll_area.bottom' \
        and len(tail.orelse) == 1 and isinstance(tail.orelse[0], ast.If) and norm(tail.orelse[0].test) == 'self.current_row < self.scroll_area.top' \
        and norm(tail.orelse[0].body[0]) == 'self.current_row = self.scroll_area.top'
    rep.ob('normaliser.row-clamped-to-scroll-area', 'the normaliser ends with top <= row <= bottom', ok, '', ctx.where(nz))
    fl = ctx.flow(nz)
    sc = [c for c in own_nodes(nz) if isinstance(c, ast.Call) and norm(c.func) == 'self.scroll']
    rep.ob('normaliser.scroll-only-when-allowed', 'scrolls only past the bottom of the window and only if allowed',
           len(sc) == 1 and fl.knows(sc[0], 'scroll_ok', True) and fl.knows(sc[0], 'self.current_row > self.scroll_area.bottom', True), '', ctx.where(nz))
    cols = [n for n in nz.body if isinstance(n, ast.If) and norm(n.test) == 'self.current_col > self.mode.width']
    ok = len(cols) == 1 and len(cols[0].orelse) == 1 and norm(cols[0].orelse[0].test) == 'self.current_col < 1'
    rep.ob('normaliser.column-wrapped', 'columns beyond the width wrap to the next row (or stop at the border), columns < 1 to the previous', ok, '', ctx.where(nz))
    if ok:
        a = sorted(norm(s) for s in own_nodes(cols[0]) if isinstance(s, (ast.Assign, ast.AugAssign)) and 'current_col' in norm(s))
        rep.ob('normaliser.column-wrapped', 'column adjustments are +-width or clamps to 1/width',
               a == ['self.current_col += self.mode.width', 'self.current_col -= self.mode.width', 'self.current_col = 1', 'self.current_col = self.mode.width'], repr(a), ctx.where(nz))
    # set_pos
    sp = meths['set_pos']
    st = [norm(s) for s in sp.body if not (isinstance(s, ast.Expr) and isinstance(s.value, ast.Constant))]
    rep.ob('set_pos', 'set_pos stores the position and normalises it', 'self.current_row, self.current_col = (to_row, to_col)' in st and
           'self._wrap_around_and_scroll_as_needed(scroll_ok)' in st and st.index('self.current_row, self.current_col = (to_row, to_col)') < st.index('self._wrap_around_and_scroll_as_needed(scroll_ok)'),
           repr(st), ctx.where(sp))
    # LOCATE
    lo = meths['locate_']
    fl = ctx.flow(lo)
    call = [c for c in own_nodes(lo) if isinstance(c, ast.Call) and norm(c.func) == 'self.set_pos']
    ok = len(call) == 1 and [norm(a) for a in call[0].args] == ['row', 'col']
    rep.ob('locate.moves-to-request', 'LOCATE moves to (row, col) through set_pos', ok, '', ctx.where(lo))
    if call:
        bc = bounds(ctx, fl.facts(call[0]), 'col')
        rep.ob('locate.column-range', 'LOCATE column within 1..width', bc.lo() == 1 and 'self.mode.width' in [t for v, i, t in bc.upper if i], bc.describe(), ctx.where(call[0]))
        br = bounds(ctx, fl.facts(call[0]), 'row')
        rc = [c for c in own_nodes(lo) if isinstance(c, ast.Call) and norm(c.func) == 'error.range_check' and norm(c.args[2]) == 'row']
        d = dict((norm(c), fl.knows(c, 'self.scroll_area.active', True)) for c in rc)
        rep.ob('locate.row-range', 'LOCATE row within the VIEW PRINT window if set, else 1..height',
               d == {'error.range_check(self.scroll_area.top, self.scroll_area.bottom, row)': True, 'error.range_check(1, self.mode.height, row)': False}, repr(d), ctx.where(lo))
        thr = ctx.throwers(lo)
        before = [t for t in thr if t[0].lineno < call[0].lineno]
        rep.ob('locate.refusal-before-change', 'position refusals are IFC and precede the move', len(before) >= 4 and all(c == 'ILLEGAL_FUNCTION_CALL' for _, c, _ in thr), '', ctx.where(lo))
    # scrolling within the window
    for name, inner in (('scroll', 'self._apage.scroll_up'), ('scroll_down', 'self._apage.scroll_down')):
        fn = meths[name]
        c = [x for x in own_nodes(fn) if isinstance(x, ast.Call) and norm(x.func) == inner]
        rep.ob('scroll.inside-window', 'TextScreen.%s scrolls up to scroll_area.bottom' % name, len(c) == 1 and [norm(a) for a in c[0].args][:2] == ['from_row', 'self.scroll_area.bottom'], '', ctx.where(fn))
    s = meths['scroll']
    d = [n for n in s.body if isinstance(n, ast.If) and norm(n.test) == 'from_row is None']
    rep.ob('scroll.inside-window', 'the first scrolled row defaults to scroll_area.top', len(d) == 1 and norm(d[0].body[0]) == 'from_row = self.scroll_area.top', '', ctx.where(s))
    n_ext = 0
    for fn in ctx.idx.functions('pcbasic/basic/'):
        if enclosing_class(fn) is ts:
            continue
        for c in own_nodes(fn):
            if isinstance(c, ast.Call) and isinstance(c.func, ast.Attribute) and c.func.attr in ('scroll_up', 'scroll_down') and 'apage' in norm(c.func.value) + 'x':
                if '_apage' in norm(c.func.value) or 'pages' in norm(c.func.value):
                    n_ext += 1
                    rep.ob('scroll.inside-window', '%s scrolls a page directly' % qualname(fn).split(':')[1], False, 'page scrolled outside TextScreen.scroll/scroll_down', ctx.where(c))
    # CSRLIN / POS / SCREEN
    cs = meths['csrlin_']
    fl = ctx.flow(cs)
    a = dict((norm(x.value), fl.knows(x, 'self.overflow and self.current_col == self.mode.width and (self.current_row < self.scroll_area.bottom)', True)) for x in own_nodes(cs)
             if isinstance(x, ast.Assign) and norm(x.targets[0]) == 'csrlin')
    rep.ob('report.csrlin', 'CSRLIN reports the stored row (row+1 in overflow position)', a == {'self.current_row + 1': True, 'self.current_row': False}, repr(a), ctx.where(cs))
    ps = meths['pos_']
    fl = ctx.flow(ps)
    a = dict((norm(x.value), fl.knows(x, 'self.current_col == self.mode.width and self.overflow', True)) for x in own_nodes(ps) if isinstance(x, ast.Assign) and norm(x.targets[0]) == 'pos')
    rep.ob('report.pos', 'POS reports the stored column (1 in overflow position)', a == {'1': True, 'self.current_col': False}, repr(a), ctx.where(ps))
    sf = meths['screen_fn_']
    fl = ctx.flow(sf)
    g = [c for c in own_nodes(sf) if isinstance(c, ast.Call) and norm(c) == 'self._apage.get_byte(row, col)']
    ok = len(g) == 1
    if ok:
        # range checks precede the `row = row or 1` defaults, so look at the checks themselves
        chk = [norm(c) for c in own_nodes(sf) if isinstance(c, ast.Call) and norm(c.func) == 'error.range_check']
        ok = 'error.range_check(0, self.mode.height, row)' in chk and 'error.range_check(0, self.mode.width, col)' in chk
    rep.ob('report.screen-fn', 'SCREEN(r,c) reads the character cell of the active page after range checks', ok, '', ctx.where(sf))
    wc = meths['write_char']
    p = [c for c in own_nodes(wc) if isinstance(c, ast.Call) and norm(c.func) == 'self._apage.put_char_attr']
    rep.ob('write.at-cursor', 'a character is written at (current_row, current_col) of the active page',
           len(p) == 1 and [norm(a_) for a_ in p[0].args][:3] == ['self.current_row', 'self.current_col', 'char'], '', ctx.where(wc))


def _variants0(ctx):
    Va = mu.Variant

    def in_fn(f_name, f):
        return lambda tree: f(mu.find_def(tree, 'TextScreen.' + f_name))

    return [
        Va('master-width-cached', 'break', 'pcbasic/basic/devices/devicebase.py',
           lambda tree: mu.replace_expr(mu.find_def(tree, 'SCRNFile.width'), mu.text_is('self._display.mode.width'), 'self._width'), expect='wrap.master'),
        Va('set-pos-not-normalised', 'break', TS, in_fn('set_pos', lambda fn: mu.remove_stmt(fn, mu.stmt_has('self._wrap_around_and_scroll_as_needed', ast.Expr))), expect='normalised'),
        Va('write-char-no-final-wrap', 'break', TS, in_fn('write_char', _drop_last_wrap), expect='normalised'),
        Va('normaliser-no-bottom-clamp', 'break', TS,
           in_fn('_wrap_around_and_scroll_as_needed', lambda fn: mu.remove_stmt(fn, mu.text_is('self.current_row = self.scroll_area.bottom'))), expect='normaliser.row'),
        Va('console-writes-cursor', 'break', 'pcbasic/basic/console.py',
           lambda tree: mu.append_last(mu.find_def(tree, 'Console.start_line'), 'self._text_screen.current_col = 0'), expect='owner'),
        Va('locate-column-unchecked', 'break', TS, in_fn('locate_', lambda fn: mu.remove_stmt(fn, mu.text_is('error.range_check(1, self.mode.width, col)'))), expect='locate.column'),
        Va('locate-ignores-view-print', 'break', TS,
           in_fn('locate_', lambda fn: mu.replace_expr(fn, mu.text_is('error.range_check(self.scroll_area.top, self.scroll_area.bottom, row)'), 'error.range_check(1, self.mode.height, row)')),
           expect='locate.row'),
        Va('scroll-whole-screen', 'break', TS,
           in_fn('scroll', lambda fn: mu.replace_expr(fn, mu.text_is('self._apage.scroll_up(from_row, self.scroll_area.bottom, self._attr)'),
                                                     'self._apage.scroll_up(from_row, self.mode.height, self._attr)')), expect='scroll.inside'),
        Va('scroll-adjusts-unconditionally', 'break', TS,
           in_fn('scroll', lambda fn: mu.replace_expr(fn, mu.text_is('self.current_row > from_row'), 'True')), expect='normalised'),
        Va('view-print-unchecked', 'break', TS, in_fn('view_print_', lambda fn: mu.remove_stmt(fn, mu.text_is('error.range_check(1, max_line, start, stop)'))), expect='normalised'),
        Va('csrlin-reports-next-row', 'break', TS, in_fn('csrlin_', lambda fn: mu.replace_stmt(fn, mu.text_is('csrlin = self.current_row'), 'csrlin = self.current_row + 1')), expect='report.csrlin'),
        Va('neutral', 'neutral', TS, in_fn('locate_', lambda fn: mu.rename_local(fn, 'cursor', 'visible'))),
    ]


def _drop_last_wrap(fn):
    calls = [s for s in fn.body if isinstance(s, ast.Expr) and isinstance(s.value, ast.Call) and 'self._wrap_around_and_scroll_as_needed' in norm(s)]
    fn.body.remove(calls[-1])
    return True


def variants(ctx):
    return _variants0(ctx) + [
        mu.Variant('view-print-keeps-overflow-state', 'break', 'pcbasic/basic/display/textscreen.py',
                   lambda tree: mu.remove_stmt(mu.find_def(tree, 'TextScreen.view_print_'), mu.text_is('self.overflow = False')), expect='window.view-print-leaves-overflow'),
        mu.Variant('bottom-row-latch-released-only-below-the-screen', 'break', 'pcbasic/basic/display/textscreen.py',
                   lambda tree: _latch_late(mu.find_def(tree, 'TextScreen._wrap_around_and_scroll_as_needed')), expect='window.bottom-row-latch-released-off-the-row'),
        mu.Variant('cursor-homed-before-window-reset', 'break', 'pcbasic/basic/display/textscreen.py',
                   lambda tree: _swap_last_two(mu.find_def(tree, 'TextScreen.init_mode')), expect='mode-change.window-reset-before-home'),
        mu.Variant('key-bar-redrawn-before-the-cursor-is-homed', 'break', 'pcbasic/basic/display/textscreen.py',
                   lambda tree: _bar_first(mu.find_def(tree, 'TextScreen.init_mode')), expect='mode-change.cursor-inside-before-redraw'),
        mu.Variant('spaces-not-counted-for-fit', 'break', 'pcbasic/basic/devices/devicebase.py',
                   lambda tree: mu.replace_expr(mu.find_def(tree, 'SCRNFile.write'), mu.text_is("c >= b' '"), "c > b' '"), expect='width.printable-threshold'),
        mu.Variant('cls-zero-treated-as-omitted', 'break', 'pcbasic/basic/display/display.py',
                   lambda tree: (lambda fn: mu.replace_expr(fn, mu.text_is('val is None'), 'not val'))(mu.find_def(tree, 'Display.cls_')), expect='arguments.zero-is-not-omitted'),
    ]


def _swap_last_two(fn):
    ia = [i for i, st in enumerate(fn.body) if 'scroll_area.init_mode' in norm(st)]
    ib = [i for i, st in enumerate(fn.body) if 'self.set_pos(' in norm(st)]
    if len(ia) != 1 or len(ib) != 1 or ib[0] != ia[0] + 1:
        return False
    fn.body[ia[0]], fn.body[ib[0]] = fn.body[ib[0]], fn.body[ia[0]]
    return True


def _bar_first(fn):
    ib = [i for i, st in enumerate(fn.body) if 'self.redraw_bar()' in norm(st)]
    ia = [i for i, st in enumerate(fn.body) if 'scroll_area.init_mode' in norm(st)]
    if len(ia) != 1 or len(ib) != 1:
        return False
    st = fn.body.pop(ib[0])
    fn.body.insert(ia[0], st)
    return True


def _latch_late(fn):
    for i in ast.walk(fn):
        if isinstance(i, ast.If) and norm(i.test) == 'self.current_row == self.mode.height' and i.orelse and not isinstance(i.orelse[0], ast.If):
            i.orelse = [ast.If(test=ast.parse('self.current_row > self.mode.height', mode='eval').body, body=i.orelse, orelse=[])]
            ast.fix_missing_locations(fn)
            return True
    return False


"""
C12 -- array subscripts address distinct elements within declared bounds.

Decides:
 * bounds: in Arrays.check_dim the pass set of every subscript is exactly
   [base, d] (guard intervals): negative -> Illegal function call, below base
   or above d -> Subscript out of range; a wrong number of subscripts ->
   Subscript out of range before any element test; an undeclared array is
   allocated as [10]*rank inside the KeyError handler;
 * injectivity: Arrays.index accumulates digit*area with digit = index[i]-B
   and radix = dimensions[i]+1-B (linear normaliser); with B <= index[i] <=
   dimensions[i] this gives 0 <= digit <= radix-1, i.e. a mixed-radix numeral,
   so distinct in-bounds tuples get distinct flat indices below flat_length;
   the place value is updated after it is used;
 * every use of Arrays.index on user subscripts is preceded by check_dim on
   the same (name, index): view_buffer directly; varptr through varptr_ and
   varptr_str_;
 * allocate: existing name -> Duplicate definition, negative bound -> IFC,
   bound below base -> Subscript out of range, all before the free-memory check
   and before the three tables are written together; the buffer holds
   flat_length * element size bytes;
 * ERASE removes the name from _dims, _buffers and _array_memory together
   (missing array -> IFC); OPTION BASE raises Duplicate definition when a
   different base is already in force.
"""
import ast

from ..source import class_methods, norm, short, qualname
from ..flow import own_nodes, atoms
from ..intervals import bounds
from ..algebra import lin, add, scale, parse
from .. import mutate as mu

PROP = 'C12'
LEVEL = 'other'
TECHNIQUE = 'static analysis: guard intervals for the bounds check, linear normaliser for the mixed-radix index, must-precede of check_dim before index'
EXPLANATION = __doc__

A = 'pcbasic/basic/memory/arrays.py'
M = 'pcbasic/basic/memory/memory.py'


def check(ctx, rep):
    cd = ctx.fn(A + ':Arrays.check_dim')
    fl = ctx.flow(cd)
    loops = [n for n in cd.body if isinstance(n, ast.For)]
    ok = len(loops) == 1 and norm(loops[0].iter) == 'zip(index, dimensions)' and isinstance(loops[0].target, ast.Tuple)
    rep.ob('bounds.loop', 'check_dim tests every (subscript, bound) pair', ok, '', ctx.where(cd))
    if ok:
        iv, dv = [norm(e) for e in loops[0].target.elts]
        chain = []
        node = loops[0].body[0] if loops[0].body and isinstance(loops[0].body[0], ast.If) else None
        while isinstance(node, ast.If):
            codes = [ctx.basic_error_code(r) for r in own_nodes(node.body[0]) if isinstance(r, ast.Raise)] if node.body else []
            chain.append((node.test, codes))
            node = node.orelse[0] if len(node.orelse) == 1 and isinstance(node.orelse[0], ast.If) else None
        rep.ob('bounds.error-codes', 'negative -> IFC, then out of bounds -> Subscript out of range',
               [c for _, c in chain] == [['ILLEGAL_FUNCTION_CALL'], ['SUBSCRIPT_OUT_OF_RANGE']], repr([(norm(t), c) for t, c in chain]), ctx.where(cd))
        facts = []
        for t, _ in chain:
            facts += atoms(t, False)
        b = bounds(ctx, facts, iv)
        lows = set(t for v, inc, t in b.lower if inc)
        ups = set(t for v, inc, t in b.upper if inc)
        rep.ob('bounds.pass-set', 'subscripts that pass satisfy base <= i <= d and i >= 0',
               {'self._base', '0'} <= lows and dv in ups, b.describe(), ctx.where(cd))
        # IFC clause for negatives comes first
        if chain:
            b0 = bounds(ctx, atoms(chain[0][0], True), iv)
            rep.ob('bounds.negative-is-ifc', 'the IFC branch is exactly i < 0', b0.hi() == -1 and not b0.lower, b0.describe(), ctx.where(cd))
    rk = [r for r, c in ctx.raises_in(cd) if c == 'SUBSCRIPT_OUT_OF_RANGE' and fl.knows(r, 'len(index) != len(dimensions)', True)]
    rep.ob('bounds.rank', 'wrong number of subscripts -> Subscript out of range, before the element tests',
           len(rk) == 1 and bool(loops) and rk[0].lineno < loops[0].lineno, '', ctx.where(cd))
    auto = [n for n in own_nodes(cd) if isinstance(n, ast.Call) and norm(n.func) == 'self.allocate']
    okauto = len(auto) == 1 and any(k == 'handler' and norm(o.type) == 'KeyError' for k, o in fl.context(auto[0]))
    dims = [norm(n.value) for n in own_nodes(cd) if isinstance(n, ast.Assign) and norm(n.targets[0]) == 'dimensions' and 'len(index)' in norm(n.value)]
    rep.ob('auto-dim', 'an undeclared array is dimensioned [10]*rank on first use', okauto and dims == ['[10] * len(index)'] and
           [norm(a) for a in auto[0].args] == ['name', 'dimensions'], repr(dims), ctx.where(cd))
    # ---- index -----------------------------------------------------------------
    ix = ctx.fn(A + ':Arrays.index')
    loops = [n for n in ix.body if isinstance(n, ast.For)]
    acc = upd = None
    if len(loops) == 1:
        for s in loops[0].body:
            if isinstance(s, ast.AugAssign) and isinstance(s.op, ast.Add) and norm(s.target) == 'bigindex':
                acc = s
            if isinstance(s, ast.AugAssign) and isinstance(s.op, ast.Mult) and norm(s.target) == 'area':
                upd = s
    rep.ob('index.shape', 'index(): bigindex += area*digit; area *= radix, in that order',
           acc is not None and upd is not None and loops[0].body.index(acc) < loops[0].body.index(upd), '', ctx.where(ix))
    if acc is not None and upd is not None:
        prod = acc.value
        digit = None
        if isinstance(prod, ast.BinOp) and isinstance(prod.op, ast.Mult):
            digit = prod.right if norm(prod.left) == 'area' else (prod.left if norm(prod.right) == 'area' else None)
        radix = upd.value
        ok = digit is not None
        rep.ob('index.shape', 'the digit is multiplied by the current place value', ok, short(acc), ctx.where(acc))
        if ok:
            X, D, B = 'index[i]', 'dimensions[i]', 'self._base'
            dmin = lin(digit, {X: parse(B)})
            dmax = lin(digit, {X: parse(D)})
            rad = lin(radix)
            rep.ob('index.digit-min-zero', 'digit at the lower bound (index[i] = base) is 0', dmin == {}, repr(dmin), ctx.where(acc))
            rep.ob('index.digit-max-radix-1', 'digit at the upper bound (index[i] = dimensions[i]) is radix - 1',
                   add(rad, scale(dmax, -1)) == {'': 1}, 'radix %r, max digit %r' % (rad, dmax), ctx.where(upd))
            coef = lin(digit).get(X)
            rep.ob('index.digit-monotone', 'digit grows by exactly 1 per subscript step', coef == 1, repr(lin(digit)), ctx.where(acc))
    init = [norm(s) for s in ix.body if isinstance(s, ast.Assign)]
    rep.ob('index.init', 'bigindex starts at 0 and area at 1', 'bigindex = 0' in init and 'area = 1' in init, repr(init), ctx.where(ix))
    flen = ctx.fn(A + ':Arrays.flat_length')
    rep.ob('index.length', 'flat_length = index(dimensions, dimensions) + 1 (the largest numeral + 1)',
           norm([r for r in own_nodes(flen) if isinstance(r, ast.Return)][0].value) == 'self.index(dimensions, dimensions) + 1', '', ctx.where(flen))
    bs = ctx.fn(A + ':Arrays._buffer_size')
    rep.ob('index.buffer', 'buffer size = flat_length * element size',
           norm([r for r in own_nodes(bs) if isinstance(r, ast.Return)][0].value) == 'self.flat_length(dimensions) * values.size_bytes(name)', '', ctx.where(bs))
    vb = ctx.fn(A + ':Arrays.view_buffer')
    sl = [r for r in own_nodes(vb) if isinstance(r, ast.Return)]
    rep.ob('index.element-slice', 'element = bytes [k*size, (k+1)*size) of the buffer',
           len(sl) == 1 and norm(sl[0].value) == 'memoryview(lst)[bigindex * bytesize:(bigindex + 1) * bytesize]', '', ctx.where(vb))
    # ---- check_dim precedes index ------------------------------------------------
    cg = ctx.cg_precise
    callers = cg.callers.get(id(ix), [])
    rep.floor('index.callers', len(callers), 3, 'call sites of Arrays.index')
    for fn, call in callers:
        args = [norm(a) for a in call.args]
        who = qualname(fn).split(':')[1]
        if args[0] == args[1]:
            rep.ob('guarded-index', '%s: index(%s) on the bounds themselves' % (who, ', '.join(args)), True)
            continue

        def events(node):
            return ['checked'] if any(isinstance(c, ast.Call) and isinstance(c.func, ast.Attribute) and c.func.attr == 'check_dim'
                                      and len(c.args) == 2 and norm(c.args[1]) == args[0] for c in own_nodes(node)) else []
        flc = ctx.flow(fn, events)
        if 'checked' in flc.must(call):
            rep.ob('guarded-index', '%s: check_dim precedes index(%s)' % (who, ', '.join(args)), True)
            continue
        # not checked locally: every caller chain must check before calling
        ok = True
        detail = []
        for f2, c2 in cg.callers.get(id(fn), []):
            for f3, c3 in cg.callers.get(id(f2), []) or [(f2, c2)]:
                target = f3 if cg.callers.get(id(f2)) else f2
                callnode = c3 if cg.callers.get(id(f2)) else c2

                def ev2(node):
                    return ['checked'] if any(isinstance(c, ast.Call) and norm(c.func).endswith('arrays.check_dim') for c in own_nodes(node)) else []
                fl3 = ctx.flow(target, ev2)
                facts = dict((f.text, f.pol) for f in fl3.facts(callnode))
                good = 'checked' in fl3.must(callnode) or _checked_under_nonempty(target, callnode)
                detail.append('%s:%s' % (qualname(target).split(':')[1], good))
                ok = ok and good
        rep.ob('guarded-index', '%s: every caller checks subscripts first' % who, ok and bool(detail), repr(detail), ctx.where(call))
    # ---- allocate / erase / option base --------------------------------------------
    al = ctx.fn(A + ':Arrays.allocate')
    fl = ctx.flow(al)
    order = []
    for r, c in ctx.raises_in(al):
        order.append((r.lineno, c))
    codes = [c for _, c in sorted(order)]
    rep.ob('allocate.errors', 'Duplicate definition, then IFC for negative bounds, then Subscript out of range below base',
           codes == ['DUPLICATE_DEFINITION', 'ILLEGAL_FUNCTION_CALL', 'SUBSCRIPT_OUT_OF_RANGE'], repr(codes), ctx.where(al))
    # each bound is tested on its own: one bound below the base (or negative) is enough to refuse the DIM
    for code, cond in (('ILLEGAL_FUNCTION_CALL', '_d < 0'), ('SUBSCRIPT_OUT_OF_RANGE', '_d < self._base')):
        rs = [r for r, c in ctx.raises_in(al) if c == code]
        tests = [f.text for r in rs for f in fl.facts(r) if f.pol and cond in f.text]
        rep.ob('allocate.every-bound-tested', 'allocate: %s if ANY bound has %s' % (code, cond),
               tests == ['any((%s for _d in dimensions))' % cond] or tests == ['any(%s for _d in dimensions)' % cond], repr(tests), ctx.where(al))
    # every element access of the public accessors goes through view_buffer (and so through check_dim: bounds, auto-dimension)
    for meth in ('get', 'set'):
        m = ctx.fn(A + ':Arrays.' + meth)
        vcalls = [c for c in own_nodes(m) if isinstance(c, ast.Call) and norm(c) == 'self.view_buffer(name, index)']
        rets = [r for r in own_nodes(m) if isinstance(r, ast.Return) and r.value is not None]
        ok = len(vcalls) == 1 and all(any(x is vcalls[0] for x in ast.walk(r.value)) for r in rets) and (meth == 'set' or len(rets) >= 1)
        rep.ob('accessors.through-view-buffer', 'Arrays.%s reaches the element only through view_buffer(name, index)' % meth, ok,
               'a result that does not come from view_buffer skips check_dim: an undeclared array is not dimensioned on first use and subscripts are not checked (%s)'
               % [short(r, 50) for r in rets], ctx.where(m))
    # the space that is checked to be free is the space that is then taken (record header + element buffer)
    from ..algebra import lin as _lin
    chk = [c for c in own_nodes(al) if isinstance(c, ast.Call) and norm(c.func) == 'self._memory.check_free' and c.args]
    take = [a for a in own_nodes(al) if isinstance(a, ast.AugAssign) and norm(a.target) == 'self.current' and isinstance(a.op, ast.Add)]
    defs_ = dict((norm(a.targets[0]), a.value) for a in own_nodes(al) if isinstance(a, ast.Assign) and isinstance(a.targets[0], ast.Name))

    def _expand(e):
        return _lin(defs_[e.id]) if isinstance(e, ast.Name) and e.id in defs_ and isinstance(defs_[e.id], ast.BinOp) else _lin(e)
    rep.ob('allocate.checks-what-it-takes', 'allocate checks free memory for exactly the bytes it adds to `current`',
           len(chk) == 1 and len(take) == 1 and _expand(chk[0].args[0]) == _expand(take[0].value),
           'checked %s, taken %s: in nearly full memory the array lands on the lowest strings' % (norm(chk[0].args[0]) if chk else None, norm(take[0].value) if take else None), ctx.where(al))
    dup = [r for r, c in ctx.raises_in(al) if c == 'DUPLICATE_DEFINITION']
    rep.ob('allocate.duplicate', 'an existing array cannot be redimensioned', len(dup) == 1 and fl.knows(dup[0], 'name in self._dims', True), '', ctx.where(al))
    cf = [n for n in own_nodes(al) if isinstance(n, ast.Call) and norm(n.func) == 'self._memory.check_free']
    stores = [n for n in own_nodes(al) if isinstance(n, ast.Assign) and isinstance(n.targets[0], ast.Subscript) and norm(n.targets[0].slice) == 'name']
    tables = sorted(norm(s.targets[0].value) for s in stores)
    rep.ob('allocate.tables-together', 'allocate writes _array_memory, _buffers and _dims together, after the free-memory check',
           tables == ['self._array_memory', 'self._buffers', 'self._dims'] and len(cf) == 1 and all(cf[0].lineno < s.lineno for s in stores)
           and max(l for l, _ in order) < cf[0].lineno, repr(tables), ctx.where(al))
    er = ctx.fn(A + ':Arrays.erase_')
    dels = sorted(norm(n.targets[0]) for n in own_nodes(er) if isinstance(n, ast.Delete))
    rep.ob('erase.tables-together', 'ERASE removes the array from all three tables', dels == ['self._array_memory[name]', 'self._buffers[name]', 'self._dims[name]'], repr(dels), ctx.where(er))
    # the space of EVERY erased array is given back: the decrement of `current` sits in the per-name loop, next to the deletes
    outer = [f for f in er.body if isinstance(f, ast.For) and norm(f.iter) == 'args']
    dec = [a for a in own_nodes(er) if isinstance(a, ast.AugAssign) and norm(a.target) == 'self.current' and isinstance(a.op, ast.Sub)]
    rep.ob('erase.space-returned-per-array', 'erase_: `self.current -= freed_bytes` once per erased array (inside the loop over the names)',
           len(outer) == 1 and len(dec) == 1 and dec[0] in outer[0].body and norm(dec[0].value) == 'freed_bytes',
           'with several names only the last array`s bytes are returned: ERASE A#,B# followed by DIM of both ends in Out of memory', ctx.where(er))
    # subscripts are converted as SIGNED integers, so that a negative one reaches check_dim (Illegal function call)
    pi = ctx.fn('pcbasic/basic/parser/expressions.py:ExpressionParser.parse_indices')
    conv = [c for c in own_nodes(pi) if isinstance(c, ast.Call) and norm(c.func) == 'values.to_int']
    rep.floor('subscripts.signed-conversion', len(conv), 1, 'subscript conversions')
    for c in conv:
        unsigned = len(c.args) > 1 or any(k.arg == 'unsigned' and norm(k.value) != 'False' for k in c.keywords)
        rep.ob('subscripts.signed-conversion', 'parse_indices: %s' % short(c, 50), not unsigned,
               'a negative subscript is wrapped to 65536+n: A(-1) gives Subscript out of range instead of Illegal function call', ctx.where(c))
    fl = ctx.flow(er)
    ifc = [r for r, c in ctx.raises_in(er) if c == 'ILLEGAL_FUNCTION_CALL']
    rep.ob('erase.missing', 'ERASE of a missing array raises IFC', len(ifc) == 1 and fl.knows(ifc[0], 'name not in self._dims', True), '', ctx.where(er))
    ob = ctx.fn(A + ':Arrays.option_base_')
    fl = ctx.flow(ob)
    dd = [r for r, c in ctx.raises_in(ob) if c == 'DUPLICATE_DEFINITION']
    rep.ob('option-base.duplicate', 'OPTION BASE with a different base in force raises Duplicate definition',
           len(dd) == 1 and fl.knows(dd[0], 'self._base is not None and base != self._base', True), '', ctx.where(ob))
    # ---- the OPTION BASE setting is part of "every OPTION BASE setting": an explicit one
    # is forgotten only by CLEAR/NEW/RUN (Arrays.clear), never by ERASE
    cls = ctx.cls(A + ':Arrays')
    resets = []
    for m in class_methods(cls).values():
        if m.name in ('__init__', 'clear', 'clear_base'):
            continue
        mfl = None
        for n in own_nodes(m):
            hit = (isinstance(n, ast.Call) and norm(n.func) == 'self.clear_base') or (
                isinstance(n, ast.Assign) and norm(n.targets[0]) == 'self._base' and isinstance(n.value, ast.Constant) and n.value.value is None)
            if hit:
                mfl = mfl or ctx.flow(m)
                resets.append(m.name)
                rep.ob('option-base.explicit-survives', '%s unsets the array base only when DIM had set it implicitly' % m.name,
                       mfl.knows(n, 'self._base_set_by_dim', True), 'an explicit OPTION BASE is forgotten here: later arrays silently get the other lower bound', ctx.where(n))
    rep.floor('option-base.explicit-survives', len(resets), 1, 'conditional base resets (ERASE of the last array)')
    setters = [(m.name, n) for m in class_methods(cls).values() for n in own_nodes(m)
               if isinstance(n, ast.Assign) and norm(n.targets[0]) == 'self._base_set_by_dim' and isinstance(n.value, ast.Constant) and n.value.value is True]
    rep.ob('option-base.implicit-flag', 'the implicit-base flag is set only where DIM finds no base in force',
           len(setters) == 1 and setters[0][0] == 'allocate' and isinstance(setters[0][1]._parent, ast.If)
           and setters[0][1] in setters[0][1]._parent.body and norm(setters[0][1]._parent.test) == 'self._base is None',
           repr([x[0] for x in setters]), ctx.where(al))


def _checked_under_nonempty(fn, callnode):
    """`if indices != []: self.arrays.check_dim(name, indices)` precedes the call in the same block."""
    st = callnode
    while not isinstance(st, ast.stmt):
        st = st._parent
    blk = st._parent.body if st in getattr(st._parent, 'body', []) else (st._parent.orelse if st in getattr(st._parent, 'orelse', []) else [])
    for s in blk[:blk.index(st)] if st in blk else []:
        if isinstance(s, ast.If) and norm(s.test) == 'indices != []' and any(
                isinstance(c, ast.Call) and norm(c.func).endswith('arrays.check_dim') and [norm(a) for a in c.args] == ['name', 'indices'] for c in own_nodes(s)):
            return True
    return False


def variants(ctx):
    Va = mu.Variant

    def in_fn(f_name, f):
        return lambda tree: f(mu.find_def(tree, f_name))

    return [
        Va('upper-bound-off-by-one', 'break', A,
           in_fn('Arrays.check_dim', lambda fn: mu.replace_expr(fn, mu.text_is('i < self._base or i > d'), 'i < self._base or i > d + 1')), expect='bounds.pass-set'),
        Va('lower-bound-dropped', 'break', A,
           in_fn('Arrays.check_dim', lambda fn: mu.replace_expr(fn, mu.text_is('i < self._base or i > d'), 'i > d')), expect='bounds.pass-set'),
        Va('rank-unchecked', 'break', A,
           in_fn('Arrays.check_dim', lambda fn: mu.remove_stmt(fn, mu.stmt_has('len(index) != len(dimensions)', ast.If))), expect='bounds.rank'),
        Va('allocate-refuses-only-if-all-bounds-below-base', 'break', A,
           in_fn('Arrays.allocate', lambda fn: mu.replace_expr(fn, mu.text_is('any(_d < self._base for _d in dimensions)'), 'all(_d < self._base for _d in dimensions)')), expect='allocate.every-bound-tested'),
        Va('get-of-undeclared-array-returns-null', 'break', A,
           in_fn('Arrays.get', lambda fn: mu.insert_first(fn, "if name not in self._dims:\n    return self._values.new(name[-1:])")), expect='accessors.through-view-buffer'),
        Va('erase-returns-space-of-last-array-only', 'break', A, in_fn('Arrays.erase_', _dedent_decrement), expect='erase.space-returned-per-array'),
        Va('subscripts-converted-unsigned', 'break', 'pcbasic/basic/parser/expressions.py',
           lambda tree: mu.replace_expr(mu.find_def(tree, 'ExpressionParser.parse_indices'), mu.text_is('values.to_int(expr)'), 'values.to_int(expr, unsigned=True)'), expect='subscripts.signed-conversion'),
        Va('allocate-checks-buffer-only', 'break', A,
           in_fn('Arrays.allocate', lambda fn: mu.replace_expr(fn, mu.text_is('self._memory.check_free(total_bytes, error.OUT_OF_MEMORY)'), 'self._memory.check_free(array_bytes, error.OUT_OF_MEMORY)')), expect='allocate.checks-what-it-takes'),
        Va('auto-dim-11', 'break', A,
           in_fn('Arrays.check_dim', lambda fn: mu.replace_expr(fn, mu.text_is('[10] * len(index)'), '[11] * len(index)')), expect='auto-dim'),
        Va('radix-too-small', 'break', A,
           in_fn('Arrays.index', lambda fn: mu.replace_expr(fn, mu.text_is('dimensions[i] + 1 - self._base'), 'dimensions[i] - self._base')), expect='index.digit-max'),
        Va('digit-not-rebased', 'break', A,
           in_fn('Arrays.index', lambda fn: mu.replace_expr(fn, mu.text_is('index[i] - self._base'), 'index[i]')), expect='index.digit-min'),
        Va('area-updated-first', 'break', A, in_fn('Arrays.index', _swap_loop_body), expect='index.shape'),
        Va('view-buffer-skips-check', 'break', A,
           in_fn('Arrays.view_buffer', lambda fn: mu.replace_stmt(fn, mu.stmt_has('self.check_dim(name, index)', ast.Assign),
                                                                 'dimensions, lst = self._dims[name], self._buffers[name]')), expect='guarded-index'),
        Va('varptr-skips-check', 'break', M,
           in_fn('DataSegment.varptr_', lambda fn: mu.remove_stmt(fn, lambda st: isinstance(st, ast.If) and norm(st.test) == 'indices != []')), expect='guarded-index'),
        Va('redim-allowed', 'break', A,
           in_fn('Arrays.allocate', lambda fn: mu.remove_stmt(fn, mu.stmt_has('name in self._dims', ast.If))), expect='allocate'),
        Va('erase-keeps-dims', 'break', A,
           in_fn('Arrays.erase_', lambda fn: mu.remove_stmt(fn, mu.text_is('del self._dims[name]'))), expect='erase.tables'),
        Va('erase-forgets-explicit-base', 'break', A,
           in_fn('Arrays.erase_', lambda fn: mu.replace_expr(fn, mu.text_is('not self._dims and self._base_set_by_dim'), 'not self._dims')), expect='option-base.explicit-survives'),
        Va('loop-var-renamed', 'neutral', A, in_fn('Arrays.check_dim', lambda fn: mu.rename_local(fn, 'i', 'sub'))),
    ]


def _swap_loop_body(fn):
    lp = [n for n in fn.body if isinstance(n, ast.For)][0]
    lp.body.reverse()
    return True


def _dedent_decrement(fn):
    lp = [f for f in fn.body if isinstance(f, ast.For)]
    if len(lp) != 1:
        return False
    st = [x for x in lp[0].body if isinstance(x, ast.AugAssign) and norm(x.target) == 'self.current']
    if len(st) != 1:
        return False
    lp[0].body.remove(st[0])
    fn.body.insert(fn.body.index(lp[0]) + 1, st[0])
    return True


"""
C44 -- TIME$, DATE$ and ENVIRON read back what was set (structural half).

Decides:
 * validation: every user-derived component handed to the validating host
   constructor datetime.datetime(...) in Clock.time_/date_ either has a
   *two-sided* guard interval inside the constructor's domain (hour 0..23,
   minute/second 0..59) or the constructor call sits in a try that converts
   ValueError to Illegal function call (dates: day-of-month depends on the
   month) -- today's time_ had upper bounds only (repaired in /repo dde3198b);
   non-numeric components (int() ValueError) and a wrong component count raise
   IFC;
 * "changes nothing": every raise in time_/date_ precedes the single store
   `self.time_offset += newtime - now`; the clock is kept as an offset to the
   host clock, so TIME$ advances by elapsed seconds; the getters format
   now + offset as %H:%M:%S / %m-%d-%Y;
 * the two-digit year window (00..77 -> 20xx, 80..99 -> 19xx) is applied before
   the constructor; years 78, 79, 100..1979 and > 2099 are refused;
 * ENVIRON: _setenv and _getenv both upper-case the ASCII key; the statement
   splits at the first '=' and refuses an empty name; host refusals
   (ValueError, e.g. NUL bytes) are converted to IFC (repaired in /repo
   816c2cff); ENVIRON$ by index is range-checked 1..255.
"""
import ast

from ..source import norm, short
from ..flow import own_nodes
from ..intervals import bounds
from .. import mutate as mu

PROP = 'C44'
LEVEL = 'other'
TECHNIQUE = 'static analysis: two-sided guard intervals for arguments of validating host constructors, raise-before-store ordering, sibling agreement of key normalisation'
EXPLANATION = __doc__

CLOCK = 'pcbasic/basic/clock.py'
DOS = 'pcbasic/basic/dos.py'
DOMAIN = {3: (0, 23, 'hour'), 4: (0, 59, 'minute'), 5: (0, 59, 'second')}


def check(ctx, rep):
    # TIME$ = "hh" / "hh:mm": the fields left out are zero, not the current time
    tm = ctx.fn('pcbasic/basic/clock.py:Clock.time_')
    pads = [a for a in own_nodes(tm) if isinstance(a, ast.AugAssign) and norm(a.target) == 'timelist' and isinstance(a.op, ast.Add)]
    okp = len(pads) == 1 and isinstance(pads[0].value, ast.BinOp) and isinstance(pads[0].value.op, ast.Mult) and norm(pads[0].value.left) == '[0]' \
        and norm(pads[0].value.right) in ('3 - len(timelist)', '(3 - len(timelist))')
    rep.ob('time.omitted-fields-are-zero', 'Clock.time_ pads a short time with zeros up to three fields', okp,
           repr([norm(p_.value) for p_ in pads]) + ': TIME$="10:30" does not read back as 10:30:00', ctx.where(tm))
    # ENVIRON stores the value as given: nothing rewrites it between the split at `=` and the conversion
    se = ctx.fn('pcbasic/basic/dos.py:Environment._setenv')
    rebinds = [a for a in own_nodes(se) if isinstance(a, (ast.Assign, ast.AugAssign)) and norm(a.targets[0] if isinstance(a, ast.Assign) else a.target) == 'value']
    conv = [a for a in own_nodes(se) if isinstance(a, ast.Assign) and norm(a.value) == 'self._codepage.bytes_to_unicode(value)']
    rep.ob('environ.value-stored-as-given', 'Environment._setenv converts and stores the value parameter unchanged', not rebinds and len(conv) == 1,
           'the value is rewritten before it is stored (%s): what ENVIRON$ returns differs from what ENVIRON set' % [short(r, 40) for r in rebinds], ctx.where(se))
    # ENVIRON$ reads the host environment every time: the Environment object keeps no copy of a value (a cache keyed before the
    # name is upper-cased goes stale after ENVIRON "name=..." )
    env = ctx.cls('pcbasic/basic/dos.py:Environment')
    from ..source import class_methods as _cm
    state = set()
    for m in _cm(env).values():
        for a in own_nodes(m):
            if isinstance(a, (ast.Assign, ast.AugAssign)):
                for t in (a.targets if isinstance(a, ast.Assign) else [a.target]):
                    base = t
                    while isinstance(base, ast.Subscript):
                        base = base.value
                    if isinstance(base, ast.Attribute) and norm(base.value) == 'self':
                        state.add(base.attr)
    rep.ob('environ.no-copy-of-the-environment', 'Environment holds nothing but the value factory and the codepage', state <= {'_values', '_codepage'},
           'attributes %r: a value kept in the object can differ from the host environment that ENVIRON has just set' % sorted(state - {'_values', '_codepage'}),
           'pcbasic/basic/dos.py')
    ge = ctx.fn('pcbasic/basic/dos.py:Environment._getenv')
    rets = [r for r in own_nodes(ge) if isinstance(r, ast.Return) and r.value is not None]
    rep.ob('environ.no-copy-of-the-environment', '_getenv returns the converted value of getenvu(name) read at the call',
           len(rets) == 1 and 'getenvu(ukey' in norm(rets[0].value), repr([norm(r.value) for r in rets]), ctx.where(ge))
    n_args = 0
    for meth in ('time_', 'date_'):
        fn = ctx.fn('%s:Clock.%s' % (CLOCK, meth))
        fl = ctx.flow(fn)
        ctors = [c for c in own_nodes(fn) if isinstance(c, ast.Call) and norm(c.func) == 'datetime.datetime' and len(c.args) >= 6]
        rep.ob('validate.constructor-found', 'Clock.%s builds the new moment with datetime.datetime' % meth, len(ctors) == 1, '', ctx.where(fn))
        for c in ctors:
            protected = fl.in_try_catching(c, ('ValueError',))
            hcode = None
            if protected is not None:
                hcode = [ctx.basic_error_code(r) for r in own_nodes(protected) if isinstance(r, ast.Raise)]
            for i, a in enumerate(c.args):
                t = norm(a)
                if t.startswith('now.'):
                    continue
                n_args += 1
                if protected is not None and hcode == ['ILLEGAL_FUNCTION_CALL']:
                    rep.ob('validate.user-component', 'Clock.%s: %s is validated by the constructor inside try/except ValueError -> IFC' % (meth, t), True)
                    continue
                b = bounds(ctx, fl.facts(c), t)
                lo, hi, what = DOMAIN.get(i, (None, None, 'component'))
                ok = b.lo() is not None and b.hi() is not None and lo is not None and b.lo() >= lo and b.hi() <= hi
                rep.ob('validate.user-component', 'Clock.%s: %s (%s) is bounded on both sides within %s..%s' % (meth, t, what, lo, hi), ok,
                       'bounds known at the constructor: %s -- a value outside lets ValueError escape' % b.describe(), ctx.where(c))
        # raises before the store
        stores = [s for s in own_nodes(fn) if isinstance(s, ast.AugAssign) and norm(s.target) == 'self.time_offset']
        raises = [r for r in own_nodes(fn) if isinstance(r, ast.Raise)]
        rep.ob('atomic.raise-before-store', 'Clock.%s: every refusal precedes the single update of the offset' % meth,
               len(stores) == 1 and norm(stores[0]) == 'self.time_offset += newtime - now' and all(r.lineno < stores[0].lineno for r in raises), '', ctx.where(fn))
        others = [s for s in own_nodes(fn) if isinstance(s, (ast.Assign, ast.AugAssign)) and any(norm(t).startswith('self.') for t in (s.targets if isinstance(s, ast.Assign) else [s.target]))
                  and s not in stores]
        rep.ob('atomic.no-other-state', 'Clock.%s changes no other state' % meth, not others, repr([short(o) for o in others]), ctx.where(fn))
        # int() conversion protected
        ints = [c for c in own_nodes(fn) if isinstance(c, ast.Call) and norm(c.func) == 'int']
        okints = bool(ints) and all(fl.in_try_catching(c, ('ValueError',)) is not None for c in ints)
        rep.ob('validate.non-numeric', 'Clock.%s: non-numeric components raise IFC' % meth, okints, '', ctx.where(fn))
        cnt = [r for r, c in ctx.raises_in(fn) if c == 'ILLEGAL_FUNCTION_CALL' and any('len(strlist)' in f.text and f.pol for f in fl.facts(r))]
        rep.ob('validate.component-count', 'Clock.%s: a wrong number of components raises IFC' % meth, len(cnt) == 1, '', ctx.where(fn))
        nowa = [a for a in own_nodes(fn) if isinstance(a, ast.Assign) and norm(a.targets[0]) == 'now']
        rep.ob('offset.relative-to-host-clock', 'Clock.%s: `now` is host time plus the current offset' % meth,
               len(nowa) == 1 and norm(nowa[0].value) == 'datetime.datetime.now() + self.time_offset', '', ctx.where(fn))
    rep.floor('validate.user-component', n_args, 6, 'user components')
    # year window
    d = ctx.fn(CLOCK + ':Clock.date_')
    fl = ctx.flow(d)
    win = {}
    for a in own_nodes(d):
        if isinstance(a, ast.Assign) and norm(a.targets[0]) == 'datelist[2]':
            win[norm(a.value)] = sorted(f.text for f in fl.facts(a) if f.pol and 'datelist[2]' in f.text)
    rep.ob('date.year-window', 'two-digit years: 0..77 -> 2000+, 80..99 -> 1900+',
           win == {'2000 + datelist[2]': ['datelist[2] <= 77'], '1900 + datelist[2]': ['datelist[2] < 100', 'datelist[2] < 100 and datelist[2] > 79', 'datelist[2] > 79']},
           repr(win), ctx.where(d))
    ref = [r for r, c in ctx.raises_in(d) if c == 'ILLEGAL_FUNCTION_CALL' and any('datelist[0] > 12' in f.text and f.pol for f in fl.facts(r))]
    ok = len(ref) == 1
    if ok:
        t = [f.text for f in fl.facts(ref[0]) if f.pol and 'datelist[0] > 12' in f.text][0]
        ok = 'datelist[1] > 31' in t and 'datelist[2] > 77 and datelist[2] < 80' in t and 'datelist[2] > 2099' in t and 'datelist[2] < 1980' in t
    rep.ob('date.refused-ranges', 'month > 12, day > 31, years 78-79, 100-1979 and > 2099 are refused', ok, '', ctx.where(d))
    for meth, fmt in (('time_fn_', "'%H:%M:%S'"), ('date_fn_', "'%m-%d-%Y'")):
        fn = ctx.fn('%s:Clock.%s' % (CLOCK, meth))
        a = [norm(x.value) for x in own_nodes(fn) if isinstance(x, ast.Assign)]
        rep.ob('getter.format', 'Clock.%s formats host time + offset as %s' % (meth, fmt), a == ['(datetime.datetime.now() + self.time_offset).strftime(%s)' % fmt], repr(a), ctx.where(fn))
    # ENVIRON
    se = ctx.fn(DOS + ':Environment._setenv')
    ge = ctx.fn(DOS + ':Environment._getenv')
    for fn in (se, ge):
        st = [norm(s) for s in own_nodes(fn) if isinstance(s, ast.Assign)]
        rep.ob('environ.case-insensitive-names', '%s upper-cases the ASCII name' % fn.name, "ukey = key.decode('ascii')" in st and 'ukey = ukey.upper()' in st
               and st.index("ukey = key.decode('ascii')") < st.index('ukey = ukey.upper()'), repr(st), ctx.where(fn))
        fl = ctx.flow(fn)
        dec = [c for c in own_nodes(fn) if isinstance(c, ast.Call) and norm(c) == "key.decode('ascii')"]
        h = fl.in_try_catching(dec[0], ('UnicodeError', 'UnicodeDecodeError')) if dec else None
        rep.ob('environ.non-ascii-name', '%s: a non-ASCII name raises IFC' % fn.name,
               h is not None and [ctx.basic_error_code(r) for r in own_nodes(h) if isinstance(r, ast.Raise)] == ['ILLEGAL_FUNCTION_CALL'], '', ctx.where(fn))
    fl = ctx.flow(se)
    sc = [c for c in own_nodes(se) if isinstance(c, ast.Call) and norm(c.func) == 'setenvu']
    h = fl.in_try_catching(sc[0], ('ValueError',)) if sc else None
    rep.ob('environ.host-refusal-is-ifc', 'a host refusal of name/value (ValueError, e.g. NUL byte) becomes IFC',
           len(sc) == 1 and h is not None and [ctx.basic_error_code(r) for r in own_nodes(h) if isinstance(r, ast.Raise)] == ['ILLEGAL_FUNCTION_CALL'],
           'setenvu(...) is called outside try/except ValueError', ctx.where(se))
    rep.ob('environ.same-store', 'setenv stores under the upper-cased key and getenv reads the same key',
           bool(sc) and norm(sc[0].args[0]) == 'ukey' and any(norm(c) == "getenvu(ukey, u'')" or norm(c) == "getenvu(ukey, '')" for c in own_nodes(ge) if isinstance(c, ast.Call)), '', ctx.where(se))
    es = ctx.fn(DOS + ':Environment.environ_statement_')
    fl = ctx.flow(es)
    r = [x for x, c in ctx.raises_in(es) if c == 'ILLEGAL_FUNCTION_CALL']
    call = [c for c in own_nodes(es) if isinstance(c, ast.Call) and norm(c.func) == 'self._setenv']
    rep.ob('environ.statement', "ENVIRON splits at the first '=' and refuses an empty name",
           len(r) == 1 and fl.knows(r[0], 'eqs <= 0', True) and len(call) == 1 and [norm(a) for a in call[0].args] == ['envstr[:eqs]', 'envstr[eqs + 1:]']
           and any(norm(a) == "eqs = envstr.find(b'=')" for a in own_nodes(es) if isinstance(a, ast.Assign)), '', ctx.where(es))
    ef = ctx.fn(DOS + ':Environment.environ_')
    fl = ctx.flow(ef)
    gi = [c for c in own_nodes(ef) if isinstance(c, ast.Call) and norm(c.func) == 'self._getenv_item']
    ok = False
    if gi:
        b = bounds(ctx, fl.facts(gi[0]), 'index')
        ok = (b.lo(), b.hi()) == (1, 255) and norm(gi[0].args[0]) == 'index - 1'
    rep.ob('environ.index-range', 'ENVIRON$(n) requires 1 <= n <= 255', ok, '', ctx.where(ef))
    ek = [r for r, c in ctx.raises_in(ef) if c == 'ILLEGAL_FUNCTION_CALL' and fl.knows(r, 'not key', True)]
    rep.ob('environ.empty-name', 'ENVIRON$("") raises IFC', len(ek) == 1, '', ctx.where(ef))


def variants(ctx):
    Va = mu.Variant

    def in_fn(f_name, f):
        return lambda tree: f(mu.find_def(tree, f_name))

    old_cond = 'timelist[0] < 0 or timelist[0] > 23 or timelist[1] < 0 or (timelist[1] > 59) or (timelist[2] < 0) or (timelist[2] > 59)'
    return [
        mu.Variant('short-time-padded-from-the-clock', 'break', 'pcbasic/basic/clock.py',
                   lambda tree: mu.replace_expr(mu.find_def(tree, 'Clock.time_'), mu.text_is('[0] * (3 - len(timelist))'), '[now.hour, now.minute, now.second][len(timelist):]'), expect='time.omitted-fields-are-zero'),
        mu.Variant('lone-semicolon-value-cleared', 'break', 'pcbasic/basic/dos.py',
                   lambda tree: mu.insert_before(mu.find_def(tree, 'Environment._setenv'), lambda st: isinstance(st, ast.Assign) and 'bytes_to_unicode(value)' in norm(st.value), "if value == b';':\n    value = b''"), expect='environ.value-stored-as-given'),
        mu.Variant('environ-values-cached-in-the-object', 'break', 'pcbasic/basic/dos.py',
                   lambda tree: mu.insert_first(mu.find_def(tree, 'Environment._getenv'), "self._cache = getattr(self, '_cache', {})"), expect='environ.no-copy-of-the-environment'),
        Va('time-upper-bounds-only', 'break', CLOCK,
           in_fn('Clock.time_', lambda fn: mu.replace_expr(fn, lambda n: isinstance(n, ast.BoolOp) and 'timelist[0] < 0' in norm(n),
                                                          'timelist[0] > 23 or timelist[1] > 59 or timelist[2] > 59')), expect='validate.user-component'),
        Va('time-hour-24', 'break', CLOCK,
           in_fn('Clock.time_', lambda fn: mu.replace_expr(fn, mu.text_is('timelist[0] > 23'), 'timelist[0] > 24')), expect='validate.user-component'),
        Va('date-constructor-unprotected', 'break', CLOCK, in_fn('Clock.date_', _unwrap_last_try), expect='validate.user-component'),
        Va('time-store-before-check', 'break', CLOCK, in_fn('Clock.time_', _store_first), expect='atomic'),
        Va('time-int-unprotected', 'break', CLOCK, in_fn('Clock.time_', _unwrap_first_try), expect='validate.non-numeric'),
        Va('year-window-shifted', 'break', CLOCK,
           in_fn('Clock.date_', lambda fn: mu.replace_expr(fn, mu.text_is('datelist[2] <= 77'), 'datelist[2] <= 70')), expect='date.year-window'),
        Va('setenv-case-sensitive', 'break', DOS,
           in_fn('Environment._setenv', lambda fn: mu.remove_stmt(fn, mu.text_is('ukey = ukey.upper()'))), expect='environ.case'),
        Va('setenv-host-error-escapes', 'break', DOS, in_fn('Environment._setenv', _unwrap_last_try), expect='environ.host-refusal'),
        Va('environ-empty-name-accepted', 'break', DOS,
           in_fn('Environment.environ_statement_', lambda fn: mu.replace_expr(fn, mu.text_is('eqs <= 0'), 'eqs < 0')), expect='environ.statement'),
        Va('time-fn-12-hour', 'break', CLOCK,
           in_fn('Clock.time_fn_', lambda fn: mu.replace_expr(fn, lambda n: isinstance(n, ast.Constant) and n.value == '%H:%M:%S', "'%I:%M:%S'")), expect='getter'),
        Va('time-range-check-helper', 'neutral', CLOCK,
           in_fn('Clock.time_', lambda fn: mu.replace_stmt(fn, lambda st: isinstance(st, ast.If) and 'timelist[0] < 0' in norm(st.test),
                                                          'error.range_check(0, 23, timelist[0])\nerror.range_check(0, 59, timelist[1], timelist[2])'))),
    ]


def _unwrap_last_try(fn):
    tr = [n for n in ast.walk(fn) if isinstance(n, ast.Try)][-1]
    for owner in ast.walk(fn):
        b = getattr(owner, 'body', None)
        if isinstance(b, list) and tr in b:
            i = b.index(tr)
            b[i:i + 1] = tr.body
            return True
    return False


def _unwrap_first_try(fn):
    tr = [n for n in ast.walk(fn) if isinstance(n, ast.Try)][0]
    for owner in ast.walk(fn):
        b = getattr(owner, 'body', None)
        if isinstance(b, list) and tr in b:
            i = b.index(tr)
            b[i:i + 1] = tr.body
            return True
    return False


def _store_first(fn):
    st = [s for s in fn.body if isinstance(s, ast.AugAssign)][0]
    fn.body.remove(st)
    k = [i for i, s in enumerate(fn.body) if isinstance(s, ast.Assign) and norm(s.targets[0]) == 'now'][0]
    fn.body.insert(k + 1, ast.parse('self.time_offset += datetime.timedelta(0)').body[0])
    fn.body.append(st)
    return True

"""
C21 -- error trapping reports and resumes at the right place (structural half).

Decides:
 * funnel: Interpreter.parse() wraps event handling and statement execution
   in one try whose only handler is `except BASICError -> self.trap_error(e)`;
 * trap_error records ERR and the error position, and jumps to the handler iff
   a handler is set (not None, not 0) and no error is being handled; on that
   branch it records error_resume = (current_statement, run_mode) *before* the
   jump, then sets error_handle_mode; otherwise it clears error_handle_mode,
   leaves run mode and re-raises the same error (error inside a handler, or no
   handler: the message names the line);
 * the default position of an error is the current code position in run mode
   and -1 (direct mode) otherwise;
 * resume_: raises RESUME without error iff error_resume is None; otherwise
   clears ERR, error_handle_mode, error_resume and trap suspension before
   moving, and has exactly the three forms RESUME [0] (re-execute at the saved
   statement), RESUME NEXT (saved statement, then skip to the end of it) and
   RESUME n (jump);
 * err_/erl_ read the fields trap_error wrote; ERL maps position 0 -> 0,
   -1 -> 65535, else the line containing the position;
 * ON ERROR GOTO checks that the line exists, stores it, and inside a handler
   ON ERROR GOTO 0 re-raises the pending error; writers of on_error /
   error_resume / error_handle_mode are a closed set.
Not decided: statement-pointer arithmetic.
"""
import ast

from ..source import norm, short, qualname
from ..flow import own_nodes
from .. import mutate as mu

PROP = 'C21'
LEVEL = 'other'
TECHNIQUE = 'static analysis: exception-funnel shape, path facts and statement ordering in trap_error/resume_, who-may-write for trap state'
EXPLANATION = __doc__

INTERP = 'pcbasic/basic/interpreter.py'
IMPL = 'pcbasic/basic/implementation.py'


def _idx(stmts, text):
    for i, s in enumerate(stmts):
        if norm(s) == text:
            return i
    return None


def _position_survives_def_fn(ctx, rep):
    """ERL and the resume point are read from the code pointer at the time of the error: a DEF FN body is
    parsed from another place in the program, so the pointer must be put back even when the body raises
    (shared with C20, whose module owns the analysis of UserFunction.evaluate)."""
    from . import c20
    sub = type(rep)('C20')
    c20.check(ctx, sub)
    mine = [f for f in sub.findings if f.rule.startswith('codestream')]
    for f in mine:
        rep.ob('position.restored-after-def-fn-error', f.construct, False,
               'an error inside a DEF FN body is reported (ERL, "in <line>") at the DEF FN line instead of the calling line', f.where)
    tot = sum(v[0] for r, v in sub.by_rule.items() if r.startswith('codestream'))
    rep.ob('position.restored-after-def-fn-error', 'UserFunction.evaluate restores the code pointer in its finally block', not mine and tot >= 1 and not sub.errors,
           '; '.join(sub.errors))


def _resume_forms(ctx, rep):
    """RESUME without an argument is recognised wherever the statement ends -- at a colon or ELSE as well as at the end
    of the line (`IF c THEN RESUME ELSE ...`, `RESUME: REM`); RESUME NEXT by its keyword; anything else is a line number."""
    pr = ctx.fn('pcbasic/basic/parser/statements.py:Parser._parse_resume')
    fl = ctx.flow(pr)
    ys = [y for y in own_nodes(pr) if isinstance(y, ast.Yield)]
    forms = {}
    for y in ys:
        facts = [(f.text, f.pol) for f in fl.facts(y)]
        forms[norm(y.value) if y.value is not None else 'None'] = facts
    rep.ob('resume.forms', '_parse_resume: bare RESUME iff the next token ends the statement (tk.END_STATEMENT)',
           forms.get('None') == [('c == tk.NEXT', False), ('c in tk.END_STATEMENT', True)], repr(forms.get('None')), ctx.where(pr))
    rep.ob('resume.forms', '_parse_resume: RESUME NEXT iff the next token is NEXT', forms.get('ins.read(1)') == [('c == tk.NEXT', True)], repr(forms.get('ins.read(1)')), ctx.where(pr))
    rep.ob('resume.forms', '_parse_resume: otherwise a line number', forms.get('self._parse_jumpnum(ins)') == [('c == tk.NEXT', False), ('c in tk.END_STATEMENT', False)],
           repr(forms.get('self._parse_jumpnum(ins)')), ctx.where(pr))
    # nowhere in the statement parser is "no more arguments" decided by the end of the LINE
    n = 0
    bad = []
    for fn in ctx.idx.functions('pcbasic/basic/parser/statements.py'):
        for c in own_nodes(fn):
            if isinstance(c, ast.Compare) and isinstance(c.ops[0], (ast.In, ast.NotIn)):
                rhs = norm(c.comparators[0])
                if 'END_STATEMENT' in rhs:
                    n += 1
                if 'END_LINE' in rhs:
                    bad.append((fn, c))
    for fn, c in bad:
        rep.ob('resume.statement-end-not-line-end', '%s: %s' % (fn.name, short(c, 50)), False,
               'an optional argument is taken to be absent only at the end of the line: the same statement followed by `:` or ELSE is a Syntax error', ctx.where(c))
    rep.floor('resume.statement-end-not-line-end', n, 6, 'end-of-statement tests in the statement parser')


def _read_errors_name_the_read_line(ctx, rep):
    from . import c22, _share
    _share.share(ctx, rep, c22, ('read.position-restored-before-assignment', 'read.out-of-data'),
                 'an error raised while READ assigns an item (Overflow, Subscript out of range, Out of DATA) is reported, trapped and resumed at the READ statement: '
                 'the code pointer is put back from the DATA line first')


def check(ctx, rep):
    _position_survives_def_fn(ctx, rep)
    _resume_forms(ctx, rep)
    _read_errors_name_the_read_line(ctx, rep)
    parse = ctx.fn(INTERP + ':Interpreter.parse')
    tries = [n for n in own_nodes(parse) if isinstance(n, ast.Try)]
    ok = len(tries) == 1 and len(tries[0].handlers) == 1 and norm(tries[0].handlers[0].type) == 'error.BASICError' \
        and [norm(s) for s in tries[0].handlers[0].body] == ['self.trap_error(e)'] and not tries[0].finalbody
    rep.ob('funnel.shape', 'parse(): one try; except BASICError as e: self.trap_error(e)', ok, '', ctx.where(parse))
    if tries:
        inside = [norm(c.func) for s in tries[0].body for c in own_nodes(s) if isinstance(c, ast.Call)]
        rep.ob('funnel.covers-statements', 'statement execution and event dispatch are inside the try',
               'self.parser.parse_statement' in inside and 'self.handle_basic_events' in inside, repr(inside[:6]), ctx.where(tries[0]))
    # trap_error
    te = ctx.fn(INTERP + ':Interpreter.trap_error')
    fl = ctx.flow(te)
    top = [s for s in te.body if isinstance(s, ast.If)]
    branch = [s for s in top if 'self.on_error' in norm(s.test)]
    rep.ob('trap.condition', 'jump iff handler set, non-zero and not already handling',
           len(branch) == 1 and norm(branch[0].test) == 'self.on_error is not None and self.on_error != 0 and (not self.error_handle_mode)',
           norm(branch[0].test) if branch else 'none', ctx.where(te))
    rec = [_idx(te.body, 'self.error_num = e.err'), _idx(te.body, 'self.error_pos = e.pos')]
    rep.ob('trap.records-err-erl', 'ERR and position are recorded before deciding', None not in rec and bool(branch) and max(rec) < te.body.index(branch[0]),
           repr(rec), ctx.where(te))
    if branch:
        b = branch[0]
        order = [_idx(b.body, 'self.error_resume = (self.current_statement, self.run_mode)'), _idx(b.body, 'self.jump(self.on_error)'),
                 _idx(b.body, 'self.error_handle_mode = True')]
        rep.ob('trap.resume-point-before-jump', 'error_resume=(current_statement, run_mode) is recorded before the jump; then handle mode is set',
               None not in order and order == sorted(order), repr(order), ctx.where(b))
        els = [norm(s) for s in b.orelse]
        rep.ob('trap.untrapped-reraises', 'otherwise: leave handle mode, stop running, re-raise the same error',
               els == ['self.error_handle_mode = False', 'self.set_pointer(False)', 'raise e'], repr(els), ctx.where(b))
    pos_assign = {}
    for n in own_nodes(te):
        if isinstance(n, ast.Assign) and norm(n.targets[0]) == 'e.pos':
            facts = dict((f.text, f.pol) for f in fl.facts(n))
            pos_assign[norm(n.value)] = (facts.get('e.pos is None'), facts.get('self.run_mode'))
    rep.ob('trap.default-position', 'missing position defaults to the code pointer in run mode, -1 in direct mode',
           pos_assign == {'self._program_code.tell() - 1': (True, True), '-1': (True, False)}, repr(pos_assign), ctx.where(te))
    # resume_
    rs = ctx.fn(INTERP + ':Interpreter.resume_')
    fl = ctx.flow(rs)
    rr = [r for r, c in ctx.raises_in(rs) if c == 'RESUME_WITHOUT_ERROR']
    rep.ob('resume.without-error', 'RESUME outside a handler raises RESUME without error', len(rr) == 1 and fl.knows(rr[0], 'self.error_resume is None', True), '', ctx.where(rs))
    clears = [_idx(rs.body, t) for t in ('self.error_num = 0', 'self.error_handle_mode = False', 'self.error_resume = None', 'self._basic_events.suspend_all = False')]
    moves = [s for s in rs.body if isinstance(s, ast.If) and 'where' in norm(s.test)]
    rep.ob('resume.clears-state-before-moving', 'handler state is cleared before the pointer moves',
           None not in clears and len(moves) == 1 and max(clears) < rs.body.index(moves[0]), repr(clears), ctx.where(rs))
    saved = [n for n in rs.body if isinstance(n, ast.Assign) and norm(n.value) == 'self.error_resume']
    rep.ob('resume.reads-saved-point', 'resume_ unpacks (start_statement, runmode) from error_resume before clearing it',
           len(saved) == 1 and clears[2] is not None and rs.body.index(saved[0]) < clears[2], '', ctx.where(rs))
    forms = {}
    if moves:
        node = moves[0]
        while isinstance(node, ast.If):
            forms[norm(node.test)] = [norm(s) for s in node.body]
            if len(node.orelse) == 1 and isinstance(node.orelse[0], ast.If):
                node = node.orelse[0]
            else:
                forms['else'] = [norm(s) for s in node.orelse]
                node = None
    rep.ob('resume.three-forms', 'RESUME [0] / RESUME NEXT / RESUME n',
           forms == {
               'not where': ['self.set_pointer(runmode, start_statement)'],
               'where == tk.NEXT': ['self.set_pointer(runmode, start_statement)',
                                    'self.get_codestream().skip_to(tk.END_STATEMENT, break_on_first_char=False)'],
               'else': ['self.jump(where)']}, repr(forms), ctx.where(rs))
    # err_/erl_
    er = ctx.fn(INTERP + ':Interpreter.err_')
    rep.ob('err.reads-error_num', 'ERR returns error_num', norm([r for r in own_nodes(er) if isinstance(r, ast.Return)][0].value) ==
           'self._values.new_integer().from_int(self.error_num)', '', ctx.where(er))
    el = ctx.fn(INTERP + ':Interpreter.erl_')
    fl = ctx.flow(el)
    m = {}
    for n in own_nodes(el):
        if isinstance(n, ast.Assign) and norm(n.targets[0]) == 'pos':
            facts = [(f.text, f.pol) for f in fl.facts(n) if 'self.error_pos' in f.text]
            m[norm(n.value)] = facts
    rep.ob('erl.mapping', 'ERL: 0 -> 0, -1 (direct mode) -> 65535, else line of the error position',
           m == {'0': [('self.error_pos == 0', True)], '65535': [('self.error_pos == 0', False), ('self.error_pos == -1', True)],
                 'self._program.get_line_number(self.error_pos)': [('self.error_pos == 0', False), ('self.error_pos == -1', False)]}, repr(m), ctx.where(el))
    rets_ = [norm(r.value) for r in own_nodes(el) if isinstance(r, ast.Return)]
    rep.ob('erl.wide-enough', 'ERL is returned as a single-precision number (line numbers and 65535 do not fit a signed integer)',
           rets_ == ['self._values.new_single().from_int(pos)'], repr(rets_), ctx.where(el))
    # on_error_goto_
    og = ctx.fn(INTERP + ':Interpreter.on_error_goto_')
    fl = ctx.flow(og)
    ul = [r for r, c in ctx.raises_in(og) if c == 'UNDEFINED_LINE_NUMBER']
    st = [n for n in own_nodes(og) if isinstance(n, ast.Assign) and norm(n) == 'self.on_error = linenum']
    rep.ob('onerror.validates-line', 'ON ERROR GOTO n requires an existing line (0 disables) before storing',
           len(ul) == 1 and fl.knows(ul[0], 'linenum != 0 and linenum not in self._program.line_numbers', True) and len(st) == 1
           and fl.knows(st[0], 'linenum != 0 and linenum not in self._program.line_numbers', False), '', ctx.where(og))
    rr = [r for r in own_nodes(og) if isinstance(r, ast.Raise) and norm(r.exc) == 'error.BASICError(self.error_num, self.error_pos)']
    rep.ob('onerror.goto-0-in-handler-reraises', 'ON ERROR GOTO 0 inside a handler stops with the pending error',
           len(rr) == 1 and fl.knows(rr[0], 'self.on_error == 0 and self.error_handle_mode', True), '', ctx.where(og))
    # who writes the trap state
    allowed = {
        'on_error': {'Interpreter._init_error_trapping', 'Interpreter.on_error_goto_', 'Interpreter.resume_', 'Interpreter.renum_', 'Implementation.run_'},
        'error_resume': {'Interpreter._init_error_trapping', 'Interpreter.trap_error', 'Interpreter.resume_', 'Implementation.end_'},
        'error_handle_mode': {'Interpreter._init_error_trapping', 'Interpreter.trap_error', 'Interpreter.resume_', 'Interpreter.parse',
                              'Implementation.end_', 'Implementation.run_', 'Implementation.term_'},
    }
    n_w = 0
    for fn in ctx.idx.functions('pcbasic/'):
        for n in own_nodes(fn):
            tg = n.targets if isinstance(n, ast.Assign) else ([n.target] if isinstance(n, ast.AugAssign) else [])
            for t in tg:
                for x in ast.walk(t):
                    if isinstance(x, ast.Attribute) and x.attr in allowed and isinstance(x.ctx, ast.Store):
                        who = qualname(fn).split(':')[1]
                        n_w += 1
                        rep.ob('state.writers', '%s writes %s' % (who, x.attr), who in allowed[x.attr],
                               'trap state written outside the known set', ctx.where(n))
    rep.floor('state.writers', n_w, 14, 'writes')
    # untrapped errors are reported with the line
    he = ctx.fn(IMPL + ':Implementation._handle_error')
    rep.ob('report.message-names-line', '_handle_error writes e.get_message(line of e.pos)',
           any(norm(c) == 'self.console.write(e.get_message(self.program.get_line_number(e.pos)))' for c in own_nodes(he) if isinstance(c, ast.Call)), '', ctx.where(he))
    hx = ctx.fn(IMPL + ':Implementation._handle_exceptions')
    types = [norm(h.type) for n in own_nodes(hx) if isinstance(n, ast.Try) for h in n.handlers]
    rep.ob('report.boundary', '_handle_exceptions handles Break, BASICError, Exit', types == ['error.Break', 'error.BASICError', 'error.Exit'], repr(types), ctx.where(hx))


def variants(ctx):
    Va = mu.Variant

    def in_fn(fname, f):
        return lambda tree: f(mu.find_def(tree, 'Interpreter.' + fname))

    def swap(fn, a, b):
        blk = [x for x in ast.walk(fn) if isinstance(x, ast.If) and 'self.on_error' in norm(x.test)][0].body
        ia, ib = _idx(blk, a), _idx(blk, b)
        blk[ia], blk[ib] = blk[ib], blk[ia]
        return True

    return [
        Va('bare-resume-only-at-line-end', 'break', 'pcbasic/basic/parser/statements.py',
           lambda tree: mu.replace_expr(mu.find_def(tree, 'Parser._parse_resume'), mu.text_is('c in tk.END_STATEMENT'), 'c in tk.END_LINE'), expect='resume.'),
        Va('resume-point-after-jump', 'break', INTERP,
           in_fn('trap_error', lambda fn: swap(fn, 'self.error_resume = (self.current_statement, self.run_mode)', 'self.jump(self.on_error)')),
           expect='trap.resume-point'),
        Va('trap-while-handling', 'break', INTERP,
           in_fn('trap_error', lambda fn: mu.replace_expr(fn, mu.text_is('self.on_error is not None and self.on_error != 0 and (not self.error_handle_mode)'),
                                                          'self.on_error is not None and self.on_error != 0')), expect='trap.condition'),
        Va('untrapped-swallowed', 'break', INTERP,
           in_fn('trap_error', lambda fn: mu.remove_stmt(fn, mu.text_is('raise e'))), expect='trap.untrapped'),
        Va('parse-catches-all', 'break', INTERP,
           in_fn('parse', _catch_all), expect='funnel'),
        Va('resume-next-re-executes', 'break', INTERP,
           in_fn('resume_', lambda fn: mu.remove_stmt(fn, mu.stmt_has('skip_to(tk.END_STATEMENT', ast.Expr))), expect='resume.three-forms'),
        Va('resume-keeps-handle-mode', 'break', INTERP,
           in_fn('resume_', lambda fn: mu.remove_stmt(fn, mu.text_is('self.error_handle_mode = False'))), expect='resume.clears'),
        Va('resume-without-error-unchecked', 'break', INTERP,
           in_fn('resume_', lambda fn: mu.replace_expr(fn, mu.text_is('error.RESUME_WITHOUT_ERROR'), 'error.NO_RESUME')), expect='resume.without-error'),
        Va('erl-as-integer', 'break', INTERP,
           in_fn('erl_', lambda fn: mu.replace_expr(fn, mu.text_is('self._values.new_single().from_int(pos)'), 'self._values.new_integer().from_int(pos, unsigned=True)')), expect='erl.wide'),
        Va('erl-direct-mode-zero', 'break', INTERP,
           in_fn('erl_', lambda fn: mu.replace_stmt(fn, mu.text_is('pos = 65535'), 'pos = 0')), expect='erl.mapping'),
        Va('err-reads-position', 'break', INTERP,
           in_fn('err_', lambda fn: mu.replace_expr(fn, mu.text_is('self.error_num'), 'self.error_pos')), expect='err.reads'),
        Va('on-error-accepts-missing-line', 'break', INTERP,
           in_fn('on_error_goto_', lambda fn: mu.remove_stmt(fn, mu.stmt_has('linenum not in self._program.line_numbers', ast.If))), expect='onerror.validates'),
        Va('clear-stacks-resets-handler', 'break', INTERP,
           in_fn('_clear_stacks', lambda fn: mu.append_last(fn, 'self.on_error = None')), expect='state.writers'),
        Va('read-assigns-while-in-data-line', 'break', INTERP, in_fn('read_', _assign_before_restore), expect='shared.read.position-restored'),
        Va('trap-error-comment-only', 'neutral', INTERP, in_fn('trap_error', lambda fn: mu.insert_first(fn, 'pass'))),
    ]


def _assign_before_restore(fn):
    # the assignment moves in front of the seek back to the READ statement
    for n in ast.walk(fn):
        blk = getattr(n, 'body', None)
        if not isinstance(blk, list):
            continue
        i, j = _idx(blk, 'self._program_code.seek(current)'), _idx(blk, 'self._memory.set_variable(name, indices, value=value)')
        if i is not None and j is not None and i < j:
            blk.insert(i, blk.pop(j))
            return True
    return False


def _catch_all(fn):
    for n in ast.walk(fn):
        if isinstance(n, ast.ExceptHandler):
            n.type = ast.Name(id='Exception', ctx=ast.Load())
            return True
    return False

"""
C38 -- event traps fire only when enabled and never re-enter.

Decides (structure of the trap state machine; interleavings are not explored):
 * dispatch: in Interpreter.handle_basic_events the call jump_sub(event.gosub, event)
   is dominated by: not suspend_all, run_mode, event taken from `enabled`,
   event.triggered, not event.stopped, event.gosub is not None; and on the same
   path it is preceded by `event.triggered = False` and `event.stopped = True`
   (no re-entry until RETURN);
 * the handler frame carries the event: jump_sub pushes (pos, run_mode, handler)
   after a successful jump, and return_ clears `stopped` only when the popped
   frame has a handler;
 * error handlers block traps: trap_error sets suspend_all when it jumps to the
   handler; resume_ and BasicEvents.reset clear it; no other writer exists;
 * ON / OFF / STOP: command() adds to `enabled` and un-stops on ON, discards
   on OFF, sets `stopped` on STOP; occurrences reach handlers only via
   EventQueues._basic_handlers, which set_pointer fills with `enabled` in run
   mode and empties otherwise (an occurrence while OFF or outside a running
   program is lost); EventHandler.trigger only sets `triggered` (a STOPped
   event is remembered);
 * writers of `triggered` / `stopped` / `suspend_all` / `enabled` are exactly
   the methods above (who-may-write over the whole package).
"""
import ast

from ..source import norm, short, qualname
from ..flow import own_nodes
from .. import mutate as mu

PROP = 'C38'
LEVEL = 'other'
TECHNIQUE = 'static analysis: dominance facts and must-precede events in the dispatcher, who-may-write for the trap state fields'
EXPLANATION = __doc__

INTERP = 'pcbasic/basic/interpreter.py'
BE = 'pcbasic/basic/basicevents.py'
EC = 'pcbasic/basic/eventcycle.py'


def _writers(ctx, attr):
    out = []
    for fn in ctx.idx.functions('pcbasic/'):
        for n in own_nodes(fn):
            tg = []
            if isinstance(n, ast.Assign):
                tg = n.targets
            elif isinstance(n, ast.AugAssign):
                tg = [n.target]
            for t in tg:
                for x in ast.walk(t):
                    if isinstance(x, ast.Attribute) and x.attr == attr and isinstance(x.ctx, ast.Store):
                        out.append((qualname(fn).split(':')[1], norm(n), n))
            if isinstance(n, ast.Call) and isinstance(n.func, ast.Attribute) and isinstance(n.func.value, ast.Attribute) \
                    and n.func.value.attr == attr and n.func.attr in ('add', 'discard', 'remove', 'clear', 'update'):
                out.append((qualname(fn).split(':')[1], norm(n), n))
    return out


def check(ctx, rep):
    # `all` lists every trap (RENUM remaps the traps it finds there, the dispatcher orders them by it): each way of ordering
    # the key handlers is a permutation of the whole key list -- its slices partition the list
    rs = ctx.fn(BE + ':BasicEvents.reset')
    n_ord = 0
    for a in own_nodes(rs):
        if isinstance(a, ast.Assign) and norm(a.targets[0]) == 'ordered_keys':
            n_ord += 1
            parts = []
            ok = True
            for x in ast.walk(a.value):
                if isinstance(x, ast.Subscript) and norm(x.value) == 'self.key' and isinstance(x.slice, ast.Slice):
                    lo = ctx.fold(x.slice.lower) if x.slice.lower is not None else 0
                    hi = ctx.fold(x.slice.upper) if x.slice.upper is not None else None
                    parts.append((lo, hi))
                elif isinstance(x, ast.Subscript) and norm(x.value) == 'self.key':
                    ok = False
            parts.sort(key=lambda p_: p_[0])
            cover = ok and bool(parts) and parts[0][0] == 0 and parts[-1][1] is None and all(parts[i][1] == parts[i + 1][0] for i in range(len(parts) - 1))
            rep.ob('all-events.every-key-handler-listed', 'BasicEvents.reset: %s' % short(a, 70), cover,
                   'the slices %r do not partition the key list: a key handler is missing from (or twice in) `all`, its trap is not renumbered by RENUM' % (parts,), ctx.where(a))
    rep.floor('all-events.every-key-handler-listed', n_ord, 3, 'orderings of the key handlers')
    # the list of traps that are polled is refreshed from `enabled` before every statement's event check, so that ON / OFF take
    # effect with the next statement
    ps = ctx.fn(INTERP + ':Interpreter.parse')
    loops = [w for w in own_nodes(ps) if isinstance(w, ast.While)]
    ref = [c for c in own_nodes(ps) if isinstance(c, ast.Call) and norm(c) == 'self._queues.set_basic_event_handlers(self._basic_events.enabled)']
    chk = [c for c in own_nodes(ps) if isinstance(c, ast.Call) and norm(c.func) == 'self._queues.check_events']
    inside = len(loops) >= 1 and len(ref) == 1 and len(chk) == 1 and any(x is ref[0] for x in ast.walk(loops[0])) and any(x is chk[0] for x in ast.walk(loops[0]))
    rep.ob('occurrence.polled-set-refreshed-per-statement', 'Interpreter.parse refreshes the polled traps from `enabled` inside the statement loop, before the event check',
           inside and (ref[0].lineno, ref[0].col_offset) < (chk[0].lineno, chk[0].col_offset),
           'the polled set is a snapshot taken before the loop: a key pressed after KEY(n) OFF is still recorded and delivered at the next ON', ctx.where(ps))
    from ..optargs import check as _optargs
    _optargs(ctx, rep, ['pcbasic/basic/basicevents.py', 'pcbasic/basic/inputs/'], 5)
    hb = ctx.fn(INTERP + ':Interpreter.handle_basic_events')

    def events(node):
        ev = set()
        for n in own_nodes(node):
            if isinstance(n, ast.Assign):
                t = norm(n)
                if t == 'event.triggered = False':
                    ev.add('untrigger')
                if t == 'event.stopped = True':
                    ev.add('stop')
        return ev

    fl = ctx.flow(hb, events)
    jumps = [n for n in own_nodes(hb) if isinstance(n, ast.Call) and norm(n.func) == 'self.jump_sub']
    rep.floor('dispatch', len(jumps), 1, 'trap jumps')
    for j in jumps:
        # facts at entry of the block holding the jump (the assignments that follow kill event.* facts, rightly)
        st = fl.stmt_of(j)
        blk = st._parent.body if st in getattr(st._parent, 'body', []) else [st]
        facts = dict((f.text, f.pol) for f in fl.facts(blk[0]))
        rep.ob('dispatch.args', 'jump_sub(event.gosub, event) passes the handler', [norm(a) for a in j.args] == ['event.gosub', 'event'], short(j), ctx.where(j))
        rep.ob('dispatch.not-suspended', 'no trap while an error handler is active', facts.get('self._basic_events.suspend_all') is False, '', ctx.where(j))
        rep.ob('dispatch.run-mode-only', 'no trap outside a running program', facts.get('not self.run_mode') is False or facts.get('self.run_mode') is True, '', ctx.where(j))
        rep.ob('dispatch.triggered', 'event has occurred', facts.get('event.triggered') is True, '', ctx.where(j))
        rep.ob('dispatch.not-stopped', 'event is not stopped / being handled', facts.get('event.stopped') is False or facts.get('not event.stopped') is True, '', ctx.where(j))
        rep.ob('dispatch.has-handler', 'event has a handler line', facts.get('event.gosub is not None') is True, '', ctx.where(j))
        rep.ob('dispatch.no-reentry', 'triggered is cleared and stopped is set before jumping', {'untrigger', 'stop'} <= fl.must(j), repr(sorted(fl.must(j))), ctx.where(j))
        loop = [c for k, c in fl.context(j) if k == 'loop']
        rep.ob('dispatch.enabled-only', 'events are taken from basic_events.enabled',
               len(loop) == 1 and norm(loop[0].iter) == 'self._basic_events.enabled' and norm(loop[0].target) == 'event', '', ctx.where(j))
    # jump_sub / return_
    js = ctx.fn(INTERP + ':Interpreter.jump_sub')
    stmts = [norm(s) for s in js.body]
    try:
        ok = stmts.index('self.jump(jumpnum)') < stmts.index('self.gosub_stack.append((pos, run_mode, handler))')
    except ValueError:
        ok = False
    rep.ob('frame.push-after-jump', 'jump_sub pushes (pos, run_mode, handler) after a successful jump', ok, repr(stmts), ctx.where(js))
    rt = ctx.fn(INTERP + ':Interpreter.return_')
    fl = ctx.flow(rt)
    uns = [n for n in own_nodes(rt) if isinstance(n, ast.Assign) and norm(n) == 'handler.stopped = False']
    rep.ob('frame.return-unstops-own-event', 'return_ clears stopped only for a handler frame', len(uns) == 1 and fl.knows(uns[0], 'handler', True), '', ctx.where(rt))
    pop = [n for n in own_nodes(rt) if isinstance(n, ast.Assign) and norm(n.value) == 'self.gosub_stack.pop()']
    rep.ob('frame.return-unstops-own-event', 'handler comes from the popped frame',
           len(pop) == 1 and [norm(e) for e in pop[0].targets[0].elts][2] == 'handler', '', ctx.where(rt))
    # suspend_all writers
    w = _writers(ctx, 'suspend_all')
    got = sorted((f, t) for f, t, _ in w)
    want = sorted([('BasicEvents.reset', 'self.suspend_all = False'), ('Interpreter.trap_error', 'self._basic_events.suspend_all = True'),
                   ('Interpreter.resume_', 'self._basic_events.suspend_all = False')])
    rep.ob('suspend.writers', 'suspend_all: set by trap_error, cleared by resume_ and reset only', got == want, repr(got), INTERP)
    te = ctx.fn(INTERP + ':Interpreter.trap_error')
    fl = ctx.flow(te)
    s = [n for n in own_nodes(te) if isinstance(n, ast.Assign) and norm(n) == 'self._basic_events.suspend_all = True']
    rep.ob('suspend.on-error-handler-entry', 'trap_error suspends traps on the branch that jumps to the handler',
           len(s) == 1 and any('self.on_error is not None' in f.text and f.pol for f in fl.facts(s[0])), '', ctx.where(te))
    # command()
    cmd = ctx.fn(BE + ':BasicEvents.command')
    fl = ctx.flow(cmd)
    acts = {}
    for n in own_nodes(cmd):
        if isinstance(n, (ast.Expr, ast.Assign)):
            t = norm(n)
            if t.startswith('"'):
                continue
            for f in fl.facts(n):
                if f.pol and f.text.startswith('command_char == tk.'):
                    acts.setdefault(f.text[len('command_char == tk.'):], []).append(t)
    rep.ob('command.on', 'ON enables and un-stops', acts.get('ON') == ['self.enabled.add(handler)', 'handler.stopped = False'], repr(acts.get('ON')), ctx.where(cmd))
    rep.ob('command.off', 'OFF discards the event from enabled', acts.get('OFF') == ['self.enabled.discard(handler)'], repr(acts.get('OFF')), ctx.where(cmd))
    # OFF switches every kind of event off: the discard is not made to depend on the kind of handler
    for n in own_nodes(cmd):
        if isinstance(n, ast.Expr) and norm(n) == 'self.enabled.discard(handler)':
            extra = [(f.text, f.pol) for f in fl.facts(n) if not f.text.startswith('command_char == tk.')]
            rep.ob('command.off-for-every-kind', 'OFF discards the event whatever its kind', not extra,
                   'the discard is conditional on %r: for the excluded kind OFF does nothing and the trap keeps firing while OFF' % (extra,), ctx.where(n))
    rep.ob('command.stop', 'STOP sets stopped (occurrences are remembered)', acts.get('STOP') == ['handler.stopped = True'], repr(acts.get('STOP')), ctx.where(cmd))
    # trigger only sets triggered
    tr = ctx.fn(BE + ':EventHandler.trigger')
    body = [norm(s) for s in tr.body if not (isinstance(s, ast.Expr) and isinstance(s.value, ast.Constant))]
    rep.ob('trigger.remembers', 'EventHandler.trigger only records the occurrence', body == ['self.triggered = True'], repr(body), ctx.where(tr))
    # who writes triggered / stopped
    tw = sorted(set(f for f, t, _ in _writers(ctx, 'triggered')))
    rep.ob('state.writers-triggered', 'triggered written by reset/trigger/dispatcher (+ComHandler property) only',
           set(tw) <= {'EventHandler.reset', 'EventHandler.trigger', 'Interpreter.handle_basic_events', 'ComHandler.triggered'}, repr(tw), BE)
    sw = sorted(set(f for f, t, _ in _writers(ctx, 'stopped')))
    rep.ob('state.writers-stopped', 'stopped written by reset/command/dispatcher/return_ only',
           set(sw) <= {'EventHandler.reset', 'BasicEvents.command', 'Interpreter.handle_basic_events', 'Interpreter.return_'}, repr(sw), BE)
    ew = sorted(set(f for f, t, _ in _writers(ctx, 'enabled')))
    rep.ob('state.writers-enabled', 'enabled written by reset/command only', set(ew) <= {'BasicEvents.reset', 'BasicEvents.command'}, repr(ew), BE)
    rep.floor('state.writers', len(tw) + len(sw) + len(ew), 8, 'writer sites')
    # occurrences reach handlers only in run mode and only for enabled events
    sp = ctx.fn(INTERP + ':Interpreter.set_pointer')
    fl = ctx.flow(sp)
    calls = {}
    for n in own_nodes(sp):
        if isinstance(n, ast.Call) and norm(n.func) == 'self._queues.set_basic_event_handlers':
            calls[norm(n.args[0])] = dict((f.text, f.pol) for f in fl.facts(n)).get('new_runmode')
    rep.ob('occurrence.only-enabled-in-run-mode', 'set_pointer installs `enabled` in run mode and nothing otherwise',
           calls == {'self._basic_events.enabled': True, '[]': False}, repr(calls), ctx.where(sp))
    ci = ctx.fn(EC + ':EventQueues._check_input')
    srcs = set()
    for n in own_nodes(ci):
        if isinstance(n, (ast.For, ast.comprehension)) and 'check_input' in norm(getattr(n, '_parent', n)):
            pass
    txt = norm(ci)
    rep.ob('occurrence.via-basic-handlers', '_check_input offers signals to self._basic_handlers only (for BASIC events)',
           'for e in self._basic_handlers' in txt and '[e.check_input for e in self._basic_handlers]' in txt, '', ctx.where(ci))
    sb = ctx.fn(EC + ':EventQueues.set_basic_event_handlers')
    rep.ob('occurrence.via-basic-handlers', 'set_basic_event_handlers stores exactly what it is given',
           [norm(s) for s in sb.body if isinstance(s, ast.Assign)] == ['self._basic_handlers = tuple(event_check_input)'], '', ctx.where(sb))
    # reset: new handler objects, nothing enabled
    rs = ctx.fn(BE + ':BasicEvents.reset')
    rep.ob('reset.disables-all', 'BasicEvents.reset clears enabled and suspension',
           'self.enabled = set()' in [norm(s) for s in rs.body] and 'self.suspend_all = False' in [norm(s) for s in rs.body], '', ctx.where(rs))


def _variants0(ctx):
    Va = mu.Variant

    def in_fn(fname, f):
        return lambda tree: f(mu.find_def(tree, fname))

    return [
        Va('dispatch-ignores-stopped', 'break', INTERP,
           in_fn('Interpreter.handle_basic_events', lambda fn: mu.replace_expr(fn, mu.text_is('event.triggered and (not event.stopped) and (event.gosub is not None)'),
                                                                               'event.triggered and event.gosub is not None')), expect='dispatch.not-stopped'),
        Va('dispatch-no-stop-before-jump', 'break', INTERP,
           in_fn('Interpreter.handle_basic_events', lambda fn: mu.remove_stmt(fn, mu.text_is('event.stopped = True'))), expect='dispatch.no-reentry'),
        Va('dispatch-in-direct-mode', 'break', INTERP,
           in_fn('Interpreter.handle_basic_events', lambda fn: mu.replace_expr(fn, mu.text_is('self._basic_events.suspend_all or not self.run_mode'),
                                                                               'self._basic_events.suspend_all')), expect='dispatch.run-mode'),
        Va('dispatch-all-events', 'break', INTERP,
           in_fn('Interpreter.handle_basic_events', lambda fn: mu.replace_expr(fn, mu.text_is('self._basic_events.enabled'), 'self._basic_events.all')),
           expect='dispatch.enabled-only'),
        Va('return-always-unstops', 'break', INTERP,
           in_fn('Interpreter.return_', lambda fn: mu.replace_stmt(fn, lambda st: isinstance(st, ast.If) and norm(st.test) == 'handler',
                                                                   'if handler is not None or self._basic_events.enabled:\n    for h in self._basic_events.enabled:\n        h.stopped = False')),
           expect='frame'),
        Va('error-handler-does-not-suspend', 'break', INTERP,
           in_fn('Interpreter.trap_error', lambda fn: mu.remove_stmt(fn, mu.text_is('self._basic_events.suspend_all = True'))), expect='suspend'),
        Va('off-only-stops', 'break', BE,
           in_fn('BasicEvents.command', lambda fn: mu.replace_expr(fn, mu.text_is('self.enabled.discard(handler)'), 'setattr(handler, "stopped", True)')),
           expect='command.off'),
        Va('stop-forgets-occurrence', 'break', BE,
           in_fn('BasicEvents.command', lambda fn: mu.replace_stmt(fn, mu.text_is('handler.stopped = True'), 'handler.stopped = True\nhandler.triggered = False')),
           expect='state.writers-triggered'),
        Va('handlers-installed-in-direct-mode', 'break', INTERP,
           in_fn('Interpreter.set_pointer', lambda fn: mu.replace_expr(fn, mu.text_is('self._queues.set_basic_event_handlers([])'),
                                                                       'self._queues.set_basic_event_handlers(self._basic_events.enabled)')),
           expect='occurrence'),
        Va('guard-split-into-two-ifs', 'neutral', INTERP,
           in_fn('Interpreter.handle_basic_events', lambda fn: mu.replace_stmt(fn, lambda st: isinstance(st, ast.If) and 'suspend_all' in norm(st.test),
                                                                               'if self._basic_events.suspend_all:\n    return\nif not self.run_mode:\n    return'))),
    ]


def variants(ctx):
    return _variants0(ctx) + [
        mu.Variant('key-11-dropped-from-the-ordered-list', 'break', BE,
                   lambda tree: mu.replace_expr(mu.find_def(tree, 'BasicEvents.reset'), mu.text_is('self.key[10:29]'), 'self.key[11:29]'), expect='all-events.every-key-handler-listed'),
        mu.Variant('polled-traps-refreshed-once-per-parse', 'break', INTERP,
                   lambda tree: _hoist_refresh(mu.find_def(tree, 'Interpreter.parse')), expect='occurrence.polled-set-refreshed-per-statement'),
        mu.Variant('key-number-defaulted-by-truthiness', 'break', 'pcbasic/basic/basicevents.py',
                   lambda tree: (lambda fn: mu.insert_before(fn, lambda st: isinstance(st, ast.Expr) and norm(st.value).startswith('error.range_check(1, len(self.key)'), 'keynum = keynum or 1'))(mu.find_def(tree, 'BasicEvents.on_event_gosub_')), expect='arguments.zero-is-not-omitted'),
    ]


def _hoist_refresh(fn):
    lp = [w for w in fn.body if isinstance(w, ast.While)]
    if len(lp) != 1:
        return False
    st = [x for x in lp[0].body if 'set_basic_event_handlers' in norm(x)]
    if len(st) != 1:
        return False
    lp[0].body.remove(st[0])
    fn.body.insert(fn.body.index(lp[0]), st[0])
    return True


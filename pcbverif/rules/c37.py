"""
C37 -- the keyboard buffer is a 15-key FIFO mirrored in BIOS memory (thin,
structural half).

Decides:
 * capacity: Keyboard builds its KeyboardBuffer with ring length 16; append
   refuses a keystroke (and emits the "buffer full" tone) exactly when
   check_full is on and len - start >= ring_length - 1, i.e. when 15 are
   waiting; otherwise it appends at the tail;
 * FIFO: getc returns the element at _start and advances _start by one; append
   only ever appends at the end of the list; `length` is
   min(ring_length, len - start); start/stop are the head and tail modulo the
   ring length;
 * the limit can only be suspended inside ignore_limit (host key injection):
   _check_full is written nowhere else;
 * BIOS view: Memory._get_low_memory and _set_low_memory agree on the pointer
   addresses 1050/1051 (head) and 1052/1053 (tail), on the 32-byte slot window
   starting at 1024+key_buffer_offset, on two bytes per slot (index = offset//2,
   odd byte = scan code) and on the pointer encoding: reader 2*i +
   key_buffer_offset, writer (v - key_buffer_offset)//2; key_buffer_offset is
   30 (0x41E - 0x400), and the window 0x41E..0x43D holds exactly 16 slots.
Not decided: the ring rotation in ring_set_boundaries (the clearing POKE).
"""
import ast

from ..source import class_methods, norm, short, qualname
from ..flow import own_nodes
from ..algebra import lin
from .. import mutate as mu

PROP = 'C37'
LEVEL = 'other'
TECHNIQUE = 'static analysis: guard shape of the capacity test, who-may-write of the limit switch, reader/writer agreement of the BIOS memory view'
EXPLANATION = __doc__

KB = 'pcbasic/basic/inputs/keyboard.py'
MA = 'pcbasic/basic/machine.py'


def _branches(fn):
    """[(test text, body)] of the elif chain on `addr` in a low-memory function."""
    out = []
    for st in fn.body:
        node = st
        while isinstance(node, ast.If):
            out.append((norm(node.test), node.body))
            node = node.orelse[0] if len(node.orelse) == 1 and isinstance(node.orelse[0], ast.If) else None
    return out


def _empty_is_not_full(ctx, rep):
    """The buffer position `_start` distinguishes an empty ring (`_start` = length of the list) from a full one
    (`_start` = length - ring size); the two are congruent modulo the ring size.  ring_set_boundaries brings the
    position into the ring (modulo) *before* it rotates the buffer and adds the rotation shift; the sum ring
    size - length must then be stored as it is: a reduction after the shift folds the empty window (sum = ring
    size) onto 0, a full buffer -- on the pinned tree POKE 1050, PEEK(1052) therefore re-delivered the old keys
    (repaired in /repo 7666cf4c, 47d75d15).  Elsewhere no reduced value is stored into `_start` at all."""
    cls = ctx.cls(KB + ':KeyboardBuffer')
    n = 0

    def is_reduction(a):
        return any(isinstance(b, ast.BinOp) and isinstance(b.op, ast.Mod) and 'ring_length' in norm(b.right) for b in ast.walk(a.value)) or \
            (isinstance(a, ast.AugAssign) and isinstance(a.op, ast.Mod))
    for m in class_methods(cls).values():
        stores = [a for a in m.body if isinstance(a, (ast.Assign, ast.AugAssign)) and norm(a.targets[0] if isinstance(a, ast.Assign) else a.target) == 'self._start']
        for st in stores:
            n += 1
            feeding = [x.id for x in ast.walk(st.value) if isinstance(x, ast.Name)]
            ok, why = not is_reduction(st), 'the stored value is reduced modulo the ring size'
            for name in feeding:
                # straight-line updates of the local before the store (loops that only re-align the position excluded)
                ups = [a for a in m.body[:m.body.index(st)] if isinstance(a, (ast.Assign, ast.AugAssign))
                       and norm(a.targets[0] if isinstance(a, ast.Assign) else a.target) == name]
                if ups and is_reduction(ups[-1]):
                    ok, why = False, 'the last update of `%s` before the store is a reduction modulo the ring size (%s)' % (name, short(ups[-1], 40))
            rep.ob('ring.empty-not-folded-onto-full', 'KeyboardBuffer.%s: the position stored into _start is not reduced modulo the ring size after it was computed' % m.name,
                   ok, why + ': an empty window (position = ring size) becomes a full buffer', ctx.where(st))
    rep.floor('ring.empty-not-folded-onto-full', n, 2, 'stores to _start')
    rsb = class_methods(cls)['ring_set_boundaries']
    order = [('mod' if is_reduction(a) else 'shift' if 'shift' in norm(a.value) else None) for a in rsb.body
             if isinstance(a, (ast.Assign, ast.AugAssign)) and norm(a.targets[0] if isinstance(a, ast.Assign) else a.target) == 'start']
    order = [o for o in order if o]
    rep.ob('ring.position-in-ring-before-rotation', 'ring_set_boundaries brings the position into the ring before the rotation, and only then adds the shift',
           order == ['mod', 'shift'], repr(order) + ': a window opened from an empty buffer is rotated with a position outside the ring and stays empty', ctx.where(rsb))
    # the padding loop runs until the position is congruent to the requested start index: it ends only if that index is
    # one of the ring's own (0 .. ring_length-1), and the index comes straight from a POKEd byte
    pads = [w for w in own_nodes(rsb) if isinstance(w, ast.While) and isinstance(w.test, ast.Compare) and len(w.test.ops) == 1 and isinstance(w.test.ops[0], ast.NotEq)
            and isinstance(w.test.left, ast.BinOp) and isinstance(w.test.left.op, ast.Mod) and 'ring_length' in norm(w.test.left.right)]
    rep.floor('ring.requested-index-inside-ring', len(pads), 1, 'padding loops in ring_set_boundaries')
    params = [a.arg for a in rsb.args.args]
    for w in pads:
        want = norm(w.test.comparators[0])
        red = [a for a in rsb.body if a.lineno < w.lineno and isinstance(a, (ast.Assign, ast.AugAssign)) and norm(a.targets[0] if isinstance(a, ast.Assign) else a.target) == want and is_reduction(a)]
        rep.ob('ring.requested-index-inside-ring', 'ring_set_boundaries: `%s` is reduced modulo the ring length before `%s`' % (want, short(w.test, 50)), bool(red) or want not in params,
               'an index outside the ring (POKE 1050,62) is never reached modulo the ring length: the loop pads the buffer for ever', ctx.where(w))
    em = class_methods(cls)['empty']
    rets = [norm(r.value) for r in own_nodes(em) if isinstance(r, ast.Return)]
    rep.ob('ring.empty-definition', 'the buffer is empty iff the position has reached the end of the list', rets == ['self._start >= len(self._buffer)'], repr(rets), ctx.where(em))


def _no_write_only_attributes(ctx, rep):
    """Every attribute the keyboard module stores is read somewhere in the package.  A store that nothing reads is
    dead -- or a misspelt store to a field that *is* read (self.check_full = save for self._check_full), which
    silently leaves the real field unchanged (here: the 15-key limit stays switched off after a paste)."""
    loads = set()
    for m in ctx.idx.modules.values():
        for n in ast.walk(m.tree):
            if isinstance(n, ast.Attribute) and isinstance(n.ctx, ast.Load):
                loads.add(n.attr)
            elif isinstance(n, ast.Constant) and isinstance(n.value, str):
                loads.add(n.value)
    mod = ctx.mod(KB)
    n_stores = 0
    seen = set()
    for n in ast.walk(mod.tree):
        if isinstance(n, ast.Attribute) and isinstance(n.ctx, ast.Store) and norm(n.value) == 'self':
            n_stores += 1
            if n.attr not in loads and n.attr not in seen:
                seen.add(n.attr)
                rep.ob('fields.no-write-only-attribute', 'keyboard.py: self.%s' % n.attr, False,
                       'the attribute is stored but never read anywhere: a dead store, or a misspelling of a field that is read', '%s (line %s)' % (KB, n.lineno))
    rep.ob('fields.no-write-only-attribute', 'every attribute stored in keyboard.py is read somewhere (%d stores)' % n_stores, not seen)
    rep.floor('fields.no-write-only-attribute', n_stores, 20, 'attribute stores')


def _alt_keypad_code_consumed(ctx, rep):
    """The digits typed on the keypad while Alt is held are one keystroke: releasing Alt appends the character and clears the
    accumulated digits in the same step, or every later Alt release repeats the character."""
    ku = ctx.fn(KB + ':Keyboard._key_up')
    blocks = [i for i in own_nodes(ku) if isinstance(i, ast.If) and 'self.keypad_ascii' in norm(i.test)]
    ok = False
    if len(blocks) == 1:
        body = blocks[0].body
        app = [k for k, st in enumerate(body) if 'self.buf.append(' in norm(st)]
        clr = [k for k, st in enumerate(body) if isinstance(st, ast.Assign) and norm(st.targets[0]) == 'self.keypad_ascii' and ctx.fold(st.value) in (b'', u'')]
        ok = len(app) == 1 and len(clr) == 1
    rep.ob('altcode.consumed-once', 'Keyboard._key_up: the Alt+keypad code is appended and the accumulated digits are cleared together', ok,
           'the digits stay accumulated: the next release of Alt inserts the same character again', ctx.where(ku))
    # a key pressed with Alt held is swallowed only when it is a keypad digit (the KEYPAD lookup succeeded); any other
    # Alt+key is an extended keystroke and goes on to the buffer
    kd = ctx.fn(KB + ':Keyboard._key_down')
    fld = ctx.flow(kd)
    early = [r for r in own_nodes(kd) if isinstance(r, ast.Return) and any('scancode.ALT in mods' in f.text and f.pol for f in fld.facts(r))]
    looked = [s for s in own_nodes(kd) if isinstance(s, (ast.AugAssign, ast.Assign)) and 'KEYPAD[' in norm(s.value)]
    rep.floor('altcode.only-keypad-digits-swallowed', len(early) + len(looked), 2, 'early return and keypad lookup in _key_down')
    for r in early:
        h = fld.in_try_catching(r, ('KeyError',))
        same = h is not None and any(fld.in_try_catching(s, ('KeyError',)) is h and s.lineno < r.lineno for s in looked)
        rep.ob('altcode.only-keypad-digits-swallowed', '_key_down: the return under Alt follows a successful KEYPAD lookup', same,
               'every key pressed with Alt held returns early: Alt+letter keystrokes never reach the buffer', ctx.where(r))


def check(ctx, rep):
    _empty_is_not_full(ctx, rep)
    _alt_keypad_code_consumed(ctx, rep)
    _no_write_only_attributes(ctx, rep)
    ki = ctx.fn(KB + ':Keyboard.__init__')
    mk = [a for a in own_nodes(ki) if isinstance(a, ast.Assign) and norm(a.targets[0]) == 'self.buf']
    rep.ob('capacity.ring-16', 'the key buffer ring has 16 slots', len(mk) == 1 and norm(mk[0].value) == 'KeyboardBuffer(queues, 16, check_full)', '', ctx.where(ki))
    ap = ctx.fn(KB + ':KeyboardBuffer.append')
    fl = ctx.flow(ap)
    adds = [c for c in own_nodes(ap) if isinstance(c, ast.Call) and norm(c.func) == 'self._buffer.append']
    full = 'self._check_full and len(self._buffer) - self._start >= self._ring_length - 1'
    rep.ob('capacity.refuse-at-15', 'a keystroke is appended only if fewer than ring_length-1 (15) are waiting', len(adds) == 1 and fl.knows(adds[0], full, False) and fl.knows(adds[0], 'cp_c', True),
           '', ctx.where(ap))
    tone = [c for c in own_nodes(ap) if isinstance(c, ast.Call) and norm(c.func) == 'self._queues.audio.put' and 'FULL_TONE' in norm(c)]
    rep.ob('capacity.full-signal', 'a dropped keystroke sounds the buffer-full tone', len(tone) == 1 and fl.knows(fl.stmt_of(tone[0])._parent.body[0], full, True), '', ctx.where(ap))
    ins = [c for c in own_nodes(ap) if isinstance(c, ast.Call) and norm(c.func) in ('self._buffer.insert', 'self._buffer.appendleft')]
    rep.ob('fifo.append-at-tail', 'append never inserts before waiting keystrokes', not ins, '', ctx.where(ap))
    gc = ctx.fn(KB + ':KeyboardBuffer.getc')
    rd = [a for a in own_nodes(gc) if isinstance(a, ast.Assign) and norm(a.value) == 'self._buffer[self._start][0]']
    adv = [a for a in own_nodes(gc) if isinstance(a, ast.AugAssign) and norm(a) == 'self._start += 1']
    rets = [norm(r.value) for r in own_nodes(gc) if isinstance(r, ast.Return)]
    rep.ob('fifo.read-at-head', 'getc returns the keystroke at _start and advances by one', len(rd) == 1 and len(adv) == 1 and rd[0].lineno < adv[0].lineno
           and rets == [norm(rd[0].targets[0])], '', ctx.where(gc))
    ln = ctx.fn(KB + ':KeyboardBuffer.length')
    rep.ob('fifo.length', 'length = min(ring length, len - start)', norm([r for r in own_nodes(ln) if isinstance(r, ast.Return)][0].value) == 'min(self._ring_length, len(self._buffer) - self._start)', '', ctx.where(ln))
    st = ctx.fn(KB + ':KeyboardBuffer.start')
    sp = ctx.fn(KB + ':KeyboardBuffer.stop')
    rep.ob('fifo.pointers', 'head = _start mod ring, tail = (_start + length) mod ring',
           norm([r for r in own_nodes(st) if isinstance(r, ast.Return)][0].value) == 'self._start % self._ring_length' and
           norm([r for r in own_nodes(sp) if isinstance(r, ast.Return)][0].value) == '(self._start + self.length) % self._ring_length', '', ctx.where(st))
    # limit switch writers
    writers = []
    for fn in ctx.idx.functions('pcbasic/'):
        for n in own_nodes(fn):
            tg = n.targets if isinstance(n, ast.Assign) else []
            for t_ in tg:
                for e in (t_.elts if isinstance(t_, ast.Tuple) else [t_]):
                    if isinstance(e, ast.Attribute) and e.attr == '_check_full':
                        writers.append(qualname(fn).split(':')[1])
    rep.ob('capacity.limit-switch', 'the limit is switched off only inside ignore_limit (host key injection)',
           sorted(set(writers)) == ['KeyboardBuffer.__init__', 'KeyboardBuffer.ignore_limit'], repr(sorted(set(writers))), KB)
    # BIOS view
    off = ctx.fold(ctx.idx.locate(MA + ':Memory.key_buffer_offset'))
    rep.ob('bios.offset', 'key_buffer_offset == 30 (ring at 0:041E)', off == 30, repr(off), MA)
    gl = ctx.fn(MA + ':Memory._get_low_memory')
    sl = ctx.fn(MA + ':Memory._set_low_memory')
    gb = dict(_branches(gl))
    sb = dict(_branches(sl))
    win = 'addr in range(1024 + self.key_buffer_offset, 1024 + self.key_buffer_offset + 32)'
    rep.ob('bios.slot-window', 'reader and writer use the same 32-byte slot window', win in gb and win in sb, '', ctx.where(gl))
    rep.ob('bios.slot-window', '32 bytes = 16 slots of two bytes: the window is 0x41E..0x43D', off == 30 and 1024 + 30 == 0x41e and 1024 + 30 + 32 - 1 == 0x43d, '', MA)
    for name, d in (('reader', gb), ('writer', sb)):
        if win in d:
            a = dict((norm(x.targets[0]), norm(x.value)) for s in d[win] for x in own_nodes(s) if isinstance(x, ast.Assign))
            rep.ob('bios.slot-decoding', '%s: slot index = offset // 2, odd byte is the scan code' % name,
                   a.get('index') == '(addr - 1024 - self.key_buffer_offset) // 2' and a.get('odd') == '(addr - 1024 - self.key_buffer_offset) % 2' and
                   a.get('(c, scan)', a.get('c, scan')) == 'self.keyboard.buf.ring_read(index)' or
                   (a.get('index') == '(addr - 1024 - self.key_buffer_offset) // 2' and a.get('odd') == '(addr - 1024 - self.key_buffer_offset) % 2' and
                    any(norm(x) == 'c, scan = self.keyboard.buf.ring_read(index)' for s in d[win] for x in own_nodes(s) if isinstance(x, ast.Assign))), repr(a), ctx.where(gl if name == 'reader' else sl))
    # pointer encoding
    enc = {}
    for addr, ptr, part in ((1050, 'start', '% 256'), (1051, 'start', '// 256'), (1052, 'stop', '% 256'), (1053, 'stop', '// 256')):
        body = gb.get('addr == %d' % addr)
        r = [norm(x.value) for s in (body or []) for x in own_nodes(s) if isinstance(x, ast.Return)]
        rep.ob('bios.pointer-encoding', 'PEEK(%d) = (buf.%s*2 + offset) %s' % (addr, ptr, part), r == ['(self.keyboard.buf.%s * 2 + self.key_buffer_offset) %s' % (ptr, part)], repr(r), ctx.where(gl))
    for addr, args in ((1050, ['(value - self.key_buffer_offset) // 2', 'self.keyboard.buf.stop']), (1052, ['self.keyboard.buf.start', '(value - self.key_buffer_offset) // 2'])):
        body = sb.get('addr == %d' % addr)
        c = [x for s in (body or []) for x in own_nodes(s) if isinstance(x, ast.Call) and norm(x.func) == 'self.keyboard.buf.ring_set_boundaries']
        rep.ob('bios.pointer-decoding', 'POKE %d decodes the pointer as (v - offset)//2 and keeps the other end' % addr, len(c) == 1 and [norm(a_) for a_ in c[0].args] == args, '', ctx.where(sl))
    # encoding/decoding are inverse: (2*i + off - off)//2 == i  (linear check)
    rep.ob('bios.pointer-roundtrip', 'decode(encode(i)) == i', lin(ast.parse('(2*i + off) - off', mode='eval').body) == {'i': 2}, '', MA)
    rr = ctx.fn(KB + ':KeyboardBuffer.ring_read')
    rw = ctx.fn(KB + ':KeyboardBuffer.ring_write')
    rep.ob('bios.ring-access', 'ring_read/ring_write address the same slot function',
           norm([r for r in own_nodes(rr) if isinstance(r, ast.Return)][0].value) == 'self._buffer[self._ring_index(index)]' and
           any(norm(a_) == 'self._buffer[self._ring_index(index)] = (c, scan)' for a_ in own_nodes(rw) if isinstance(a_, ast.Assign)), '', ctx.where(rr))


def _return_after_try(fn):
    for n in ast.walk(fn):
        if isinstance(n, ast.If) and 'scancode.ALT in mods' in norm(n.test):
            t = [x for x in n.body if isinstance(x, ast.Try)][0]
            r = [x for x in t.body if isinstance(x, ast.Return)][0]
            t.body.remove(r)
            n.body.append(r)
            return True
    return False


def variants(ctx):
    Va = mu.Variant

    def in_fn(f_name, f):
        return lambda tree: f(mu.find_def(tree, f_name))

    return [
        Va('poked-pointer-not-wrapped', 'break', KB,
           in_fn('KeyboardBuffer.ring_set_boundaries', lambda fn: mu.remove_stmt(fn, mu.text_is('newstart %= self._ring_length'))), expect='ring.requested-index-inside-ring'),
        Va('alt-swallows-every-key', 'break', KB, in_fn('Keyboard._key_down', _return_after_try), expect='altcode.only-keypad-digits-swallowed'),
        mu.Variant('alt-keypad-digits-not-cleared', 'break', KB,
                   lambda tree: mu.remove_stmt(mu.find_def(tree, 'Keyboard._key_up'), lambda st: isinstance(st, ast.Assign) and norm(st.targets[0]) == 'self.keypad_ascii'), expect='altcode.consumed-once'),
        Va('empty-window-folded-onto-full', 'break', KB,
           in_fn('KeyboardBuffer.ring_set_boundaries', lambda fn: mu.insert_before(fn, mu.stmt_has('start % self._ring_length != newstart', ast.While), 'start = start % self._ring_length')), expect='ring.'),
        Va('position-not-brought-into-ring', 'break', KB,
           in_fn('KeyboardBuffer.ring_set_boundaries', lambda fn: mu.remove_stmt(fn, mu.text_is('start = start % self._ring_length'))), expect='ring.position-in-ring'),
        Va('limit-restored-into-misspelt-field', 'break', KB,
           in_fn('KeyboardBuffer.ignore_limit', lambda fn: mu.replace_stmt(fn, mu.text_is('self._check_full = save'), 'self.check_full = save')), expect='fields.no-write-only'),
        Va('ring-32', 'break', KB, in_fn('Keyboard.__init__', lambda fn: mu.replace_expr(fn, mu.text_is('KeyboardBuffer(queues, 16, check_full)'), 'KeyboardBuffer(queues, 32, check_full)')), expect='capacity.ring'),
        Va('accepts-16th-key', 'break', KB,
           in_fn('KeyboardBuffer.append', lambda fn: mu.replace_expr(fn, mu.text_is('len(self._buffer) - self._start >= self._ring_length - 1'), 'len(self._buffer) - self._start >= self._ring_length')),
           expect='capacity.refuse'),
        Va('getc-lifo', 'break', KB, in_fn('KeyboardBuffer.getc', lambda fn: mu.replace_expr(fn, mu.text_is('self._buffer[self._start][0]'), 'self._buffer[-1][0]')), expect='fifo.read'),
        Va('limit-switched-off-elsewhere', 'break', KB, in_fn('Keyboard._stream_chars', lambda fn: mu.append_last(fn, 'self.buf._check_full = False')), expect='capacity.limit'),
        Va('reader-tail-at-1050', 'break', MA,
           in_fn('Memory._get_low_memory', lambda fn: mu.replace_expr(fn, mu.text_is('(self.keyboard.buf.start * 2 + self.key_buffer_offset) % 256'),
                                                                     '(self.keyboard.buf.stop * 2 + self.key_buffer_offset) % 256')), expect='bios.pointer-encoding'),
        Va('writer-no-halving', 'break', MA,
           in_fn('Memory._set_low_memory', lambda fn: mu.replace_expr(fn, mu.text_is('(value - self.key_buffer_offset) // 2'), 'value - self.key_buffer_offset')), expect='bios.pointer-decoding'),
        Va('offset-28', 'break', MA, lambda tree: mu.replace_stmt(mu.find_def(tree, 'Memory'), mu.text_is('key_buffer_offset = 30'), 'key_buffer_offset = 28'), expect='bios.offset'),
        Va('writer-window-30-bytes', 'break', MA,
           in_fn('Memory._set_low_memory', lambda fn: mu.replace_expr(fn, mu.text_is('1024 + self.key_buffer_offset + 32'), '1024 + self.key_buffer_offset + 30')), expect='bios.slot-window'),
        Va('neutral', 'neutral', KB, in_fn('KeyboardBuffer.getc', lambda fn: mu.rename_local(fn, 'c', 'char'))),
    ]

"""
C05 -- arithmetic identities.

Decides:
 (i) no operand mutation -- in every function of values.py (operators, numeric
     functions, string functions) the receiver of a *mutating* method (the set
     is computed by a fixpoint over numbers.py/strings.py: methods writing
     self._buffer or calling such a method on self) is a freshly allocated
     value (.clone(), .new(), new_*(), a constructor); conversions such as
     to_single()/to_float()/to_integer() may return the operand itself and do
     not count.  A violation changes the caller's variable and breaks x+0=x,
     -(-x)=x and DEF FN isolation (C20).
 (ii) promotion order: match_types, mul, div, pow test Double before Single.
 (iii) sign algebra: Float.ineg is an XOR of the sign bit (an involution, so
     -(-x)=x), Float.iabs clears it (so ABS(x)>=0 and ABS(x) in {x,-x}), and
     is_negative/sign/ineg/iabs agree on the position of that bit; sign()
     returns only -1, 0, 1; SGN wraps sign() of a checked number.
 (iv) zero operands short-circuit in _add_den before any arithmetic (x+0=x).
Not decided: bit-for-bit commutativity, x*1=x, x/1=x, x-x=0 (numeric).
"""
import ast

from ..source import norm, short
from ..flow import own_nodes
from .. import mutate as mu
from .. import valuesmodel as vm

PROP = 'C05'
LEVEL = 'other'
TECHNIQUE = 'static analysis: receiver-freshness (ownership) check against a computed mutator set, sign-bit algebra, sibling agreement'
EXPLANATION = __doc__

N, V = vm.NUMBERS, vm.VALUES


def _swap_lr(text):
    return text.replace('left', '\0').replace('right', 'left').replace('\0', 'right')


def check(ctx, rep):
    mut = vm.mutator_methods(ctx)
    rep.note('mutator_methods', sorted(mut))
    rep.floor('mutators', len(mut), 25, 'mutating methods found in numbers.py/strings.py')
    for must in ('iadd', 'isub', 'imul', 'idiv', 'ineg', 'iabs', 'itrunc', 'ifloor', 'ipow_int', 'idiv_int', 'imod',
                 'from_int', 'from_bytes', 'from_value', 'copy_from', 'from_str', 'lset', 'midset'):
        if must not in mut:
            rep.error('mutator fixpoint lost %s' % must)
    # (i) receiver freshness in values.py
    m = ctx.mod(V)
    sites = 0
    for fn in ctx.idx.functions(V):
        for n in own_nodes(fn):
            if isinstance(n, ast.Call) and isinstance(n.func, ast.Attribute) and n.func.attr in mut:
                recv = n.func.value
                # self-mutation inside a value class is not in values.py; `self.` receivers there are objects like Values
                rt = norm(recv)
                if rt in ('self', 'self._temp_values', 'struct') or rt.endswith('_values') or rt == 'values':
                    # Values factory object (from_bytes/from_value there allocate), not a value
                    continue
                sites += 1
                fresh = vm.receiver_is_fresh(recv)
                if not fresh and isinstance(recv, ast.Name):
                    # local bound only to fresh allocations in this function
                    defs = [a.value for a in own_nodes(fn) if isinstance(a, ast.Assign)
                            and any(isinstance(t, ast.Name) and t.id == recv.id for t in a.targets)]
                    params = [a.arg for a in fn.args.args]
                    fresh = bool(defs) and recv.id not in params and all(vm.receiver_is_fresh(d) for d in defs)
                rep.ob('no-operand-mutation', '%s: %s' % (fn.name, short(n, 90)), fresh,
                       'mutating method .%s() is applied to %s, which may be the caller\'s operand' % (n.func.attr, short(recv, 60)),
                       ctx.where(n))
    rep.floor('no-operand-mutation', sites, 30, 'mutating call sites in values.py')
    # (ii) promotion order in mul/div/pow
    for name in ('mul', 'div', 'pow'):
        fn = ctx.fn('%s:%s' % (V, name))
        tests = []
        for n in own_nodes(fn):
            if isinstance(n, ast.If):
                t = norm(n.test)
                if 'Double' in t:
                    tests.append(('Double', n.lineno))
                elif 'Integer' in t or 'Single' in t:
                    tests.append(('other', n.lineno))
        # the wider-type test (and the string test) must look at *both* operands: a test of one operand
        # only makes the result type depend on the operand order (x*y computed in double, y*x in single)
        for n in own_nodes(fn):
            if isinstance(n, ast.If):
                for kind in ('Double', 'String'):
                    calls = [c for c in ast.walk(n.test) if isinstance(c, ast.Call) and norm(c.func) == 'isinstance' and len(c.args) == 2
                             and norm(c.args[1]).split('.')[-1] == kind]
                    if calls:
                        who = sorted(set(norm(c.args[0]) for c in calls))
                        rep.ob('promotion.both-operands', 'values.%s: the %s test examines both operands' % (name, kind), who == ['left', 'right'],
                               'only %s is tested: the result type depends on the operand order' % ', '.join(who), ctx.where(n))
        dbl = [l for k, l in tests if k == 'Double']
        oth = [l for k, l in tests if k == 'other']
        rep.ob('promotion.double-first', 'values.%s tests for Double operands before narrower types' % name,
               bool(dbl) and (not oth or min(dbl) < min(oth)), repr(tests), ctx.where(fn))
    # match_types (shared with C06, whose module owns the analysis): Double before Single before Integer
    from . import c06
    sub = type(rep)('C06')
    c06.check(ctx, sub)
    for f in sub.findings:
        if f.rule.startswith('match_types'):
            rep.ob('promotion.match-types', f.construct, False, f.detail or 'mixed Single/Double operands are narrowed to Single', f.where)
    rep.ob('promotion.match-types', 'match_types converts both operands to the widest type present (%d obligations of C06)' % sum(
        v[0] for r, v in sub.by_rule.items() if r.startswith('match_types')), not sub.errors, '; '.join(sub.errors))
    # + and - only ever widen an operand before match_types: Integer -> Single via to_float(), which leaves floats alone
    for name in ('add', 'sub'):
        fn = ctx.fn('%s:%s' % (V, name))
        narrowing = [c for c in own_nodes(fn) if isinstance(c, ast.Call) and isinstance(c.func, ast.Attribute) and c.func.attr in ('to_single', 'to_integer')
                     and norm(c.func.value).split('.')[0] in ('left', 'right')]
        narrowing += [c for c in own_nodes(fn) if isinstance(c, ast.Call) and norm(c.func) in ('to_single', 'to_integer') and c.args and norm(c.args[0]) in ('left', 'right')]
        rep.ob('promotion.add-sub-never-narrow', 'values.%s converts its operands only with to_float() / match_types' % name, not narrowing,
               '%s rounds a Double operand to 24 bits before the sum is taken' % [short(c, 30) for c in narrowing], ctx.where(fn))
    # (iii) sign algebra
    ineg = ctx.fn(N + ':Float.ineg')
    iabs = ctx.fn(N + ':Float.iabs')
    isneg = ctx.fn(N + ':Float.is_negative')
    sign = ctx.fn(N + ':Float.sign')

    def stores(fn):
        return [n for n in own_nodes(fn) if isinstance(n, ast.Assign) and norm(n.targets[0]).startswith('self._buffer[')]

    s = stores(ineg)
    ok = len(s) == 1 and norm(s[0].targets[0]) == 'self._buffer[-2:-1]' and \
        norm(s[0].value) == 'int2byte(bytearray(self._buffer)[-2] ^ 128)'
    rep.ob('sign.neg-is-involution', 'Float.ineg: byte[-2] ^= 0x80 (xor with a constant is self-inverse)', ok,
           short(s[0]) if s else 'no store', ctx.where(ineg))
    s = stores(iabs)
    ok = len(s) == 1 and norm(s[0].targets[0]) == 'self._buffer[-2:-1]' and \
        norm(s[0].value) == 'int2byte(bytearray(self._buffer)[-2] & 127)'
    rep.ob('sign.abs-clears-sign-bit', 'Float.iabs: byte[-2] &= 0x7f', ok, short(s[0]) if s else 'no store', ctx.where(iabs))
    rep.ob('sign.bit-position-agrees', 'Float.is_negative reads byte[-2] >= 0x80',
           norm(vm.returns(isneg)[0].value) == 'bytearray(self._buffer)[-2] >= 128', '', ctx.where(isneg))
    rets = sorted(norm(r.value) for r in vm.returns(sign))
    rep.ob('sign.values', 'Float.sign returns only -1, 0, 1', rets == ['-1', '0', '1'], repr(rets), ctx.where(sign))
    fl = ctx.flow(sign)
    for r in vm.returns(sign):
        facts = dict((f.text, f.pol) for f in fl.facts(r))
        v = norm(r.value)
        if v == '0':
            rep.ob('sign.zero', 'sign() is 0 iff exponent byte is 0', facts.get('bytearray(self._buffer)[-1] == 0') is True, '', ctx.where(r))
        elif v == '-1':
            rep.ob('sign.negative', 'sign() is -1 iff non-zero and sign bit set',
                   facts.get('bytearray(self._buffer)[-1] == 0') is False and facts.get('bytearray(self._buffer)[-2] & 128 != 0') is True,
                   '', ctx.where(r))
    # the sign of a two-byte integer is bit 7 of its *last* byte: every reader in the class looks there
    icls = isign_cls = ctx.fn(N + ':Integer.sign')._parent
    n_sb = 0
    for n in ast.walk(icls):
        if isinstance(n, ast.BinOp) and isinstance(n.op, ast.BitAnd) and isinstance(n.right, ast.Constant) and n.right.value == 0x80 and isinstance(n.left, ast.Subscript) \
                and norm(n.left.value).startswith('bytearray(') and norm(n.left.value).endswith('._buffer)'):
            n_sb += 1
            k = ctx.fold(n.left.slice)
            rep.ob('sign.integer-sign-bit-in-last-byte', 'Integer: %s' % short(n, 50), k in (-1, 1),
                   'byte %r is not the high byte: the sign is wrong whenever bit 7 of that byte differs from the sign (128 reads as negative)' % (k,), ctx.where(n))
    rep.floor('sign.integer-sign-bit-in-last-byte', n_sb, 4, 'sign-bit reads in class Integer')
    # x*y and y*x (x+y and y+x) take the same path: every branch condition of the operator treats the operands alike
    for name in ('mul', 'add'):
        fn = ctx.fn('%s:%s' % (V, name))
        n_t = 0
        for n in own_nodes(fn):
            if isinstance(n, ast.If):
                n_t += 1
                t = norm(n.test)
                parts = sorted(norm(v) for v in n.test.values) if isinstance(n.test, ast.BoolOp) else [t]
                sw = sorted(_swap_lr(x) for x in parts)
                mentions = any(isinstance(x, ast.Name) and x.id in ('left', 'right') for x in ast.walk(n.test))
                # `add` converts its left operand first and then matches the types of both: the test on `left` alone is
                # followed by match_types(left, right), which is what makes it symmetric
                one_sided_ok = name == 'add' and t == 'isinstance(left, numbers.Number)'
                rep.ob('commutative.branches-treat-operands-alike', 'values.%s: `%s`' % (name, short(n.test, 60)), (not mentions) or parts == sw or one_sided_ok,
                       'the branch is chosen by one operand only: x%sy and y%sx are computed differently (a zero with its sign bit set on the left is returned as it is)' % (('*', '*') if name == 'mul' else ('+', '+')),
                       ctx.where(n))
        rep.floor('commutative.branches-treat-operands-alike', n_t, 1, 'branches of values.%s' % name)
    isign = ctx.fn(N + ':Integer.sign')
    rets = sorted(norm(r.value) for r in vm.returns(isign))
    rep.ob('sign.values', 'Integer.sign returns only -1, 0, 1', rets == ['-1', '0', '1'], repr(rets), ctx.where(isign))
    sgn = ctx.fn(V + ':sgn_')
    rep.ob('sgn.wraps-sign', 'SGN = Integer.from_int(pass_number(x).sign())',
           norm(vm.returns(sgn)[0].value) == 'numbers.Integer(None, x._values).from_int(pass_number(x).sign())', '', ctx.where(sgn))
    for name, meth in (('neg', 'ineg'), ('abs_', 'iabs')):
        fn = ctx.fn('%s:%s' % (V, name))
        last = vm.returns(fn)[-1].value
        rep.ob('negabs.on-float-copy', 'values.%s = operand.to_float().clone().%s()' % (name, meth),
               norm(last) == 'inp.to_float().clone().%s()' % meth, short(last), ctx.where(fn))
    # (iv) zero shortcuts in _add_den come first
    ad = ctx.fn(N + ':Float._add_den')
    ifs = [st for st in ad.body if isinstance(st, ast.If)]
    got = [(norm(i.test), norm(i.body[0])) for i in ifs[:2]]
    rep.ob('add.zero-operand-shortcut', '_add_den returns the other operand unchanged when one exponent is 0',
           got == [('rexp == 0', 'return (lexp, lman, lneg)'), ('lexp == 0', 'return (rexp, rman, rneg)')], repr(got), ctx.where(ad))
    first_arith = None
    for st in ad.body:
        if any(isinstance(n, (ast.BinOp, ast.AugAssign)) for n in own_nodes(st)) and not isinstance(st, ast.If):
            first_arith = st
            break
    rep.ob('add.zero-operand-shortcut', 'zero shortcuts precede all arithmetic',
           first_arith is not None and len(ifs) >= 2 and ad.body.index(ifs[1]) < ad.body.index(first_arith), '', ctx.where(ad))
    # Number.add is clone().iadd
    nadd = ctx.fn(N + ':Number.add')
    rep.ob('add.non-inplace', 'Number.add = self.clone().iadd(rhs)', norm(vm.returns(nadd)[0].value) == 'self.clone().iadd(rhs)', '', ctx.where(nadd))


def variants(ctx):
    Va = mu.Variant

    def in_fn(fname, f):
        return lambda tree: f(mu.find_def(tree, fname))

    return [
        Va('mul-returns-left-zero-as-it-is', 'break', V,
           in_fn('mul', lambda fn: mu.insert_before(fn, lambda st: isinstance(st, ast.If), 'if isinstance(left, numbers.Number) and left.is_zero():\n    return left.to_float()')),
           expect='commutative.branches-treat-operands-alike'),
        Va('mul-extra-branch-not-on-operands', 'neutral', V,
           in_fn('mul', lambda fn: mu.insert_before(fn, lambda st: isinstance(st, ast.If), 'if debug_flag:\n    pass')) ),
        Va('integer-sign-from-low-byte', 'break', N,
           in_fn('Integer.sign', lambda fn: mu.replace_expr(fn, mu.text_is('bytearray(self._buffer)[-1] & 128'), 'bytearray(self._buffer)[0] & 128')),
           expect='sign.integer-sign-bit-in-last-byte'),
        Va('sub-mutates-left', 'break', V,
           in_fn('sub', lambda fn: mu.replace_expr(fn, mu.text_is('left.clone().isub(right)'), 'left.isub(right)')), expect='no-operand-mutation'),
        Va('mul-drops-clone', 'break', V,
           in_fn('mul', lambda fn: mu.replace_expr(fn, mu.text_is('left.to_single().clone().imul(right.to_single())'),
                                                   'left.to_single().imul(right.to_single())')), expect='no-operand-mutation'),
        Va('int-floor-in-place', 'break', V,
           in_fn('int_', lambda fn: mu.replace_expr(fn, mu.text_is('inp.clone().ifloor()'), 'inp.ifloor()')), expect='no-operand-mutation'),
        Va('neg-in-place', 'break', V,
           in_fn('neg', lambda fn: mu.replace_expr(fn, mu.text_is('inp.to_float().clone().ineg()'), 'inp.to_float().ineg()')),
           expect='no-operand-mutation'),
        Va('ineg-sets-instead-of-flips', 'break', N,
           in_fn('Float.ineg', lambda fn: mu.replace_expr(fn, mu.text_is('bytearray(self._buffer)[-2] ^ 128'), 'bytearray(self._buffer)[-2] | 128')),
           expect='sign.neg-is-involution'),
        Va('add-narrows-left-operand', 'break', V,
           in_fn('add', lambda fn: mu.replace_expr(fn, mu.text_is('left.to_float()'), 'left.to_single()')), expect='promotion.add-sub'),
        Va('mul-single-test-first', 'break', V, in_fn('mul', _swap_double_single), expect='promotion'),
        Va('div-double-test-left-only', 'break', V,
           in_fn('div', lambda fn: mu.replace_expr(fn, mu.text_is('isinstance(left, numbers.Double) or isinstance(right, numbers.Double)'), 'isinstance(left, numbers.Double)')), expect='promotion.both-operands'),
        Va('add-den-zero-check-late', 'break', N, in_fn('Float._add_den', _move_zero_checks), expect='add.zero'),
        Va('sign-returns-two', 'break', N,
           in_fn('Float.sign', lambda fn: mu.replace_stmt(fn, mu.text_is('return 1'), 'return 2')), expect='sign.values'),
        Va('clone-renamed-local', 'neutral', V, in_fn('sub', lambda fn: mu.rename_local(fn, 'left', 'minuend'))),
        Va('fix-uses-new-copy', 'neutral', V,
           in_fn('fix_', lambda fn: mu.replace_expr(fn, mu.text_is('pass_number(inp).clone().itrunc()'),
                                                    'pass_number(inp).new().copy_from(inp).itrunc()'))),
    ]


def _swap_double_single(fn):
    top = [st for st in fn.body if isinstance(st, ast.If)][0]
    # if String.. elif Double.. else Single  ->  make the Double branch test Single
    second = top.orelse[0]
    second.test = ast.parse('isinstance(left, numbers.Single) or isinstance(right, numbers.Single)', mode='eval').body
    return True


def _move_zero_checks(fn):
    ifs = [st for st in fn.body if isinstance(st, ast.If)][:2]
    for i in ifs:
        fn.body.remove(i)
    # after the swap statement
    k = [j for j, st in enumerate(fn.body) if isinstance(st, ast.If)][0] + 1
    fn.body[k:k] = ifs
    return True

"""
C04 -- floating-point error bounds: ONLY the signalling clauses are decided.

Decides:
 * Float.idiv: a zero divisor sets the receiver to the signed maximum and raises
   ZeroDivisionError(self) before any division; a zero dividend returns early;
 * Float._check_limits: exp > 255 sets the signed maximum and raises
   OverflowError(self); exp <= 0 zeroes the exponent byte and returns False;
   every store of an exponent byte in numbers.py is dominated by a
   _check_limits test (so no out-of-range exponent is ever packed);
 * _normalise flushes to zero only for man == 0 or exp <= 0;
 * the public entry points (values.add/sub/mul/div/pow/intdiv/mod_/to_single/
   to_double, Values.from_value/from_repr) are @float_safe, float_safe catches
   ValueError+ArithmeticError and defers to the handler of its first argument;
   FloatErrorHandler.handle returns the exception payload when soft-handled and
   the soft types are exactly Overflow and Division by zero.
NOT decided (stated in MANIFEST): the ulp bounds, and the known loss
1D-31*1 = 0 -- the early exit `lexp < -31` in Float.imul is shared by Single
and Double; deciding that it is wrong for Double needs exponent bookkeeping
through _bring_to_range/_normalise, i.e. numeric reasoning.
"""
import ast

from ..source import class_methods, norm, short, decorators
from ..flow import own_nodes
from .. import mutate as mu
from .. import valuesmodel as vm

PROP = 'C04'
LEVEL = 'other'
TECHNIQUE = 'static analysis: must-precede path facts for the signalling branches, decorator/interceptor table'
EXPLANATION = __doc__

N, V = vm.NUMBERS, vm.VALUES
ENTRY = ['add', 'sub', 'mul', 'div', 'pow', 'intdiv', 'mod_', 'to_single', 'to_double', 'Values.from_value', 'Values.from_repr']


def _shared(ctx, rep):
    """Two structural necessary conditions of the error bound that other modules own: (C03) the rounding step of
    _normalise keeps the mantissa below its limit; (C05) operands of + - * / are only widened, never narrowed."""
    from . import c03, c05
    for mod, prefixes, what in ((c03, ('normalise.',), 'rounding keeps the mantissa in [mask, 2*mask)'),
                                (c05, ('promotion.',), 'operands are promoted to the wider type, never narrowed')):
        sub = type(rep)(mod.PROP)
        mod.check(ctx, sub)
        n = 0
        for r, v in sub.by_rule.items():
            if r.startswith(prefixes):
                n += v[0]
        for f in sub.findings:
            if f.rule.startswith(prefixes):
                rep.ob('shared.' + f.rule, f.construct, False, f.detail, f.where)
        rep.ob('shared.%s' % mod.PROP, '%s (%d obligations of %s)' % (what, n, mod.PROP), n > 0 and not sub.errors, '; '.join(sub.errors))


def _exponent_limits(ctx, rep):
    """Float is the shared base of Single (24-bit mantissa) and Double (56-bit).  An exponent compared with a bare
    integer there is right for both only if the number does not depend on the mantissa width: 0 and 255 (the 8-bit
    exponent field).  Anything else has to be built from the type's own attributes (size, bias, digits ...).  On
    the pinned tree imul tested `lexp < -31`, the single-precision product width, and flushed representable
    double products (1D-30*1) to zero (repaired in /repo 60da5cf7)."""
    import re
    cls = ctx.cls(vm.NUMBERS + ':Float')
    is_exp = re.compile(r'^[lr]?exp\d*$')
    n = 0
    for m in class_methods(cls).values():
        for c in own_nodes(m):
            if not (isinstance(c, ast.Compare) and len(c.ops) == 1):
                continue
            sides = [c.left, c.comparators[0]]
            for a, b in (sides, sides[::-1]):
                if isinstance(a, ast.Name) and is_exp.match(a.id):
                    n += 1
                    lit = None
                    if isinstance(b, ast.Constant) and isinstance(b.value, int):
                        lit = b.value
                    elif isinstance(b, ast.UnaryOp) and isinstance(b.op, ast.USub) and isinstance(b.operand, ast.Constant) and isinstance(b.operand.value, int):
                        lit = -b.operand.value
                    ok = lit is None or lit in (0, 255, 256)
                    rep.ob('exponent.limits-independent-of-mantissa-width', 'Float.%s: %s' % (m.name, norm(c)), ok,
                           'a bare %s cannot be right for both the 24-bit and the 56-bit mantissa: derive the limit from the type (size, bias, digits)' % lit, ctx.where(c))
    rep.floor('exponent.limits-independent-of-mantissa-width', n, 3, 'exponent comparisons in Float')


def check(ctx, rep):
    _shared(ctx, rep)
    _exponent_limits(ctx, rep)
    # idiv
    idiv = ctx.fn(N + ':Float.idiv')
    fl = ctx.flow(idiv)
    zr = [r for r, _ in ctx.raises_in(idiv) if isinstance(r.exc, ast.Call) and norm(r.exc.func) == 'ZeroDivisionError']
    ok = len(zr) == 1 and fl.knows(zr[0], 'right_in.is_zero()', True) and norm(zr[0].exc.args[0]) == 'self'
    rep.ob('div-zero.raise', 'Float.idiv raises ZeroDivisionError(self) under right_in.is_zero()', ok, '', ctx.where(idiv))
    if zr:
        blk = zr[0]._parent.body
        setmax = [s for s in blk if norm(s) == 'self.from_bytes(self.neg_max if self.is_negative() else self.pos_max)']
        rep.ob('div-zero.signed-maximum', 'receiver is set to the signed maximum before raising',
               len(setmax) == 1 and blk.index(setmax[0]) < blk.index(zr[0]), '', ctx.where(zr[0]))
    divs = [n for n in own_nodes(idiv) if isinstance(n, ast.Call) and norm(n.func) == 'self._div_den']
    rep.floor('div-zero.must-precede', len(divs), 1, 'division sites')
    for d in divs:
        rep.ob('div-zero.must-precede', 'Float.idiv: %s' % short(d, 50), fl.knows(d, 'right_in.is_zero()', False), '', ctx.where(d))
        rep.ob('div-zero.zero-dividend-first', 'zero dividend returns before dividing', fl.knows(d, 'self.is_zero()', False), '', ctx.where(d))
    # _check_limits
    cl = ctx.fn(N + ':Float._check_limits')
    fl = ctx.flow(cl)
    ov = [r for r, _ in ctx.raises_in(cl) if isinstance(r.exc, ast.Call) and norm(r.exc.func) == 'OverflowError']
    ok = len(ov) == 1 and fl.knows(ov[0], 'exp > 255', True) and norm(ov[0].exc.args[0]) == 'self'
    rep.ob('overflow.raise', '_check_limits raises OverflowError(self) iff exp > 255', ok, '', ctx.where(cl))
    if ov:
        blk = ov[0]._parent.body
        setmax = [s for s in blk if norm(s) == 'self.from_bytes(self.neg_max if neg else self.pos_max)']
        rep.ob('overflow.signed-maximum', 'receiver is set to the signed maximum before raising',
               len(setmax) == 1 and blk.index(setmax[0]) < blk.index(ov[0]), '', ctx.where(ov[0]))
    rets = dict((norm(r.value), dict((f.text, f.pol) for f in fl.facts(r))) for r in vm.returns(cl))
    rep.ob('underflow.flush', '_check_limits returns False exactly for exp <= 0 (and True otherwise)',
           set(rets) == {'False', 'True'} and rets['False'].get('exp <= 0') is True and rets['True'].get('exp <= 0') is False
           and rets['True'].get('exp > 255') is False, repr(rets), ctx.where(cl))
    z = [s for s in own_nodes(cl) if isinstance(s, ast.Assign) and norm(s.targets[0]) == 'self._buffer[-1:]']
    rep.ob('underflow.flush', 'underflow zeroes the exponent byte', len(z) == 1 and norm(z[0].value) == 'int2byte(0)'
           and fl.knows(z[0], 'exp <= 0', True), '', ctx.where(cl))
    # pos_max / neg_max encodings: all mantissa bits set, exponent 255, sign bit
    from ..source import class_assigns
    for cname, n in (('Single', 4), ('Double', 8)):
        ca = class_assigns(ctx.cls('%s:%s' % (N, cname)))
        pm, nm = ctx.fold(ca['pos_max']), ctx.fold(ca['neg_max'])
        rep.ob('maximum.encoding', '%s.pos_max/neg_max are the largest magnitudes' % cname,
               pm == b'\xff' * (n - 2) + b'\x7f\xff' and nm == b'\xff' * n, '%r %r' % (pm, nm), N)
    # every exponent-byte store is dominated by _check_limits
    n_st = 0
    for fn in ctx.idx.functions(N):
        if fn.name == '_check_limits':
            continue
        fl = None
        for s in own_nodes(fn):
            if isinstance(s, ast.Assign) and norm(s.targets[0]) == 'self._buffer[-1:]' and norm(s.value) == 'int2byte(exp)':
                n_st += 1
                fl = fl or ctx.flow(fn)
                facts = [(f.text, f.pol) for f in fl.facts(s)]
                ok = ('self._check_limits(exp, neg)', True) in facts or ('not self._check_limits(exp, neg)', False) in facts
                rep.ob('limits.exponent-store-guarded', '%s: %s' % (fn.name, short(s)), ok,
                       'exponent byte stored without passing _check_limits', ctx.where(s))
    rep.floor('limits.exponent-store-guarded', n_st, 3, 'exponent stores')
    # _normalise zero flush
    nm = ctx.fn(N + ':Float._normalise')
    first_if = [s for s in nm.body if isinstance(s, ast.If)][0]
    rep.ob('underflow.normalise', '_normalise flushes to zero only for man == 0 or exp <= 0',
           norm(first_if.test) == 'man == 0 or exp <= 0', norm(first_if.test), ctx.where(nm))
    # entry points
    for name in ENTRY:
        fn = ctx.fn('%s:%s' % (V, name))
        rep.ob('interceptor.float_safe', 'values.%s is @float_safe' % name, 'float_safe' in decorators(fn), repr(decorators(fn)), ctx.where(fn))
    fs = ctx.fn(V + ':float_safe')
    hs = [h for n in ast.walk(fs) if isinstance(n, ast.Try) for h in n.handlers]
    caught = set()
    for h in hs:
        if h.type is not None:
            caught |= set(norm(e) for e in (h.type.elts if isinstance(h.type, ast.Tuple) else [h.type]))
    rep.ob('interceptor.catches', 'float_safe catches ValueError and ArithmeticError', {'ValueError', 'ArithmeticError'} <= caught, repr(caught), ctx.where(fs))
    rep.ob('interceptor.defers', 'float_safe returns args[0].error_handler.handle(e)',
           any(norm(r.value) == 'args[0].error_handler.handle(e)' for h in hs for r in own_nodes(h) if isinstance(r, ast.Return)),
           '', ctx.where(fs))
    hd = ctx.fn(V + ':FloatErrorHandler.handle')
    fl = ctx.flow(hd)
    pay = [r for r in vm.returns(hd) if norm(r.value) == 'e.args[0]']
    rep.ob('handler.payload', 'handle() returns the payload e.args[0] when it is a Float',
           len(pay) == 1 and fl.knows(pay[0], 'e.args and isinstance(e.args[0], numbers.Float)', True), '', ctx.where(hd))
    soft = ctx.fold(class_assigns(ctx.cls(V + ':FloatErrorHandler'))['soft_types'])
    rep.ob('handler.soft-types', 'soft types are exactly Overflow and Division by zero', set(soft) == {6, 11}, repr(soft), V)
    # _call_float_function intercepts and attaches the signed... (positive) maximum of the right class
    cf = ctx.fn(V + ':_call_float_function')
    hs = [h for n in own_nodes(cf) if isinstance(n, ast.Try) for h in n.handlers]
    rep.ob('interceptor.math-functions', '_call_float_function converts ValueError/ArithmeticError through the handler',
           len(hs) == 1 and any(norm(r.value) == 'feh.handle(e.__class__(infty))' for r in own_nodes(hs[0]) if isinstance(r, ast.Return)),
           '', ctx.where(cf))


def variants(ctx):
    Va = mu.Variant

    def in_fn(fname, f):
        return lambda tree: f(mu.find_def(tree, fname))

    return [
        Va('imul-single-width-underflow-bound', 'break', vm.NUMBERS,
           lambda tree: mu.replace_expr(mu.find_def(tree, 'Float.imul'), mu.text_is('lexp < 1 - 8 * self.size'), 'lexp < -31'), expect='exponent.limits'),
        Va('idiv-no-zero-check', 'break', N, in_fn('Float.idiv', lambda fn: mu.remove_stmt(fn, mu.stmt_has('right_in.is_zero()', ast.If))), expect='div-zero'),
        Va('idiv-raise-without-max', 'break', N,
           in_fn('Float.idiv', lambda fn: mu.remove_stmt(fn, mu.stmt_has('self.from_bytes(self.neg_max', ast.Expr))), expect='div-zero.signed-maximum'),
        Va('limits-256', 'break', N,
           in_fn('Float._check_limits', lambda fn: mu.replace_expr(fn, mu.text_is('exp > 255'), 'exp > 256')), expect='overflow'),
        Va('limits-underflow-keeps-exponent', 'break', N,
           in_fn('Float._check_limits', lambda fn: mu.remove_stmt(fn, mu.stmt_has('int2byte(0)', ast.Assign))), expect='underflow'),
        Va('from-int-unguarded-exponent', 'break', N,
           in_fn('Float.from_int', lambda fn: mu.replace_stmt(fn, mu.stmt_has('self._check_limits', ast.If), 'pass')), expect='limits.exponent-store-guarded'),
        Va('mul-not-float-safe', 'break', V, in_fn('mul', lambda fn: mu.remove_decorator(fn, 'float_safe')), expect='interceptor.float_safe'),
        Va('handler-returns-none', 'break', V,
           in_fn('FloatErrorHandler.handle', lambda fn: mu.replace_stmt(fn, mu.text_is('return e.args[0]'), 'return None')), expect='handler.payload'),
        Va('pos-max-wrong', 'break', N,
           lambda tree: mu.replace_expr(mu.find_def(tree, 'Single'), lambda n: isinstance(n, ast.Constant) and n.value == b'\xff\xff\x7f\xff', "b'\\xff\\xff\\x7f\\xfe'"),
           expect='maximum.encoding'),
        Va('normalise-reformatted', 'neutral', N, in_fn('Float._normalise', lambda fn: mu.insert_first(fn, 'pass'))),
    ]

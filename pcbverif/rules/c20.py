"""
C20 -- DEF FN never disturbs the caller's variables.

Decides, in UserFunction.evaluate:
 * save/restore pairing: every name whose value is saved (varsave[name] = view.clone())
   is restored (copy_from) inside a `finally` that encloses the expression parse,
   so the restore runs whether the evaluation returns or raises;
 * restoration copies *into the existing buffer* (view(name).copy_from(saved)),
   it does not rebind the variable (FOR counters and string pointers rely on
   buffer identity);
 * every binding of a parameter (scalars.set(name, value)) happens after the
   save loop, and nothing that can fail with a BASIC error lies between the
   first binding and the `try` (only scalars.set on already-allocated names,
   complete_name, attribute stores, tell());
 * the recursion flag is set before the parse and cleared in the same
   `finally`; the self-call test raises OUT_OF_MEMORY before any variable is
   saved or bound;
 * arguments are converted with TYPE_TO_CONV of the parameter's completed name
   before binding;
 * GC roots: every value held in a Python local across the parse call that may
   be a string (converted arguments, saved values) is registered in
   memory.temp_values before the parse and released in the `finally`
   (otherwise a collection inside the body detaches the saved string -- the
   defect repaired in /repo 1e89bbad).
Together with C05(i) (no operand mutation in values.py).
"""
import ast

from ..source import norm, short
from ..flow import own_nodes
from .. import mutate as mu

PROP = 'C20'
LEVEL = 'other'
TECHNIQUE = 'static analysis: typestate/pairing over try-finally structure, must-precede ordering, GC-root registration pairing'
EXPLANATION = __doc__

UF = 'pcbasic/basic/parser/userfunctions.py'
SAFE_BEFORE_TRY = ('self._memory.scalars.set', 'self._memory.complete_name', 'self._codestream.tell', 'zip')


def _inside(node, container_list):
    """node lies (at any depth) in one of the statements of container_list."""
    for st in container_list:
        for x in ast.walk(st):
            if x is node:
                return True
    return False


def _covered(fn, node, tr):
    """The finally of `tr` runs whenever control has passed `node`: node lies in tr.body, or node's statement precedes
    tr in the same block with only calls that cannot fail with a BASIC error in between."""
    if _inside(node, tr.body):
        return True
    for blk_owner in ast.walk(fn):
        for fld in ('body', 'orelse'):
            blk = getattr(blk_owner, fld, None)
            if isinstance(blk, list) and tr in blk:
                ti = blk.index(tr)
                for i, st in enumerate(blk[:ti]):
                    if _inside(node, [st]):
                        bad = []
                        for later in blk[i + 1:ti]:
                            for c in own_nodes(later):
                                if isinstance(c, ast.Call) and norm(c.func) not in SAFE_BEFORE_TRY:
                                    bad.append(short(c))
                                if isinstance(c, ast.Raise):
                                    bad.append('raise')
                        return not bad
    return False


def _pos(n):
    return (n.lineno, n.col_offset)


def check(ctx, rep):
    ev = ctx.fn(UF + ':UserFunction.evaluate')
    tries = [t for t in own_nodes(ev) if isinstance(t, ast.Try) and t.finalbody]
    rep.ob('structure.try-finally', 'evaluate undoes its effects in try/finally blocks', 1 <= len(tries) <= 2, '%d' % len(tries), ctx.where(ev))
    if not tries:
        return
    in_finally = [n for t in tries for st in t.finalbody for n in ast.walk(st)]
    fin_ids = set(id(n) for n in in_finally)
    main = [n for n in own_nodes(ev) if id(n) not in fin_ids]      # everything that is not clean-up code

    def tries_with(pred):
        return [t for t in tries if any(pred(n) for st in t.finalbody for n in ast.walk(st))]
    # parse call inside the try whose finally restores the code pointer
    parse_calls = [n for n in main if isinstance(n, ast.Call) and norm(n.func) == 'self._expression_parser.parse']
    seek_tries = tries_with(lambda n: isinstance(n, ast.Call) and norm(n) == 'self._codestream.seek(save_loc)')
    rep.ob('structure.parse-inside-try', 'the function body is parsed inside the try', len(parse_calls) == 1 and len(seek_tries) == 1 and _inside(parse_calls[0], seek_tries[0].body),
           '', ctx.where(ev))
    other_parse = [n for n in in_finally if isinstance(n, ast.Call) and 'parse' in norm(n.func)]
    rep.ob('structure.parse-inside-try', 'no expression parsing in the clean-up code', not other_parse, repr([short(o) for o in other_parse]), ctx.where(ev))
    seeks = [norm(n) for n in in_finally if isinstance(n, ast.Call) and norm(n.func) == 'self._codestream.seek']
    tells = [a for a in main if isinstance(a, ast.Assign) and norm(a) == 'save_loc = self._codestream.tell()']
    rep.ob('codestream.restored', 'finally restores the code pointer saved before the parse',
           seeks == ['self._codestream.seek(save_loc)'] and len(tells) == 1 and len(seek_tries) == 1 and not _inside(tells[0], seek_tries[0].body)
           and _covered(ev, tells[0], seek_tries[0]) and _pos(tells[0]) < _pos(parse_calls[0]) if parse_calls else False, repr(seeks), ctx.where(ev))
    # saves
    saves = [n for n in main if isinstance(n, ast.Assign) and isinstance(n.targets[0], ast.Subscript) and norm(n.targets[0].value) == 'varsave']
    rep.floor('save', len(saves), 1, 'save sites')
    for n in saves:
        rep.ob('save.copies-value', 'saved value is a copy of the variable: %s' % short(n),
               norm(n.value) == 'self._memory.scalars.view(%s).clone()' % norm(n.targets[0].slice), '', ctx.where(n))
    # inside the loop the save is unconditional: no `continue`, `break` or branch can skip a parameter (a parameter
    # that does not exist yet is created first, so that its later removal / restoration to 0 is possible)
    save_loops = []
    for n_ in saves:
        s_ = n_._parent
        if isinstance(s_, ast.For):
            save_loops.append(s_)
            skips = [x for x in own_nodes(s_) if isinstance(x, (ast.Continue, ast.Break))]
            creates = [c for c in own_nodes(s_) if isinstance(c, ast.Call) and norm(c.func) == 'self._memory.scalars.set' and len(c.args) == 1]
            rep.ob('save.every-parameter', 'every parameter is saved, also one that did not exist before the call', not skips and len(creates) == 1,
                   'a parameter can be skipped by the save loop (%s): after the call it keeps the argument value' % ([type(x).__name__ for x in skips] or 'save is conditional'),
                   ctx.where(s_))
        else:
            rep.ob('save.every-parameter', 'every parameter is saved, also one that did not exist before the call', False, 'the save is conditional', ctx.where(n_))
    if save_loops:
        lp = save_loops[0]
        src = [norm(a.value) for a in main if isinstance(a, ast.Assign) and norm(a.targets[0]) == norm(lp.iter)]
        rep.ob('save.covers-all-parameters', 'save loop runs over every parameter name',
               src == ['[self._memory.complete_name(_v) for _v in self._varnames]'], repr(src), ctx.where(lp))
    # restores in a finally that runs whenever a save has happened
    restores = [n for n in in_finally if isinstance(n, ast.Call) and isinstance(n.func, ast.Attribute) and n.func.attr == 'copy_from']
    rest_tries = tries_with(lambda n: any(n is r for r in restores))
    ok = len(restores) == 1 and norm(restores[0].func.value) == 'self._memory.scalars.view(name)' and norm(restores[0].args[0]) == 'varsave[name]'
    rep.ob('restore.in-finally-into-existing-buffer', 'finally: scalars.view(name).copy_from(varsave[name]) for every saved name', ok,
           repr([short(r) for r in restores]), ctx.where(ev))
    rl = [s_ for t in rest_tries for s_ in t.finalbody if isinstance(s_, ast.For) and norm(s_.iter) == 'varsave']
    rep.ob('restore.covers-all-saved', 'finally iterates over all of varsave', len(rl) == 1 and any(r in list(own_nodes(rl[0])) for r in restores),
           '', ctx.where(ev))
    for n in saves:
        rep.ob('restore.covers-all-saved', 'the restoring finally runs whenever a value has been saved', len(rest_tries) == 1 and _covered(ev, n, rest_tries[0]),
               'a failure after the save and outside the try leaves the caller`s variable changed', ctx.where(n))
    rebinding = [n for n in in_finally if isinstance(n, ast.Call) and norm(n.func) == 'self._memory.scalars.set']
    rep.ob('restore.in-finally-into-existing-buffer', 'finally does not rebind variables with scalars.set', not rebinding, '', ctx.where(ev))
    # bindings after saves, under the restoring finally
    binds = [n for n in main if isinstance(n, ast.Call) and norm(n.func) == 'self._memory.scalars.set' and len(n.args) == 2]
    rep.floor('bind', len(binds), 1, 'binding sites')
    last_save = max(_pos(n) for n in saves) if saves else (0, 0)
    for n in binds:
        rep.ob('bind.after-save', 'parameter binding follows the save loop: %s' % short(n), last_save < _pos(n) and not any(_inside(n, [lp_]) for lp_ in save_loops), '', ctx.where(n))
        rep.ob('bind.nothing-fallible-before-try', 'a failure after a binding still restores the variables', len(rest_tries) == 1 and _covered(ev, n, rest_tries[0]), '', ctx.where(n))
    # recursion flag
    flag_set = [a for a in main if isinstance(a, ast.Assign) and norm(a) == 'self._is_parsing = True']
    flag_clr = [a for a in in_finally if isinstance(a, ast.Assign) and norm(a) == 'self._is_parsing = False']
    flag_tries = tries_with(lambda n: any(n is c for c in flag_clr))
    rep.ob('recursion.flag-paired', 'flag set once before the parse and cleared in a finally that then runs',
           len(flag_set) == 1 and len(flag_clr) == 1 and len(flag_tries) == 1 and _covered(ev, flag_set[0], flag_tries[0])
           and bool(parse_calls) and _pos(flag_set[0]) < _pos(parse_calls[0]) and _inside(parse_calls[0], flag_tries[0].body), '', ctx.where(ev))
    other_sets = [n for n in own_nodes(ev) if isinstance(n, ast.Assign) and norm(n.targets[0]) == 'self._is_parsing' and n not in flag_set + flag_clr]
    rep.ob('recursion.flag-paired', 'no other writes to the flag in evaluate', not other_sets, '', ctx.where(ev))
    fl = ctx.flow(ev)
    rec = [r for r, c in ctx.raises_in(ev) if c == 'OUT_OF_MEMORY']
    ok = len(rec) == 1 and fl.knows(rec[0], 'self._is_parsing', True)
    rep.ob('recursion.self-call-raises', 'a function evaluated while already evaluating raises Out of memory', ok, '', ctx.where(ev))
    # ... on every call: a test that sits in the loop over the arguments is skipped by a function without parameters
    # (DEF FNA=FNA+1 then recurses until Python's own limit)
    for r in rec:
        loops, p_ = [], getattr(r, '_parent', None)
        while p_ is not None and p_ is not ev:
            if isinstance(p_, (ast.For, ast.While)):
                loops.append(short(p_, 40))
            p_ = getattr(p_, '_parent', None)
        rep.ob('recursion.tested-on-every-call', 'the self-call test does not depend on the number of arguments', not loops,
               'inside %s: a function without parameters never reaches it and recurses into RecursionError' % loops, ctx.where(r))
    if rec:
        first_touch = min([_pos(n) for n in saves] + [_pos(n) for n in binds] + [_pos(n) for n in flag_set])
        not_cleared = not any(_inside(rec[0], t.body) for t in flag_tries)
        rep.ob('recursion.before-any-variable-touched', 'the self-call test precedes saving, binding and flag setting, and does not clear the caller`s flag',
               _pos(rec[0]) < first_touch and not_cleared, '', ctx.where(rec[0]))
    # conversions: every argument reaches its parameter converted to the parameter's type -- up front with
    # TYPE_TO_CONV[sigil of the completed name], and in any case by Scalars.set (to_type(name[-1:], value)); since the
    # bindings lie under the restoring finally, a conversion error raised at binding time restores the variables too
    conv = [a for a in main if isinstance(a, ast.Assign) and norm(a.targets[0]) == 'conversions']
    sset = ctx.fn('pcbasic/basic/memory/scalars.py:Scalars.set')
    tc = dict((norm(a.targets[0]), norm(a.value)) for a in own_nodes(sset) if isinstance(a, ast.Assign) and isinstance(a.targets[0], ast.Name))
    set_converts = any(isinstance(a, ast.Assign) and norm(a.targets[0]) == 'value' and norm(a.value) in ('values.to_type(type_char, value)', 'values.to_type(name[-1:], value)')
                       for a in own_nodes(sset)) and tc.get('type_char', 'name[-1:]') == 'name[-1:]'
    rep.ob('arguments.converted-to-parameter-type', 'Scalars.set converts the bound value to the type of the name it binds', set_converts, '', ctx.where(sset))
    if conv:
        rep.ob('arguments.converted-to-parameter-type', 'arguments are converted with TYPE_TO_CONV[completed name sigil]',
               len(conv) == 1 and 'values.TYPE_TO_CONV[self._memory.complete_name(name)[-1:]]' in norm(conv[0].value), '', ctx.where(ev))
    t2c = ctx.mod('pcbasic/basic/values/values.py').assigns.get('TYPE_TO_CONV')
    got = dict((norm(k), norm(v)) for k, v in zip(t2c.keys, t2c.values)) if isinstance(t2c, ast.Dict) else {}
    rep.ob('arguments.converted-to-parameter-type', 'TYPE_TO_CONV maps each sigil to its conversion',
           got == {'STR': 'pass_string', 'INT': 'to_integer', 'SNG': 'to_single', 'DBL': 'to_double'}, repr(got), 'pcbasic/basic/values/values.py')
    # result converted to function type
    rets = [r.value for r in main if isinstance(r, ast.Return)]
    parsed = [norm(a.targets[0]) for a in main if isinstance(a, ast.Assign) and a.value in parse_calls]
    conv_call = rets[0].func.value if len(rets) == 1 and isinstance(rets[0], ast.Call) and isinstance(rets[0].func, ast.Attribute) and rets[0].func.attr == 'clone' else None
    ok = conv_call is not None and isinstance(conv_call, ast.Call) and norm(conv_call.func) == 'values.to_type' and len(conv_call.args) == 2 \
        and norm(conv_call.args[0]) == 'self._sigil' and norm(conv_call.args[1]) in parsed
    rep.ob('result.converted', 'the result of the parse is converted to the function sigil and returned as a copy', ok,
           '%r -- a result that is just a parameter is a view on that variable; restoring the caller`s value in the finally changes it (DEF FNA(X)=X: FNA(3) gives 0)' % [norm(r) for r in rets], ctx.where(ev))
    # what is collected in args is a COPY of the argument (converted or not): an argument that is a plain variable is a view on
    # that variable's storage and would change when a parameter of the same name is bound (FNP(Q,P) with parameters P,Q)
    arg_loops = [s_ for s_ in main if isinstance(s_, ast.For) and 'iargs' in norm(s_.iter)]
    ok = False
    detail = ''
    if len(arg_loops) == 1:
        lp = arg_loops[0]
        defs = dict((norm(a.targets[0]), norm(a.value)) for a in own_nodes(lp) if isinstance(a, ast.Assign))
        appended = [norm(n.args[0]) for n in own_nodes(lp) if isinstance(n, ast.Call) and norm(n.func) == 'args.append']
        if isinstance(lp.target, ast.Tuple) and norm(lp.iter) == 'zip(iargs, conversions)':
            a_name, c_name = [norm(e) for e in lp.target.elts]
            accepted = ('%s(%s).clone()' % (c_name, a_name), '%s.clone()' % a_name)
        elif isinstance(lp.target, ast.Name) and norm(lp.iter) == 'iargs':
            accepted = ('%s.clone()' % lp.target.id,)
        else:
            accepted = ()
        got = defs.get(appended[0], appended[0]) if len(appended) == 1 else None
        ok = got in accepted
        detail = 'collected: %s' % got
    rep.ob('arguments.converted-value-is-bound', 'the value collected for binding is a copy of the argument (converted with its own conversion, or as given)', ok,
           detail + ' -- without the copy an argument that names a variable changes when an earlier parameter of that name is bound', ctx.where(ev))
    zipped = [norm(s_.iter) for s_ in main if isinstance(s_, ast.For) and any(b_ in list(own_nodes(s_)) for b_ in binds)]
    rep.ob('arguments.converted-value-is-bound', 'parameters are bound pairwise from the collected arguments', zipped == ['zip(varnames, args)'], repr(zipped), ctx.where(ev))
    # GC roots: registered where they are created, released in a finally that runs whenever one was registered
    held = []   # (description, value-text, node)
    for n in main:
        if isinstance(n, ast.Call) and norm(n.func) == 'args.append':
            held.append(('converted argument', norm(n.args[0]), n))
        if isinstance(n, ast.Assign) and isinstance(n.targets[0], ast.Subscript) and norm(n.targets[0].value) == 'varsave':
            held.append(('saved value', norm(n.targets[0]), n))
    rep.floor('gc-roots', len(held), 2, 'values held across the parse')
    release_calls = [n for n in in_finally if isinstance(n, ast.Call) and norm(n.func) in ('self._memory.temp_values.remove', 'self._memory.temp_values.discard')]
    rel_tries = tries_with(lambda n: any(n is r for r in release_calls))
    for what, text, node in held:
        blk = node
        while not isinstance(blk, (ast.For, ast.FunctionDef)):
            blk = blk._parent
        adds = [n for n in own_nodes(blk) if isinstance(n, ast.Call) and norm(n.func) == 'self._memory.temp_values.add' and norm(n.args[0]) == text]
        rep.ob('gc-roots.registered', '%s %s is registered in temp_values before the parse' % (what, text), len(adds) == 1 and isinstance(blk, ast.For),
               'a string held only in a Python local is not a collector root', ctx.where(node))
        for ad in adds:
            rep.ob('gc-roots.released', '%s: the releasing finally runs whenever the value has been registered' % what,
                   len(rel_tries) == 1 and _covered(ev, ad, rel_tries[0]),
                   'a failure between the registration and the try (recursive call, Type mismatch in a later argument) leaves the value registered for ever; if it is a temporary string the next collection dereferences freed space',
                   ctx.where(ad))
    releases = [norm(n.args[0]) for n in release_calls]
    rep.ob('gc-roots.released', 'finally releases the registered values', sorted(releases) == ['arg', 'varsave[name]'], repr(releases), ctx.where(ev))
    # parameter names get their type when the function is CALLED (DEFINT after DEF FN changes an unsigilled parameter together
    # with the body that uses it): define() keeps the names as read, evaluate() completes them
    df = ctx.fn(UF + ':UserFunctionManager.define')
    reads = [a for a in own_nodes(df) if isinstance(a, ast.Assign) and norm(a.value) == 'ins.read_name()' and isinstance(a.targets[0], ast.Name)]
    apps = [c for c in own_nodes(df) if isinstance(c, ast.Call) and norm(c.func) == 'fnvars.append']
    ctor = [c for c in own_nodes(df) if isinstance(c, ast.Call) and norm(c.func) == 'UserFunction']
    ok = len(reads) == 1 and len(apps) == 1 and isinstance(apps[0].args[0], ast.Name) and apps[0].args[0].id == reads[0].targets[0].id \
        and not [a for a in own_nodes(df) if isinstance(a, ast.Assign) and norm(a.targets[0]) == reads[0].targets[0].id and a is not reads[0] and a.lineno < apps[0].lineno] \
        and len(ctor) == 1 and len(ctor[0].args) > 2 and norm(ctor[0].args[2]) == 'fnvars'
    rep.ob('parameters.typed-at-call-time', 'define() stores the parameter names as read; their sigil is completed at each call', ok,
           'the parameter names are completed when DEF FN runs: a DEFtype statement between DEF FN and the call types the body and the parameter differently',
           ctx.where(df))
    # the collector actually uses temp_values as roots
    cgb = ctx.fn('pcbasic/basic/memory/memory.py:DataSegment._collect_garbage')
    rep.ob('gc-roots.collector-reads-temp_values', '_collect_garbage includes temp_values among the roots',
           any('self.temp_values' in norm(n) for n in own_nodes(cgb) if isinstance(n, ast.Assign)) and 'temp_strings' in norm(
               [n for n in own_nodes(cgb) if isinstance(n, ast.Assign) and norm(n.targets[0]) == 'string_ptrs'][0].value), '', ctx.where(cgb))


def variants(ctx):
    Va = mu.Variant

    def in_ev(f):
        return lambda tree: f(mu.find_def(tree, 'UserFunction.evaluate'))

    def unwrap_finally(fn):
        # turn the outer `try: A finally: B` into `A; B` (the restore no longer runs when the body raises)
        tr = [t for t in ast.walk(fn) if isinstance(t, ast.Try) and any('copy_from' in norm(x) for x in t.finalbody)][0]
        blk = tr._parent.body if hasattr(tr, '_parent') else fn.body
        i = blk.index(tr)
        blk[i:i + 1] = tr.body + tr.finalbody
        return True

    def guard_into_loop(fn):
        for t in ast.walk(fn):
            blk = getattr(t, 'body', None)
            if isinstance(blk, list):
                g = [x for x in blk if isinstance(x, ast.If) and norm(x.test) == 'self._is_parsing']
                f = [x for x in blk if isinstance(x, ast.For) and 'conversions' in norm(x.iter)]
                if g and f:
                    blk.remove(g[0])
                    f[0].body.append(g[0])
                    return True
        return False

    return [
        Va('recursion-test-once-per-argument', 'break', UF, in_ev(guard_into_loop), expect='recursion.tested-on-every-call'),
        Va('finally-to-straight-line', 'break', UF, in_ev(unwrap_finally), expect='restore'),
        Va('restore-rebinds', 'break', UF,
           in_ev(lambda fn: mu.replace_expr(fn, mu.text_is('self._memory.scalars.view(name).copy_from(varsave[name])'),
                                            'self._memory.scalars.set(name, varsave[name])')), expect='restore'),
        Va('save-shares-buffer', 'break', UF,
           in_ev(lambda fn: mu.replace_expr(fn, mu.text_is('self._memory.scalars.view(name).clone()'), 'self._memory.scalars.view(name)')),
           expect='save.copies-value'),
        Va('flag-not-cleared', 'break', UF, in_ev(lambda fn: mu.remove_stmt(fn, mu.text_is('self._is_parsing = False'))), expect='recursion.flag'),
        Va('recursion-check-after-binding', 'break', UF, in_ev(lambda fn: _move_rec_check(fn)), expect='recursion.before'),
        Va('new-parameters-not-saved', 'break', UF,
           in_ev(lambda fn: mu.replace_stmt(fn, mu.text_is('self._memory.scalars.set(name)'), 'continue')), expect='save.every-parameter'),
        Va('saved-not-a-gc-root', 'break', UF,
           in_ev(lambda fn: mu.remove_stmt(fn, mu.text_is('self._memory.temp_values.add(varsave[name])'))), expect='gc-roots'),
        Va('args-not-released', 'break', UF,
           in_ev(lambda fn: mu.remove_stmt(fn, lambda st: isinstance(st, ast.For) and 'temp_values.remove(arg)' in norm(st))), expect='gc-roots.released'),
        Va('parse-before-try', 'break', UF, in_ev(lambda fn: _hoist_parse(fn)), expect='structure.parse'),
        Va('arguments-registered-outside-protected-region', 'break', UF, in_ev(lambda fn: _hoist_registration(fn)), expect='gc-roots.released'),
        Va('no-argument-conversion', 'neutral', UF,   # neutral since 040204ed: Scalars.set converts, under the restoring finally
           in_ev(lambda fn: mu.replace_stmt(fn, mu.text_is('value = conv(arg).clone()'), 'value = arg.clone()'))),
        Va('argument-not-copied', 'break', UF,
           in_ev(lambda fn: mu.replace_stmt(fn, mu.text_is('value = conv(arg).clone()'), 'value = conv(arg)')), expect='arguments.converted-value-is-bound'),
        Va('result-not-copied', 'break', UF,
           in_ev(lambda fn: mu.replace_expr(fn, mu.text_is('values.to_type(self._sigil, value).clone()'), 'values.to_type(self._sigil, value)')), expect='result.converted'),
        Va('wrong-value-collected-for-binding', 'break', UF,
           in_ev(lambda fn: mu.replace_stmt(fn, mu.text_is('args.append(value)'), 'args.append(conv)')), expect='arguments.converted-value-is-bound'),
        Va('conversion-deferred-to-binding', 'neutral', UF, in_ev(lambda fn: _defer_conversion(fn))),
        Va('parameter-sigils-fixed-at-definition', 'break', UF,
           lambda tree: mu.replace_expr(mu.find_def(tree, 'UserFunctionManager.define'), mu.text_is('fnvars.append(name)'), 'fnvars.append(self._memory.complete_name(name))'),
           expect='parameters.typed-at-call-time'),
        Va('rename-save-loc', 'neutral', UF, in_ev(lambda fn: mu.rename_local(fn, 'value', 'val'))),
    ]


def _blocks(fn):
    for n in ast.walk(fn):
        for fld in ('body', 'orelse', 'finalbody'):
            b = getattr(n, fld, None)
            if isinstance(b, list):
                yield b


def _move_rec_check(fn):
    src = [(b, st) for b in _blocks(fn) for st in b if isinstance(st, ast.If) and norm(st.test) == 'self._is_parsing'][0]
    dst = [(b, st) for b in _blocks(fn) for st in b if norm(st) == 'self._is_parsing = True'][0]
    src[0].remove(src[1])
    dst[0].insert(dst[0].index(dst[1]), src[1])
    return True


def _hoist_parse(fn):
    """Move the parse (and the seek to the function body) out of the try whose finally restores the code pointer."""
    tr = [t for t in ast.walk(fn) if isinstance(t, ast.Try) and any('seek(save_loc)' in norm(x) for x in t.finalbody)][0]
    blk = [b for b in _blocks(fn) if tr in b][0]
    i = blk.index(tr)
    moved = [st for st in tr.body if ('parse' in norm(st) or 'seek' in norm(st)) and not isinstance(st, ast.Return)]
    for m in moved:
        tr.body.remove(m)
    blk[i:i] = moved
    return True


def _hoist_registration(fn):
    """Move the argument conversion / registration loop and the recursion test in front of the try (the pinned tree's shape)."""
    tr = [t for t in ast.walk(fn) if isinstance(t, ast.Try) and any('temp_values.remove(arg)' in norm(x) for x in t.finalbody)][0]
    blk = [b for b in _blocks(fn) if tr in b][0]
    i = blk.index(tr)
    moved = [st for st in tr.body if (isinstance(st, ast.For) and 'conversions' in norm(st.iter)) or (isinstance(st, ast.If) and norm(st.test) == 'self._is_parsing')]
    if len(moved) != 2:
        return False
    for m in moved:
        tr.body.remove(m)
    blk[i:i] = moved
    return True


def _defer_conversion(fn):
    """Seeded change C20c, behaviour-neutral since the bindings lie under the restoring finally (040204ed)."""
    ok = mu.remove_stmt(fn, lambda st: isinstance(st, ast.Assign) and norm(st.targets[0]) == 'conversions')
    loops = [l for l in ast.walk(fn) if isinstance(l, ast.For) and norm(l.iter) == 'zip(iargs, conversions)']
    if not ok or len(loops) != 1:
        return False
    lp = loops[0]
    lp.target = ast.Name(id='value', ctx=ast.Store())
    lp.iter = ast.parse('iargs', mode='eval').body
    lp.body = [ast.parse('value = value_.clone()').body[0]] + [st for st in lp.body if norm(st) != 'value = conv(arg).clone()']
    lp.target = ast.Name(id='value_', ctx=ast.Store())
    return True

"""
C20 -- DEF FN never disturbs the caller's variables.

Decides, in UserFunction.evaluate:
 * save/restore pairing: every name whose value is saved (varsave[name] = view.clone())
   is restored (copy_from) inside a `finally` that encloses the expression parse,
   so the restore runs whether the evaluation returns or raises;
 * restoration copies *into the existing buffer* (view(name).copy_from(saved)),
   it does not rebind the variable (FOR counters and string pointers rely on
   buffer identity);
 * every binding of a parameter (scalars.set(name, value)) happens after the
   save loop, and nothing that can fail with a BASIC error lies between the
   first binding and the `try` (only scalars.set on already-allocated names,
   complete_name, attribute stores, tell());
 * the recursion flag is set before the parse and cleared in the same
   `finally`; the self-call test raises OUT_OF_MEMORY before any variable is
   saved or bound;
 * arguments are converted with TYPE_TO_CONV of the parameter's completed name
   before binding;
 * GC roots: every value held in a Python local across the parse call that may
   be a string (converted arguments, saved values) is registered in
   memory.temp_values before the parse and released in the `finally`
   (otherwise a collection inside the body detaches the saved string -- the
   defect repaired in /repo 1e89bbad).
Together with C05(i) (no operand mutation in values.py).
"""
import ast

from ..source import norm, short
from ..flow import own_nodes
from .. import mutate as mu

PROP = 'C20'
LEVEL = 'other'
TECHNIQUE = 'static analysis: typestate/pairing over try-finally structure, must-precede ordering, GC-root registration pairing'
EXPLANATION = __doc__

UF = 'pcbasic/basic/parser/userfunctions.py'
SAFE_BEFORE_TRY = ('self._memory.scalars.set', 'self._memory.complete_name', 'self._codestream.tell', 'zip')


def check(ctx, rep):
    ev = ctx.fn(UF + ':UserFunction.evaluate')
    tries = [s for s in ev.body if isinstance(s, ast.Try) and s.finalbody]
    rep.ob('structure.try-finally', 'evaluate has one top-level try/finally', len(tries) == 1, '%d' % len(tries), ctx.where(ev))
    if len(tries) != 1:
        return
    tr = tries[0]
    ti = ev.body.index(tr)
    before = ev.body[:ti]
    fin = tr.finalbody
    # parse call inside try body
    parse_calls = [n for s in tr.body for n in own_nodes(s) if isinstance(n, ast.Call) and norm(n.func) == 'self._expression_parser.parse']
    rep.ob('structure.parse-inside-try', 'the function body is parsed inside the try', len(parse_calls) == 1, '', ctx.where(tr))
    other_parse = [n for s in before + fin for n in own_nodes(s) if isinstance(n, ast.Call) and 'parse' in norm(n.func)]
    rep.ob('structure.parse-inside-try', 'no expression parsing outside the try', not other_parse, repr([short(o) for o in other_parse]), ctx.where(ev))
    # saves
    saves = []
    for s in before:
        for n in own_nodes(s):
            if isinstance(n, ast.Assign) and isinstance(n.targets[0], ast.Subscript) and norm(n.targets[0].value) == 'varsave':
                saves.append((s, n))
    rep.floor('save', len(saves), 1, 'save sites')
    for s, n in saves:
        rep.ob('save.copies-value', 'saved value is a copy of the variable: %s' % short(n),
               norm(n.value) == 'self._memory.scalars.view(%s).clone()' % norm(n.targets[0].slice), '', ctx.where(n))
    # inside the loop the save is unconditional: no `continue`, `break` or branch can skip a parameter (a parameter
    # that does not exist yet is created first, so that its later removal / restoration to 0 is possible)
    for s_, n_ in saves:
        if isinstance(s_, ast.For):
            skips = [x for x in own_nodes(s_) if isinstance(x, (ast.Continue, ast.Break))]
            direct = n_ in s_.body
            creates = [c for c in own_nodes(s_) if isinstance(c, ast.Call) and norm(c.func) == 'self._memory.scalars.set' and len(c.args) == 1]
            rep.ob('save.every-parameter', 'every parameter is saved, also one that did not exist before the call', direct and not skips and len(creates) == 1,
                   'a parameter can be skipped by the save loop (%s): after the call it keeps the argument value' % ([type(x).__name__ for x in skips] or 'save is conditional'),
                   ctx.where(s_))
    # the save loop iterates over all completed parameter names
    save_loops = [s for s, n in saves if isinstance(s, ast.For)]
    if save_loops:
        lp = save_loops[0]
        src = [norm(a.value) for a in before if isinstance(a, ast.Assign) and norm(a.targets[0]) == norm(lp.iter)]
        rep.ob('save.covers-all-parameters', 'save loop runs over every parameter name',
               src == ['[self._memory.complete_name(_v) for _v in self._varnames]'], repr(src), ctx.where(lp))
    # restores in finally
    restores = [n for s in fin for n in own_nodes(s) if isinstance(n, ast.Call) and isinstance(n.func, ast.Attribute) and n.func.attr == 'copy_from']
    ok = len(restores) == 1 and norm(restores[0].func.value) == 'self._memory.scalars.view(name)' and norm(restores[0].args[0]) == 'varsave[name]'
    rep.ob('restore.in-finally-into-existing-buffer', 'finally: scalars.view(name).copy_from(varsave[name]) for every saved name', ok,
           repr([short(r) for r in restores]), ctx.where(tr))
    rl = [s for s in fin if isinstance(s, ast.For) and norm(s.iter) == 'varsave']
    rep.ob('restore.covers-all-saved', 'finally iterates over all of varsave', len(rl) == 1 and any(r in list(own_nodes(rl[0])) for r in restores),
           '', ctx.where(tr))
    rebinding = [n for s in fin for n in own_nodes(s) if isinstance(n, ast.Call) and norm(n.func) == 'self._memory.scalars.set']
    rep.ob('restore.in-finally-into-existing-buffer', 'finally does not rebind variables with scalars.set', not rebinding, '', ctx.where(tr))
    # bindings after saves, before try, nothing fallible in between
    binds = [(s, n) for s in ev.body for n in own_nodes(s) if isinstance(n, ast.Call) and norm(n.func) == 'self._memory.scalars.set' and len(n.args) == 2]
    rep.floor('bind', len(binds), 1, 'binding sites')
    last_save = max(ev.body.index(s) for s, _ in saves) if saves else -1
    for s, n in binds:
        i = ev.body.index(s) if s in ev.body else -1
        rep.ob('bind.after-save', 'parameter binding follows the save loop: %s' % short(n), last_save < i, '', ctx.where(n))
        if i < ti:
            between = ev.body[i:ti]
            bad = []
            for st in between:
                for c in own_nodes(st):
                    if isinstance(c, ast.Call) and norm(c.func) not in SAFE_BEFORE_TRY:
                        bad.append(short(c))
                    if isinstance(c, ast.Raise):
                        bad.append('raise')
            rep.ob('bind.nothing-fallible-before-try', 'between first binding and try only non-failing calls occur', not bad, repr(bad), ctx.where(s))
        else:
            rep.ob('bind.nothing-fallible-before-try', 'binding inside try', True)
    # recursion flag
    flag_set = [s for s in ev.body if isinstance(s, ast.Assign) and norm(s) == 'self._is_parsing = True']
    flag_clr = [s for s in fin if isinstance(s, ast.Assign) and norm(s) == 'self._is_parsing = False']
    rep.ob('recursion.flag-paired', 'flag set once before the try and cleared in its finally',
           len(flag_set) == 1 and ev.body.index(flag_set[0]) < ti and len(flag_clr) == 1, '', ctx.where(ev))
    other_sets = [n for n in own_nodes(ev) if isinstance(n, ast.Assign) and norm(n.targets[0]) == 'self._is_parsing' and n not in flag_set + flag_clr]
    rep.ob('recursion.flag-paired', 'no other writes to the flag in evaluate', not other_sets, '', ctx.where(ev))
    fl = ctx.flow(ev)
    rec = [r for r, c in ctx.raises_in(ev) if c == 'OUT_OF_MEMORY']
    ok = len(rec) == 1 and fl.knows(rec[0], 'self._is_parsing', True)
    rep.ob('recursion.self-call-raises', 'a function evaluated while already evaluating raises Out of memory', ok, '', ctx.where(ev))
    if rec:
        st = fl.stmt_of(rec[0])
        while st not in ev.body:
            st = st._parent
        ri = ev.body.index(st)
        first_touch = min([ev.body.index(s) for s, _ in saves] + [ev.body.index(s) for s, _ in binds if s in ev.body] +
                          [ev.body.index(s) for s in flag_set])
        rep.ob('recursion.before-any-variable-touched', 'the self-call test precedes saving, binding and flag setting', ri < first_touch, '', ctx.where(st))
    # conversions
    conv = [a for a in before if isinstance(a, ast.Assign) and norm(a.targets[0]) == 'conversions']
    rep.ob('arguments.converted-to-parameter-type', 'arguments are converted with TYPE_TO_CONV[completed name sigil]',
           len(conv) == 1 and 'values.TYPE_TO_CONV[self._memory.complete_name(name)[-1:]]' in norm(conv[0].value), '', ctx.where(ev))
    t2c = ctx.mod('pcbasic/basic/values/values.py').assigns.get('TYPE_TO_CONV')
    got = dict((norm(k), norm(v)) for k, v in zip(t2c.keys, t2c.values)) if isinstance(t2c, ast.Dict) else {}
    rep.ob('arguments.converted-to-parameter-type', 'TYPE_TO_CONV maps each sigil to its conversion',
           got == {'STR': 'pass_string', 'INT': 'to_integer', 'SNG': 'to_single', 'DBL': 'to_double'}, repr(got), 'pcbasic/basic/values/values.py')
    # result converted to function type
    rets = [r.value for s in tr.body for r in own_nodes(s) if isinstance(r, ast.Return)]
    parsed = [norm(a.targets[0]) for s in tr.body for a in own_nodes(s) if isinstance(a, ast.Assign) and a.value in parse_calls]
    ok = len(rets) == 1 and isinstance(rets[0], ast.Call) and norm(rets[0].func) == 'values.to_type' and len(rets[0].args) == 2 \
        and norm(rets[0].args[0]) == 'self._sigil' and norm(rets[0].args[1]) in parsed
    rep.ob('result.converted', 'result of the parse is converted to the function sigil', ok, repr([norm(r) for r in rets]), ctx.where(tr))
    # converted arguments are what gets bound
    conv_loops = [s for s in before if isinstance(s, ast.For) and norm(s.iter) == 'zip(iargs, conversions)']
    ok = False
    if len(conv_loops) == 1 and isinstance(conv_loops[0].target, ast.Tuple):
        a_name, c_name = [norm(e) for e in conv_loops[0].target.elts]
        defs = dict((norm(a.targets[0]), norm(a.value)) for a in own_nodes(conv_loops[0]) if isinstance(a, ast.Assign))
        appended = [norm(n.args[0]) for n in own_nodes(conv_loops[0]) if isinstance(n, ast.Call) and norm(n.func) == 'args.append']
        ok = len(appended) == 1 and defs.get(appended[0]) == '%s(%s)' % (c_name, a_name)
    rep.ob('arguments.converted-value-is-bound', 'the value appended to args is conv(arg)', ok, '', ctx.where(ev))
    # GC roots
    held = []   # (description, value-text, loop/stmt)
    for s in before:
        for n in own_nodes(s):
            if isinstance(n, ast.Call) and norm(n.func) == 'args.append':
                held.append(('converted argument', norm(n.args[0]), s))
            if isinstance(n, ast.Assign) and isinstance(n.targets[0], ast.Subscript) and norm(n.targets[0].value) == 'varsave':
                held.append(('saved value', norm(n.targets[0]), s))
    rep.floor('gc-roots', len(held), 2, 'values held across the parse')
    for what, text, s in held:
        adds = [n for n in own_nodes(s) if isinstance(n, ast.Call) and norm(n.func) == 'self._memory.temp_values.add' and norm(n.args[0]) == text]
        rep.ob('gc-roots.registered', '%s %s is registered in temp_values before the parse' % (what, text), len(adds) == 1,
               'a string held only in a Python local is not a collector root', ctx.where(s))
    releases = [norm(n.args[0]) for s in fin for n in own_nodes(s) if isinstance(n, ast.Call)
                and norm(n.func) in ('self._memory.temp_values.remove', 'self._memory.temp_values.discard')]
    rep.ob('gc-roots.released', 'finally releases the registered values', sorted(releases) == ['arg', 'varsave[name]'], repr(releases), ctx.where(tr))
    # the collector actually uses temp_values as roots
    cgb = ctx.fn('pcbasic/basic/memory/memory.py:DataSegment._collect_garbage')
    rep.ob('gc-roots.collector-reads-temp_values', '_collect_garbage includes temp_values among the roots',
           any('self.temp_values' in norm(n) for n in own_nodes(cgb) if isinstance(n, ast.Assign)) and 'temp_strings' in norm(
               [n for n in own_nodes(cgb) if isinstance(n, ast.Assign) and norm(n.targets[0]) == 'string_ptrs'][0].value), '', ctx.where(cgb))
    # codestream position restored
    seeks = [norm(n) for s in fin for n in own_nodes(s) if isinstance(n, ast.Call) and norm(n.func) == 'self._codestream.seek']
    rep.ob('codestream.restored', 'finally restores the code pointer', seeks == ['self._codestream.seek(save_loc)'], repr(seeks), ctx.where(tr))


def variants(ctx):
    Va = mu.Variant

    def in_ev(f):
        return lambda tree: f(mu.find_def(tree, 'UserFunction.evaluate'))

    def unwrap_finally(fn):
        tr = [s for s in fn.body if isinstance(s, ast.Try)][0]
        i = fn.body.index(tr)
        # turn `try: A finally: B` into `A'; B` with the return moved last
        body = [s for s in tr.body if not isinstance(s, ast.Return)]
        ret = [s for s in tr.body if isinstance(s, ast.Return)]
        fn.body[i:i + 1] = body + [ast.parse('result = values.to_type(self._sigil, value)').body[0]] + tr.finalbody + ast.parse('return result').body
        return True

    return [
        Va('finally-to-straight-line', 'break', UF, in_ev(unwrap_finally), expect='structure'),
        Va('restore-rebinds', 'break', UF,
           in_ev(lambda fn: mu.replace_expr(fn, mu.text_is('self._memory.scalars.view(name).copy_from(varsave[name])'),
                                            'self._memory.scalars.set(name, varsave[name])')), expect='restore'),
        Va('save-shares-buffer', 'break', UF,
           in_ev(lambda fn: mu.replace_expr(fn, mu.text_is('self._memory.scalars.view(name).clone()'), 'self._memory.scalars.view(name)')),
           expect='save.copies-value'),
        Va('flag-not-cleared', 'break', UF, in_ev(lambda fn: mu.remove_stmt(fn, mu.text_is('self._is_parsing = False'))), expect='recursion.flag'),
        Va('recursion-check-after-binding', 'break', UF, in_ev(lambda fn: _move_rec_check(fn)), expect='recursion.before'),
        Va('new-parameters-not-saved', 'break', UF,
           in_ev(lambda fn: mu.replace_stmt(fn, mu.text_is('self._memory.scalars.set(name)'), 'continue')), expect='save.every-parameter'),
        Va('saved-not-a-gc-root', 'break', UF,
           in_ev(lambda fn: mu.remove_stmt(fn, mu.text_is('self._memory.temp_values.add(varsave[name])'))), expect='gc-roots'),
        Va('args-not-released', 'break', UF,
           in_ev(lambda fn: mu.remove_stmt(fn, lambda st: isinstance(st, ast.For) and 'temp_values.remove(arg)' in norm(st))), expect='gc-roots.released'),
        Va('parse-before-try', 'break', UF, in_ev(lambda fn: _hoist_parse(fn)), expect='structure.parse'),
        Va('no-argument-conversion', 'break', UF,
           in_ev(lambda fn: mu.replace_stmt(fn, mu.text_is('value = conv(arg)'), 'value = arg')), expect='arguments.converted'),
        Va('rename-save-loc', 'neutral', UF, in_ev(lambda fn: mu.rename_local(fn, 'value', 'val'))),
    ]


def _move_rec_check(fn):
    g = [s for s in fn.body if isinstance(s, ast.If) and norm(s.test) == 'self._is_parsing'][0]
    fn.body.remove(g)
    k = [i for i, s in enumerate(fn.body) if norm(s) == 'self._is_parsing = True'][0]
    fn.body.insert(k, g)
    return True


def _hoist_parse(fn):
    tr = [s for s in fn.body if isinstance(s, ast.Try)][0]
    i = fn.body.index(tr)
    moved = [s for s in tr.body if 'parse' in norm(s) or 'seek' in norm(s)]
    for m in moved:
        tr.body.remove(m)
    fn.body[i:i] = moved
    return True

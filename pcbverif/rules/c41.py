"""
C41 -- codepage conversion round-trips (thin, structural half).

Decides:
 * the reverse tables are *derived* from the forward tables, not maintained
   separately: _unicode_to_cp and _inverse_substitutes are built in
   Codepage.__init__ by inverting _cp_to_unicode and _substitutes (so a
   character whose mapping is unique converts back to the same bytes);
 * immutability: no method other than __init__ assigns, deletes from or
   mutates any of the four tables (who-may-write over the whole package), so
   the inverse relation established at construction time holds for the
   object's life (also across pickling: the class defines no __setstate__);
 * lookup order: _from_unicode consults the inverse substitutes before the
   inverse main table, and codepoint_to_unicode consults substitutes only when
   asked -- the same order in which __init__ split the two tables; every byte
   0..255 has a forward entry (missing ones map to NUL);
 * clusters: multi-character clusters are matched longest first when
   splitting unicode text.
Not decided: table contents and the streaming double-byte converter.
"""
import ast

from ..source import norm, short, qualname, class_methods
from ..flow import own_nodes
from .. import mutate as mu

PROP = 'C41'
LEVEL = 'other'
TECHNIQUE = 'static analysis: derivation of inverse tables, who-may-write immutability, lookup-order agreement'
EXPLANATION = __doc__

CP = 'pcbasic/basic/codepage.py'
TABLES = ('_cp_to_unicode', '_unicode_to_cp', '_substitutes', '_inverse_substitutes')
MUT = ('update', 'pop', 'clear', 'setdefault', 'popitem', '__setitem__', '__delitem__')


def _held_byte_typestate(ctx, rep):
    """The streaming splitter without box protection holds at most a lead byte in `_buf`.  Typestate over
    Converter._process_nobox (EMPTY after `self._flush()` with no count, or on a branch where `self._buf` tested
    false; HELD after `_buf` is assigned or extended): the incoming byte may be emitted, and `_buf` may be
    overwritten, only in state EMPTY -- otherwise a held byte is emitted after a later one, or lost, and the pieces no
    longer concatenate to the input."""
    fn = ctx.fn(CP + ':Converter._process_nobox')
    EMPTY, HELD = 'EMPTY', 'HELD'
    problems, sites = [], [0]

    def emits_c(expr):
        # [c] literal or out.append(c)
        for n in ast.walk(expr):
            if isinstance(n, ast.List) and [norm(e) for e in n.elts] == ['c']:
                return True
            if isinstance(n, ast.Call) and norm(n.func) == 'out.append' and [norm(a) for a in n.args] == ['c']:
                return True
        return False

    def flushes(expr):
        return any(isinstance(n, ast.Call) and norm(n.func) == 'self._flush' and not n.args and not n.keywords for n in ast.walk(expr))

    def block(stmts, st):
        for s_ in stmts:
            if st is None:
                return None
            st = stmt(s_, st)
        return st

    def stmt(s_, st):
        if isinstance(s_, ast.Return):
            return None
        if isinstance(s_, ast.If):
            t = norm(s_.test)
            a = block(s_.body, HELD if t == 'self._buf' else st)
            b = block(s_.orelse, EMPTY if t == 'self._buf' else st)
            if a is None:
                return b
            if b is None:
                return a
            return EMPTY if a == b == EMPTY else HELD
        if isinstance(s_, (ast.Assign, ast.AugAssign)):
            tgt = norm(s_.targets[0] if isinstance(s_, ast.Assign) else s_.target)
            val = s_.value
            if flushes(val):
                # `out += self._flush() + [c]`: the flush is evaluated before the byte is appended
                st = EMPTY
            if emits_c(val):
                sites[0] += 1
                if st != EMPTY:
                    problems.append((s_, 'the incoming byte is emitted while an earlier byte may still be held'))
            if tgt == 'self._buf':
                if isinstance(s_, ast.Assign):
                    sites[0] += 1
                    if st != EMPTY:
                        problems.append((s_, 'the held byte is overwritten'))
                return HELD
            return st
        if isinstance(s_, ast.Expr):
            if flushes(s_.value):
                st = EMPTY
            if emits_c(s_.value):
                sites[0] += 1
                if st != EMPTY:
                    problems.append((s_, 'the incoming byte is emitted while an earlier byte may still be held'))
            return st
        return st
    block(fn.body, HELD)
    for node, why in problems:
        rep.ob('stream.held-byte-order', '_process_nobox: %s' % short(node, 50), False, why + ': the emitted sequences no longer concatenate to the input', ctx.where(node))
    rep.ob('stream.held-byte-order', '_process_nobox emits the incoming byte and re-fills the buffer only when no earlier byte is held (%d sites)' % sites[0], not problems)
    rep.floor('stream.held-byte-order', sites[0], 3, 'emission / refill sites')
    fl = ctx.fn(CP + ':Converter._flush')
    st_ = [norm(x) for x in fl.body if not (isinstance(x, ast.Expr) and isinstance(x.value, ast.Constant))]
    rep.ob('stream.flush-empties', '_flush returns the held bytes and removes exactly them from the buffer',
           'self._buf = self._buf[num:]' in st_ and any('out.append(self._buf[:num])' in x for x in st_), repr(st_), ctx.where(fl))


def _pieces_and_clusters(ctx, rep):
    mk = ctx.fn(CP + ':Converter._mark')
    fl = ctx.flow(mk)
    rets = [r for r in own_nodes(mk) if isinstance(r, ast.Return)]
    fast = [r for r in rets if norm(r.value) == 'list(iterchar(s))']
    rep.ob('stream.stateless-only-without-dbcs', 'Converter._mark takes the stateless shortcut only for single-byte codepages',
           len(fast) == 1 and isinstance(fast[0]._parent, ast.If) and norm(fast[0]._parent.test) == 'not self._dbcs',
           'the shortcut also covers an empty chunk: converting in pieces and ending with an empty flushing call loses the held bytes', ctx.where(mk))
    # any exit that hands the bytes on without the state machine is a stateless shortcut, however it is guarded: with a
    # double-byte codepage a complete pair can be held back (box protection), and bytes emitted past it change order
    raw = [r for r in rets if r.value is not None and 'iterchar(s)' in norm(r.value) and 'self._process' not in norm(r.value)]
    rep.floor('stream.bytes-bypass-the-state-machine-only-without-dbcs', len(raw), 1, 'exits of _mark that do not go through _process')
    for r in raw:
        rep.ob('stream.bytes-bypass-the-state-machine-only-without-dbcs', '_mark: %s' % short(r, 60), fl.knows(r, 'not self._dbcs', True),
               'bytes are emitted without _process in a double-byte codepage: a pair held for box protection comes out after them', ctx.where(r))
    fls = [n for n in own_nodes(mk) if isinstance(n, ast.If) and norm(n.test) == 'flush']
    rep.ob('stream.flush-whenever-asked', 'with flush=True the held bytes are always appended', len(fls) == 1 and 'self._flush()' in norm(fls[0].body[0]), '', ctx.where(mk))
    su = ctx.fn(CP + ':Codepage._split_unicode')
    loops = [n for n in own_nodes(su) if isinstance(n, ast.For) and norm(n.iter) == 'self._unicode_clusters']
    ok = len(loops) == 1
    if ok:
        p_ = loops[0]._parent
        # the only condition above the cluster search is the e-ascii test of the enclosing if/else
        ok = isinstance(p_, ast.If) and loops[0] in p_.orelse and isinstance(p_._parent, ast.While)
    rep.ob('clusters.matched-at-every-position', '_split_unicode tries the multi-codepoint clusters at every position, whatever the remaining length', ok,
           'the cluster search is skipped for short remainders: a two-codepoint cluster at the end of a string is split and its accent dropped', ctx.where(su))


def _defaults_convert_every_byte(ctx, rep):
    """With default arguments every byte is converted through the codepage table: the set of bytes that are passed through
    unconverted (`preserve`) is empty unless a caller names one, so that bytes -> characters -> bytes is the identity on
    the repertoire for the control-position glyphs too."""
    n = 0
    for spec in ('Codepage.bytes_to_unicode', 'Codepage.get_converter', 'Codepage.wrap_output_stream', 'OutputStreamWrapper.__init__', 'Converter.__init__'):
        fn = ctx.fn(CP + ':' + spec)
        args = fn.args.args
        defaults = dict(zip([a.arg for a in args[len(args) - len(fn.args.defaults):]], fn.args.defaults))
        if 'preserve' in defaults:
            n += 1
            v = ctx.fold(defaults['preserve'])
            rep.ob('defaults.no-byte-preserved', '%s: preserve defaults to the empty set' % spec, v in ((), b'', [], set(), frozenset()) and not isinstance(v, str) or v == (),
                   'default preserve=%s: those bytes come back as raw control characters, not as the glyphs of the codepage' % norm(defaults['preserve']), ctx.where(fn))
    rep.floor('defaults.no-byte-preserved', n, 4, 'functions with a preserve default')


def check(ctx, rep):
    _held_byte_typestate(ctx, rep)
    _defaults_convert_every_byte(ctx, rep)
    _pieces_and_clusters(ctx, rep)
    ini = ctx.fn(CP + ':Codepage.__init__')
    # table keys and looked-up text are brought to the same Unicode normal form: the lookup side normalises
    # every input string, so every table entry (of any length) must be normalised the same way
    def norm_calls(fn):
        return [c for c in own_nodes(fn) if isinstance(c, ast.Call) and norm(c.func) == 'unicodedata.normalize' and len(c.args) == 2
                and isinstance(c.args[0], ast.Constant)]
    su = ctx.fn(CP + ':Codepage._split_unicode')
    lk = norm_calls(su)
    tb = norm_calls(ini)
    loops = [n for n in ini.body if isinstance(n, ast.For) and 'codepage_dict' in norm(n.iter)]
    ok = len(lk) == 1 and len(tb) == 1 and lk[0].args[0].value == tb[0].args[0].value and len(loops) == 1
    detail = ''
    if ok:
        st = tb[0]
        while not isinstance(st, ast.stmt):
            st = st._parent
        ok = st in loops[0].body and isinstance(st, ast.Assign) and norm(st.targets[0]) == norm(tb[0].args[1]) \
            and norm(st.targets[0]) == norm(loops[0].target.elts[1])
        detail = 'table entries are normalised only conditionally (or not the loop variable itself): entries that are not in normal form can be decoded but never encoded again'
    rep.ob('normal-form.table-and-lookup-agree', 'every codepage table entry is normalised (%s) exactly as _split_unicode normalises its input' % (
        lk[0].args[0].value if lk else '?'), ok, detail, ctx.where(ini))
    a = dict((norm(x.targets[0]), norm(x.value)) for x in own_nodes(ini) if isinstance(x, ast.Assign))
    rep.ob('inverse.derived', '_unicode_to_cp is the inverse of _cp_to_unicode', a.get('self._unicode_to_cp') == 'dict((reversed(_item) for _item in iteritems(self._cp_to_unicode)))',
           a.get('self._unicode_to_cp', ''), ctx.where(ini))
    rep.ob('inverse.derived', '_inverse_substitutes is the inverse of _substitutes', a.get('self._inverse_substitutes') == 'dict((reversed(_item) for _item in iteritems(self._substitutes)))',
           a.get('self._inverse_substitutes', ''), ctx.where(ini))
    # inversion happens after the forward tables are complete
    fwd_writes = [n.lineno for n in own_nodes(ini) if isinstance(n, ast.Assign) and isinstance(n.targets[0], ast.Subscript) and norm(n.targets[0].value) in ('self._cp_to_unicode', 'self._substitutes')]
    inv = [n.lineno for n in own_nodes(ini) if isinstance(n, ast.Assign) and norm(n.targets[0]) in ('self._unicode_to_cp', 'self._inverse_substitutes')]
    rep.ob('inverse.after-forward-complete', 'the tables are inverted after the last forward entry is written', bool(fwd_writes) and len(inv) == 2 and max(fwd_writes) < min(inv), '', ctx.where(ini))
    fill = [n for n in own_nodes(ini) if isinstance(n, ast.For) and norm(n.iter) == 'range(256)']
    rep.ob('forward.total-on-bytes', 'every single byte has a forward entry (missing ones map to NUL)', len(fill) == 1 and any(isinstance(x, ast.Assign) and norm(x.targets[0]) == 'self._cp_to_unicode[int2byte(c)]' and ctx.fold(x.value) == u'\0' for x in own_nodes(fill[0]))
           and any(isinstance(x, ast.If) and norm(x.test) == 'int2byte(c) not in self._cp_to_unicode' for x in own_nodes(fill[0])), '', ctx.where(ini))
    # immutability
    n_w = 0
    for fn in ctx.idx.functions('pcbasic/'):
        who = qualname(fn).split(':')[1]
        for n in own_nodes(fn):
            hit = None
            tg = n.targets if isinstance(n, ast.Assign) else ([n.target] if isinstance(n, ast.AugAssign) else (n.targets if isinstance(n, ast.Delete) else []))
            for t in tg:
                base = t
                while isinstance(base, ast.Subscript):
                    base = base.value
                if isinstance(base, ast.Attribute) and base.attr in TABLES:
                    hit = base.attr
            if isinstance(n, ast.Call) and isinstance(n.func, ast.Attribute) and n.func.attr in MUT and isinstance(n.func.value, ast.Attribute) and n.func.value.attr in TABLES:
                hit = n.func.value.attr
            if hit:
                n_w += 1
                rep.ob('immutable.tables', '%s writes %s' % (who, hit), who == 'Codepage.__init__', 'conversion table modified after construction', ctx.where(n))
    rep.floor('immutable.tables', n_w, 6, 'table writes (all in __init__)')
    m = class_methods(ctx.cls(CP + ':Codepage'))
    rep.ob('immutable.no-custom-unpickle', 'Codepage has no __setstate__ that could rebuild the tables differently', '__setstate__' not in m, '', CP)
    # lookup order
    fu = ctx.fn(CP + ':Codepage._from_unicode')
    subs = [(n.lineno, norm(n.value)) for n in own_nodes(fu) if isinstance(n, ast.Subscript) and norm(n.value) in ('self._inverse_substitutes', 'self._unicode_to_cp')]
    rep.ob('order.substitutes-first', '_from_unicode looks in the inverse substitutes before the inverse main table',
           [t for _, t in sorted(subs)] == ['self._inverse_substitutes', 'self._unicode_to_cp'], repr(subs), ctx.where(fu))
    cu = ctx.fn(CP + ':Codepage.codepoint_to_unicode')
    fl = ctx.flow(cu)
    s1 = [n for n in own_nodes(cu) if isinstance(n, ast.Subscript) and norm(n.value) == 'self._substitutes']
    rep.ob('order.substitutes-on-request', 'codepoint_to_unicode uses substitutes only when asked, else the main table',
           len(s1) == 1 and fl.knows(s1[0], 'use_substitutes and self._substitutes', True) and
           norm([r for r in own_nodes(cu) if isinstance(r, ast.Return)][-1].value) == 'self._cp_to_unicode.get(cp, replace)', '', ctx.where(cu))
    rep.ob('clusters.longest-first', 'multi-character clusters are tried longest first',
           a.get('self._unicode_clusters') == 'list(reversed(sorted(self._unicode_clusters, key=len)))', a.get('self._unicode_clusters', ''), ctx.where(ini))
    ub = ctx.fn(CP + ':Codepage.unicode_to_bytes')
    rep.ob('convert.composition', 'unicode_to_bytes = join(_from_unicode(cluster) for cluster in _split_unicode(text))',
           norm([r for r in own_nodes(ub) if isinstance(r, ast.Return)][0].value) == "b''.join((self._from_unicode(uc, errors=errors) for uc in self._split_unicode(ucs)))", '', ctx.where(ub))


def variants(ctx):
    Va = mu.Variant

    def in_fn(f_name, f):
        return lambda tree: f(mu.find_def(tree, f_name))

    return [
        Va('no-lead-byte-fast-path', 'break', CP,
           in_fn('Converter._mark', lambda fn: mu.insert_first(fn, 'if self._dbcs and len(self._buf) != 1 and self._cp.lead.isdisjoint(iterchar(s)):\n    return list(iterchar(s)) + (self._flush() if flush else [])')),
           expect='stream.bytes-bypass-the-state-machine-only-without-dbcs'),
        mu.Variant('control-bytes-preserved-by-default', 'break', CP,
                   lambda tree: _set_default(mu.find_def(tree, 'Codepage.bytes_to_unicode'), 'preserve', 'CONTROL'), expect='defaults.no-byte-preserved'),
        Va('empty-flushing-chunk-ignored', 'break', CP,
           in_fn('Converter._mark', lambda fn: mu.replace_expr(fn, lambda n: isinstance(n, ast.UnaryOp) and norm(n) == 'not self._dbcs', 'not self._dbcs or not s', count=1)), expect='stream.stateless'),
        Va('cluster-search-needs-three-codepoints', 'break', CP, in_fn('Codepage._split_unicode', _guard_clusters), expect='clusters.matched'),
        Va('lead-byte-not-flushed-before-plain-byte', 'break', CP, in_fn('Converter._process_nobox', _flush_only_for_lead), expect='stream.held-byte'),
        Va('only-multi-codepoint-entries-normalised', 'break', CP, in_fn('Codepage.__init__', _conditional_normalise), expect='normal-form'),
        Va('inverse-built-from-argument', 'break', CP,
           in_fn('Codepage.__init__', lambda fn: mu.replace_expr(fn, mu.text_is('iteritems(self._cp_to_unicode)'), 'iteritems(codepage_dict)')), expect='inverse.derived'),
        Va('inverse-before-fill', 'break', CP, in_fn('Codepage.__init__', _invert_early), expect='inverse.after'),
        Va('table-patched-later', 'break', CP,
           in_fn('Codepage.connects', lambda fn: mu.insert_first(fn, "self._cp_to_unicode[c] = '?'")), expect='immutable'),
        Va('other-module-updates-table', 'break', 'pcbasic/basic/console.py',
           lambda tree: mu.append_last(mu.find_def(tree, 'Console.start_line'), "self._codepage = None\nself._io_streams._codepage._unicode_to_cp.update({})"), expect='immutable'),
        Va('main-table-before-substitutes', 'break', CP, in_fn('Codepage._from_unicode', _swap_try), expect='order.substitutes-first'),
        Va('clusters-shortest-first', 'break', CP,
           in_fn('Codepage.__init__', lambda fn: mu.replace_expr(fn, mu.text_is('list(reversed(sorted(self._unicode_clusters, key=len)))'), 'list(sorted(self._unicode_clusters, key=len))')),
           expect='clusters'),
        Va('neutral', 'neutral', CP, in_fn('Codepage._split_unicode', lambda fn: mu.rename_local(fn, 'clusters', 'parts'))),
    ]


def _invert_early(fn):
    inv = [s for s in fn.body if isinstance(s, ast.Assign) and norm(s.targets[0]) == 'self._unicode_to_cp'][0]
    fn.body.remove(inv)
    k = [i for i, s in enumerate(fn.body) if isinstance(s, ast.For) and norm(s.iter) == 'range(256)'][0]
    fn.body.insert(k, inv)
    return True


def _swap_try(fn):
    tries = [s for s in fn.body if isinstance(s, ast.Try)]
    a, b = tries[0], tries[1]
    ia, ib = fn.body.index(a), fn.body.index(b)
    # swap the looked-up tables
    mu.replace_expr(a, mu.text_is('self._inverse_substitutes[uc]'), 'self._unicode_to_cp[uc]')
    mu.replace_expr(b, mu.text_is('self._unicode_to_cp[uc]'), 'self._inverse_substitutes[uc]')
    b.handlers[0].body = [ast.parse("return uc.encode('ascii', errors=errors)").body[0]]
    return True


def _conditional_normalise(fn):
    for lp in fn.body:
        if isinstance(lp, ast.For) and 'codepage_dict' in norm(lp.iter):
            for i, st in enumerate(lp.body):
                if isinstance(st, ast.Assign) and 'unicodedata.normalize' in norm(st.value):
                    lp.body[i] = ast.If(test=ast.parse('len(unicode_cluster) > 1', mode='eval').body, body=[st], orelse=[])
                    return True
    return False


def _flush_only_for_lead(fn):
    # move the `else: out += self._flush()` of the held-buffer branch into the `c in lead` branch below it
    held = [s for s in fn.body if isinstance(s, ast.If)][0]
    node = held
    while node is not None and norm(node.test) != 'self._buf':
        node = node.orelse[0] if len(node.orelse) == 1 and isinstance(node.orelse[0], ast.If) else None
    if node is None:
        return False
    inner = node.body[0]
    if not (isinstance(inner, ast.If) and inner.orelse):
        return False
    fl = inner.orelse
    inner.orelse = []
    lead = [s for s in fn.body if isinstance(s, ast.If) and norm(s.test) == 'c in self._cp.lead']
    if len(lead) != 1:
        return False
    lead[0].body[0:0] = fl
    return True


def _guard_clusters(fn):
    for n in ast.walk(fn):
        for fld in ('body', 'orelse'):
            b = getattr(n, fld, None)
            if isinstance(b, list):
                for i, st in enumerate(b):
                    if isinstance(st, ast.For) and norm(st.iter) == 'self._unicode_clusters':
                        b[i] = ast.If(test=ast.parse('len(ucs) > 2', mode='eval').body, body=[st], orelse=[])
                        return True
    return False


def _set_default(fn, name, text):
    args = fn.args.args
    names = [a.arg for a in args[len(args) - len(fn.args.defaults):]]
    if name not in names:
        return False
    fn.args.defaults[names.index(name)] = ast.parse(text, mode='eval').body
    return True


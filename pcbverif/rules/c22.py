"""
C22 -- READ / DATA / RESTORE (pointer bookkeeping and error sites only).

The order in which items come back is a property of runtime bytecode and is
NOT decided.  What is visible in the shape of Interpreter.read_ / restore_
and is a necessary condition of the stated behaviour:
 * one data pointer: `data_pos` is written only by read_, restore_ and the
   reset routines (clear, clear_stacks_and_pointers) of the Interpreter;
 * every READ item starts at the pointer (`seek(self.data_pos)` inside the
   per-variable loop) and, when the pointer stands at an end of statement,
   searches forward for the next DATA token;
 * Out of DATA is raised exactly when neither a DATA token nor a separating
   comma follows, after the code position has been put back;
 * the pointer advances to the position reached *after* the item was consumed
   (tell() taken after the item's read calls, stored only on the path without a
   data error) -- so the next READ continues with the next item;
 * a number read into a numeric variable is parsed with allow_nonnum=False and
   trailing garbage sets data_error; on that path the code position is moved to
   the DATA statement (seek(self.data_pos)) before Syntax error is raised, so
   the message names the DATA line, and the pointer does not advance;
 * the code position is restored (seek(current)) before the variable is
   assigned, on every path;
 * RESTORE: without a line the pointer becomes 0 (start of program); with a
   line it becomes that line's position, Undefined line number if there is none.
"""
import ast

from ..source import norm, short, qualname
from ..flow import own_nodes
from ..resolve import FieldEffects
from .. import mutate as mu

PROP = 'C22'
LEVEL = 'other'
TECHNIQUE = 'static analysis: who-may-write for the data pointer, path facts and statement ordering in read_ / restore_'
EXPLANATION = __doc__

INTERP = 'pcbasic/basic/interpreter.py'
CODE = 'self._program_code'


def _calls(fn, text):
    return [c for c in own_nodes(fn) if isinstance(c, ast.Call) and norm(c.func) == text]


def check(ctx, rep):
    # the search for the next statement boundary is token-aware: a 0x00 or 0x3A byte inside a number or line-number token is
    # not a separator (skip_to_read knows the payload lengths; a plain byte scan does not)
    stt_ = ctx.fn('pcbasic/basic/base/codestream.py:TokenisedStream.skip_to_token')
    seps = [a for a in own_nodes(stt_) if isinstance(a, ast.Assign) and norm(a.targets[0]) == 'separator']
    plain = [c for c in own_nodes(stt_) if isinstance(c, ast.Call) and norm(c.func) in ('self.read_to',)]
    rep.ob('scan.separator-search-token-aware', 'skip_to_token finds the statement separator with skip_to_read(tk.END_STATEMENT)',
           [norm(a.value) for a in seps] == ['self.skip_to_read(tk.END_STATEMENT)'] and not plain,
           'a plain byte scan takes a 0x00 / 0x3A byte inside a number token for a separator: the DATA statement on the next line is skipped', ctx.where(stt_))
    from ..sigils import check as _sigils
    _sigils(ctx, rep, ['pcbasic/basic/interpreter.py:Interpreter.read_'], 1)
    # ---- one pointer, closed set of writers -------------------------------------------------------------
    writers = set()
    n = 0
    for fn in ctx.idx.functions('pcbasic/'):
        for a in own_nodes(fn):
            if isinstance(a, (ast.Assign, ast.AugAssign)):
                for t in (a.targets if isinstance(a, ast.Assign) else [a.target]):
                    if isinstance(t, ast.Attribute) and t.attr == 'data_pos':
                        who = qualname(fn).split(':')[1]
                        recv = norm(t.value)
                        # the Interpreter's own field, or a reference to it from elsewhere (another class's
                        # attribute of the same name, e.g. the WAV reader's, is a different field)
                        if (recv == 'self' and who.startswith('Interpreter.')) or 'interpreter' in recv:
                            n += 1
                            writers.add(who)
    rep.ob('pointer.writers', 'data_pos is written only by READ, RESTORE and the reset routines',
           writers == {'Interpreter.read_', 'Interpreter.restore_', 'Interpreter.clear', 'Interpreter.clear_stacks_and_pointers'}, repr(sorted(writers)), INTERP)
    rep.floor('pointer.writers', n, 5, 'stores to data_pos')
    rd = ctx.fn(INTERP + ':Interpreter.read_')
    fl = ctx.flow(rd)
    loops = [x for x in rd.body if isinstance(x, ast.For)]
    ok = len(loops) == 1 and norm(loops[0].iter) == 'args'
    rep.ob('read.one-item-per-variable', 'read_ handles the variables one by one', ok, '', ctx.where(rd))
    if not ok:
        return
    body = loops[0].body

    def top(node):
        while node._parent is not loops[0]:
            node = node._parent
        return body.index(node)
    seeks = _calls(rd, CODE + '.seek')
    start = [c for c in seeks if norm(c.args[0]) == 'self.data_pos' and c._parent._parent is loops[0]]
    cur = [a for a in own_nodes(rd) if isinstance(a, ast.Assign) and norm(a.targets[0]) == 'current' and norm(a.value) == CODE + '.tell()']
    rep.ob('read.starts-at-pointer', 'each item is read from the data pointer, after the code position was saved',
           len(start) == 1 and len(cur) == 1 and top(cur[0]) < top(start[0]), '', ctx.where(rd))
    skip = _calls(rd, CODE + '.skip_to_token')
    rep.ob('read.finds-next-data', 'at an end of statement the reader searches forward for the next DATA token',
           len(skip) == 1 and [norm(a) for a in skip[0].args] == ['tk.DATA'] and fl.knows(skip[0], CODE + '.peek() in tk.END_STATEMENT', True)
           and len(start) == 1 and top(skip[0]) > top(start[0]), '', ctx.where(rd))
    ood = [r for r, c in ctx.raises_in(rd) if c == 'OUT_OF_DATA']
    ok = len(ood) == 1 and fl.knows(ood[0], CODE + ".read(1) not in (tk.DATA, b',')", True)
    if ok:
        blk = ood[0]._parent.body
        ok = [norm(s) for s in blk[:blk.index(ood[0])]] == [CODE + '.seek(current)']
    rep.ob('read.out-of-data', 'Out of DATA iff neither DATA nor a comma follows; the code position is put back first', ok, '', ctx.where(rd))
    # pointer advance
    adv = [a for a in own_nodes(rd) if isinstance(a, ast.Assign) and norm(a.targets[0]) == 'self.data_pos']
    tell = [a for a in own_nodes(rd) if isinstance(a, ast.Assign) and norm(a.targets[0]) == 'data_pos' and norm(a.value) == CODE + '.tell()']
    readers = [c for c in own_nodes(rd) if isinstance(c, ast.Call) and norm(c.func) in (CODE + '.read_to', CODE + '.read_string', CODE + '.read_number')]
    back = [c for c in seeks if norm(c.args[0]) == 'current' and c._parent._parent is loops[0]]
    store = _calls(rd, 'self._memory.set_variable')
    ok = len(adv) == 1 and len(tell) == 1 and norm(adv[0].value) == 'data_pos' and readers and all(top(r) < top(tell[0]) for r in readers) \
        and top(tell[0]) < top(adv[0])
    rep.ob('read.pointer-advances-past-item', 'the pointer moves to the position reached after the item was consumed', ok,
           'the next READ would start at the same item again (or in the middle of it)', ctx.where(rd))
    rep.floor('read.item-readers', len(readers), 3, 'calls that consume an item')
    rep.ob('read.position-restored-before-assignment', 'the code position is restored before the variable is assigned (errors there name the READ line)',
           len(back) == 1 and len(store) == 1 and len(tell) == 1 and top(tell[0]) < top(back[0]) < top(store[0]), '', ctx.where(rd))
    # data error
    stx = [r for r, c in ctx.raises_in(rd) if c == 'SYNTAX_ERROR' and fl.knows(r, 'data_error', True)]
    ok = len(stx) == 1
    if ok:
        blk = stx[0]._parent.body
        # the position the error is reported at is the one reached by reading the offending item (the local taken from tell()
        # after the item), not the DATA pointer of before the item, which may still be on the previous DATA line
        err_seeks = [norm(s) for s in blk[:blk.index(stx[0])] if not (isinstance(s, ast.Expr) and isinstance(s.value, ast.Constant))]
        after_item = [norm(a.targets[0]) for a in tell] if tell else []
        ok = len(err_seeks) == 1 and any(err_seeks[0] == '%s.seek(%s)' % (CODE, v) for v in after_item) and len(adv) == 1 and fl.knows(adv[0], 'data_error', False)
    rep.ob('read.type-error-names-data-line', 'a bad numeric item: position moved behind that item on its DATA line, Syntax error, DATA pointer not advanced', ok,
           'the error is reported from where the DATA pointer stood before the item: the line of the previous item, or no line at all', ctx.where(rd))
    fr = [c for c in own_nodes(rd) if isinstance(c, ast.Call) and norm(c.func) == 'self._values.from_repr']
    rep.ob('read.numeric-strict', 'numbers are parsed with allow_nonnum=False and trailing text is a data error',
           len(fr) == 1 and [(k.arg, norm(k.value)) for k in fr[0].keywords] == [('allow_nonnum', 'False')] and fl.knows(fr[0], 'name[-1:] == values.STR', False)
           and any(isinstance(a, ast.Assign) and norm(a.targets[0]) == 'data_error' and norm(a.value) == 'True'
                   and fl.knows(a, CODE + ".skip_blank() not in tk.END_STATEMENT + (b',',)", True) for a in own_nodes(rd)), '', ctx.where(rd))
    # writer side: the tokeniser stores a DATA statement verbatim up to the `:` that ends it -- but a `:` (or `,`) inside a quoted
    # item belongs to the item: at a quote the whole string literal is passed through and the copy goes on
    td = ctx.fn('pcbasic/basic/converter/tokeniser.py:Tokeniser._tokenise_data')
    loops = [w for w in own_nodes(td) if isinstance(w, ast.While)]
    stops = [ctx.fold(c.args[0]) for c in own_nodes(td) if isinstance(c, ast.Call) and norm(c.func) == 'ins.read_to' and c.args]
    lit = [i for i in own_nodes(td) if isinstance(i, ast.If) and norm(i.test) in ("ins.peek() == b'\"'", "b'\"' == ins.peek()")
           and any(isinstance(c, ast.Call) and norm(c) == 'outs.write(ins.read_string())' for c in own_nodes(i.body[0]) ) and any(isinstance(b, ast.Break) for b in i.orelse)]
    ok = len(loops) == 1 and len(stops) == 1 and isinstance(stops[0], tuple) and {b':', b'"', b'', b'\r'} <= set(stops[0]) and len(lit) == 1 \
        and any(x is lit[0] for x in ast.walk(loops[0]))
    rep.ob('data.tokeniser-keeps-literals-whole', '_tokenise_data copies up to `:` or a quote, passes a string literal whole, and goes on', ok,
           'a `:` inside a quoted DATA item ends the statement at tokenise time: READ returns a cut string and the rest is executed as a statement (stops %r)' % (stops,), ctx.where(td))
    # the forward search for DATA skips string literals and remarks, but only to the end of their line: every
    # scanning mode the search can enter is left again at the end-of-line byte
    st_ = ctx.fn('pcbasic/basic/base/codestream.py:TokenisedStream.skip_to')
    fls = ctx.flow(st_)
    guard = [n for n in own_nodes(st_) if isinstance(n, ast.If) and isinstance(n.test, ast.BoolOp) and isinstance(n.test.op, ast.Or)
             and [norm(x) for x in n.body] == ['continue']]
    modes = [norm(v) for v in guard[0].test.values] if len(guard) == 1 else []
    rep.ob('scan.modes', 'skip_to ignores bytes while inside a string literal or a remark', sorted(modes) == ['literal', 'rem'], repr(modes), ctx.where(st_))
    for m_ in modes:
        resets = [a for a in own_nodes(st_) if isinstance(a, ast.Assign) and norm(a.targets[0]) == m_ and norm(a.value) == 'False'
                  and fls.knows(a, "c == b'\\x00'", True) and a.lineno < guard[0].lineno]
        rep.ob('scan.mode-ends-with-the-line', 'skip_to leaves `%s` mode at the end of the line, before the bytes of the mode are skipped' % m_, len(resets) >= 1,
               'once entered, the mode lasts to the end of the program: DATA statements after a remark (or an unclosed quote) are never found', ctx.where(st_))
    # the modes exclude each other: inside a string literal a byte that equals the REM token is data, so remark mode is entered
    # only outside a literal (a quote inside a remark does not matter: the remark lasts to the end of the line anyway)
    rem_on = [a for a in own_nodes(st_) if isinstance(a, ast.Assign) and norm(a.targets[0]) == 'rem' and norm(a.value) == 'True']
    rep.ob('scan.remark-not-inside-literal', 'skip_to enters remark mode only outside a string literal',
           len(rem_on) == 1 and (fls.knows(rem_on[0], 'literal', False) or fls.knows(rem_on[0], 'not literal', True)),
           'a byte &H8F inside a quoted string starts a remark: the rest of the line, DATA statements included, is skipped', ctx.where(st_))
    # the search looks at the *keyword* of each statement: blanks after the separator are skipped first
    # (`10 PRINT 1: DATA 2`), and the position is put back to the start of the keyword
    stt = ctx.fn('pcbasic/basic/base/codestream.py:TokenisedStream.skip_to_token')
    lp = [n for n in stt.body if isinstance(n, ast.While)]
    seq = [norm(x) for x in (lp[0].body if lp else [])]

    def at(t):
        return seq.index(t) if t in seq else None
    order = [at('self.skip_blank()'), at('token = self.read_keyword_token()'), at('self.seek(-len(token), 1)')]
    rep.ob('scan.keyword-after-blanks', 'skip_to_token skips blanks, reads the whole keyword token and rewinds to its start', None not in order and order == sorted(order),
           'DATA after `: ` or extra blanks is not recognised: its items are skipped (or Out of DATA is raised early)', ctx.where(stt))
    # a numeric DATA item may carry a sign: the set of bytes that start a decimal literal includes + and -
    rn = ctx.fn('pcbasic/basic/base/codestream.py:CodeStream.read_number')
    flr_ = ctx.flow(rn)
    dec = [r for r in own_nodes(rn) if isinstance(r, ast.Return) and norm(r.value) == 'self._read_dec()']
    starts = None
    if len(dec) == 1:
        for f in flr_.facts(dec[0]):
            if f.pol and isinstance(f.cond, ast.BoolOp):
                for v in f.cond.values:
                    if isinstance(v, ast.Compare) and isinstance(v.ops[0], ast.In) and norm(v.left) == 'c':
                        starts = ctx.cf.fold(v.comparators[0], rn._module)
            elif f.pol and isinstance(f.cond, ast.Compare) and isinstance(f.cond.ops[0], ast.In) and norm(f.cond.left) == 'c':
                starts = ctx.cf.fold(f.cond.comparators[0], rn._module)
    rep.ob('number.signed-items', 'a decimal literal may start with a digit, a point or a sign', isinstance(starts, bytes) and set(b'0123456789.+-') <= set(starts),
           'literal start bytes are %r: a DATA item such as -12.5 read into a numeric variable is a Syntax error' % (starts,), ctx.where(rn))
    # restore
    rs = ctx.fn(INTERP + ':Interpreter.restore_')
    flr = ctx.flow(rs)
    st = [a for a in own_nodes(rs) if isinstance(a, ast.Assign) and norm(a.targets[0]) == 'self.data_pos']
    vals = dict((norm(a.value), a) for a in st)
    ok = set(vals) == {'0', 'self._program.line_numbers[datanum]'} and flr.knows(vals['0'], 'datanum is None', True) \
        and flr.knows(vals['self._program.line_numbers[datanum]'], 'datanum is None', False)
    rep.ob('restore.targets', 'RESTORE -> start of program; RESTORE n -> position of line n', ok, repr(sorted(vals)), ctx.where(rs))
    und = [r for r, c in ctx.raises_in(rs) if c == 'UNDEFINED_LINE_NUMBER']
    rep.ob('restore.missing-line', 'RESTORE to a line that does not exist raises Undefined line number',
           len(und) == 1 and ok and flr.in_try_catching(vals['self._program.line_numbers[datanum]'], ('KeyError',)) is not None, '', ctx.where(rs))
    for spec in ('Interpreter.clear', 'Interpreter.clear_stacks_and_pointers'):
        fn = ctx.fn(INTERP + ':' + spec)
        z = [a for a in own_nodes(fn) if isinstance(a, ast.Assign) and norm(a.targets[0]) == 'self.data_pos']
        rep.ob('pointer.reset', '%s puts the pointer back to the start' % spec, len(z) == 1 and norm(z[0].value) == '0', '', ctx.where(fn))


def variants(ctx):
    Va = mu.Variant

    def rd(f):
        return lambda tree: f(mu.find_def(tree, 'Interpreter.read_'))

    def rs(f):
        return lambda tree: f(mu.find_def(tree, 'Interpreter.restore_'))
    return [
        Va('separator-search-by-plain-byte-scan', 'break', 'pcbasic/basic/base/codestream.py',
           lambda tree: mu.replace_stmt(mu.find_def(tree, 'TokenisedStream.skip_to_token'), mu.text_is('separator = self.skip_to_read(tk.END_STATEMENT)'), 'self.read_to(tk.END_STATEMENT)\nseparator = self.read(1)'),
           expect='scan.separator-search-token-aware'),
        Va('data-keyword-without-blank-skip', 'break', 'pcbasic/basic/base/codestream.py',
           lambda tree: mu.remove_stmt(mu.find_def(tree, 'TokenisedStream.skip_to_token'), mu.text_is('self.skip_blank()')), expect='scan.keyword'),
        Va('unsigned-data-items-only', 'break', 'pcbasic/basic/base/codestream.py',
           lambda tree: mu.replace_expr(mu.find_def(tree, 'CodeStream.read_number'), mu.text_is("DIGITS + b'.+-'"), "DIGITS + b'.'"), expect='number.signed'),
        Va('remark-mode-never-ends', 'break', 'pcbasic/basic/base/codestream.py',
           lambda tree: mu.remove_stmt(mu.find_def(tree, 'TokenisedStream.skip_to'), mu.text_is('rem = False'), count=1) and _drop_second_rem(mu.find_def(tree, 'TokenisedStream.skip_to')), expect='scan.mode-ends'),
        Va('pointer-never-advances', 'break', INTERP, rd(lambda fn: mu.remove_stmt(fn, mu.text_is('self.data_pos = data_pos'))), expect='read.pointer-advances'),
        Va('pointer-taken-before-item', 'break', INTERP, rd(_tell_first), expect='read.pointer-advances'),
        Va('out-of-data-is-syntax-error', 'break', INTERP,
           rd(lambda fn: mu.replace_expr(fn, mu.text_is('error.BASICError(error.OUT_OF_DATA)'), 'error.BASICError(error.STX)')), expect='read.out-of-data'),
        Va('comma-not-accepted', 'break', INTERP,
           rd(lambda fn: mu.replace_expr(fn, mu.text_is("(tk.DATA, b',')"), '(tk.DATA,)')), expect='read.out-of-data'),
        Va('literal-mode-reset-only-after-the-skip', 'break', 'pcbasic/basic/base/codestream.py',
           lambda tree: _drop_nth(mu.find_def(tree, 'TokenisedStream.skip_to'), 'literal = False', 1), expect='scan.mode-ends'),
        Va('data-tokenised-verbatim-to-first-colon', 'break', 'pcbasic/basic/converter/tokeniser.py',
           lambda tree: _data_verbatim(mu.find_def(tree, 'Tokeniser._tokenise_data')), expect='data.tokeniser-keeps-literals-whole'),
        Va('read-looks-at-uncompleted-name', 'break', INTERP,
           rd(lambda fn: mu.remove_stmt(fn, mu.text_is('name = self._memory.complete_name(name)'))), expect='names.sigil-read-from-completed-name'),
        Va('data-error-reported-from-the-old-data-pointer', 'break', INTERP,
           rd(lambda fn: mu.replace_expr(fn, mu.text_is('self._program_code.seek(data_pos)'), 'self._program_code.seek(self.data_pos)')), expect='read.type-error-names-data-line'),
        Va('remark-token-honoured-inside-literals', 'break', 'pcbasic/basic/base/codestream.py',
           lambda tree: mu.replace_expr(mu.find_def(tree, 'TokenisedStream.skip_to'), mu.text_is('c == tk.REM and (not literal)'), 'c == tk.REM'), expect='scan.remark-not-inside-literal'),
        Va('no-search-for-next-data', 'break', INTERP, rd(lambda fn: mu.remove_stmt(fn, lambda st: isinstance(st, ast.If) and 'skip_to_token' in norm(st) and 'END_STATEMENT' in norm(st.test))), expect='read.finds-next-data'),
        Va('bad-number-advances-pointer', 'break', INTERP, rd(_advance_always), expect='read.type-error'),
        Va('bad-number-error-at-read-line', 'break', INTERP,
           rd(lambda fn: mu.remove_stmt(fn, mu.text_is('self._program_code.seek(self.data_pos)'), count=2) and
              mu.insert_first(fn, 'pass')), expect='read.'),
        Va('numbers-lenient', 'break', INTERP,
           rd(lambda fn: mu.replace_expr(fn, mu.text_is('self._values.from_repr(word, allow_nonnum=False)'), 'self._values.from_repr(word, allow_nonnum=True)')),
           expect='read.numeric-strict'),
        Va('restore-keeps-pointer', 'break', INTERP, rs(lambda fn: mu.replace_stmt(fn, mu.text_is('self.data_pos = 0'), 'pass')), expect='restore.targets'),
        Va('restore-missing-line-silent', 'break', INTERP,
           rs(lambda fn: mu.replace_expr(fn, mu.text_is('error.BASICError(error.UNDEFINED_LINE_NUMBER)'), 'error.BASICError(error.IFC)')), expect='restore.missing-line'),
        Va('clear-keeps-pointer', 'break', INTERP,
           lambda tree: mu.remove_stmt(mu.find_def(tree, 'Interpreter.clear'), mu.text_is('self.data_pos = 0')), expect='pointer.'),
        Va('other-writer', 'break', INTERP,
           lambda tree: mu.append_last(mu.find_def(tree, 'Interpreter.tron_'), 'self.data_pos = 0'), expect='pointer.writers'),
        Va('implementation-moves-pointer', 'break', 'pcbasic/basic/implementation.py',
           lambda tree: mu.append_last(mu.find_def(tree, 'Implementation.new_'), 'self.interpreter.data_pos = 1'), expect='pointer.writers'),
        Va('neutral-rename', 'neutral', INTERP, rd(lambda fn: mu.rename_local(fn, 'word', 'item'))),
    ]


def _tell_first(fn):
    lp = [x for x in fn.body if isinstance(x, ast.For)][0]
    t = [s for s in lp.body if norm(s) == 'data_pos = self._program_code.tell()']
    if len(t) != 1:
        return False
    lp.body.remove(t[0])
    i = [k for k, s in enumerate(lp.body) if 'skip_blank()' in norm(s) and isinstance(s, ast.Expr)]
    lp.body.insert(i[0] + 1 if i else 3, t[0])
    return True


def _advance_always(fn):
    lp = [x for x in fn.body if isinstance(x, ast.For)][0]
    last = lp.body[-1]
    if not (isinstance(last, ast.If) and norm(last.test) == 'data_error'):
        return False
    adv = last.orelse[0]
    last.orelse = []
    lp.body.insert(lp.body.index(last), adv)
    return True


def _drop_second_rem(fn):
    # the first `rem = False` (initialisation) was removed by the caller; put it back and remove the reset instead
    fn.body.insert(1, ast.parse('rem = False').body[0])
    return mu.remove_stmt(fn, lambda st: isinstance(st, ast.Assign) and norm(st) == 'rem = False' and not (st in fn.body))


def _drop_nth(fn, text, n):
    """Remove the n-th (0-based, in source order) statement with the given text."""
    hits = []
    for x in ast.walk(fn):
        for fld in ('body', 'orelse', 'finalbody'):
            b = getattr(x, fld, None)
            if isinstance(b, list):
                for st in b:
                    if isinstance(st, ast.stmt) and norm(st) == text:
                        hits.append((st.lineno, b, st))
    hits.sort(key=lambda t: t[0])
    if len(hits) <= n:
        return False
    hits[n][1].remove(hits[n][2])
    return True



def _data_verbatim(fn):
    fn.body = [st for st in fn.body if isinstance(st, ast.Expr) and isinstance(st.value, ast.Constant)] + \
        ast.parse("outs.write(ins.read_to((b'', b'\\r', b'\\0', b':')))").body
    return True

"""
C18 -- expression precedence, associativity and typing.

Decides: the folded PRECEDENCE table realises the required chain; UNARY/BINARY
and PRECEDENCE agree on keys; each operator spelling is bound to a callback
whose *derived* meaning (core operation / comparison relation extracted from
the callback body, not its name) is the operator's; the shunting-yard loop
drains on `precedence <= top` (left grouping) and only for binary operators;
relational callbacks return from_bool; missing operands map to the BASIC
errors; operator callbacks type-check operands before use (E8).
Not decided: numeric results (C02-C06).
"""
import ast

from ..source import norm, short, AnalysisError
from ..flow import own_nodes
from .. import mutate as mu
from .. import valuesmodel as vm

PROP = 'C18'
LEVEL = 'other'
TECHNIQUE = 'static analysis: constant-folded operator tables, callback meaning derived from AST, structural check of the shunting-yard loop'
EXPLANATION = __doc__

EXPR = 'pcbasic/basic/parser/expressions.py'

# precedence classes from the property statement, highest first
CHAIN = [
    ('^', [('O_CARET', 2)]),
    ('unary +-', [('O_PLUS', 1), ('O_MINUS', 1)]),
    ('* /', [('O_TIMES', 2), ('O_DIV', 2)]),
    ('\\', [('O_INTDIV', 2)]),
    ('MOD', [('MOD', 2)]),
    ('+ -', [('O_PLUS', 2), ('O_MINUS', 2)]),
    ('relational', [('O_GT', 2), ('O_EQ', 2), ('O_LT', 2), ('O_GT+O_EQ', 2), ('O_EQ+O_GT', 2),
                    ('O_LT+O_EQ', 2), ('O_EQ+O_LT', 2), ('O_LT+O_GT', 2), ('O_GT+O_LT', 2)]),
    ('NOT', [('NOT', 1)]),
    ('AND', [('AND', 2)]),
    ('OR', [('OR', 2)]),
    ('XOR', [('XOR', 2)]),
    ('EQV', [('EQV', 2)]),
    ('IMP', [('IMP', 2)]),
]
# required meaning of each operator spelling
MEANING = {
    ('O_CARET', 2): 'POW', ('O_TIMES', 2): 'MUL', ('O_DIV', 2): 'DIV', ('O_INTDIV', 2): 'INTDIV',
    ('MOD', 2): 'MOD', ('O_PLUS', 2): 'ADD', ('O_MINUS', 2): 'SUB',
    ('O_GT', 2): 'GT', ('O_EQ', 2): 'EQ', ('O_LT', 2): 'LT',
    ('O_GT+O_EQ', 2): 'GE', ('O_EQ+O_GT', 2): 'GE', ('O_LT+O_EQ', 2): 'LE', ('O_EQ+O_LT', 2): 'LE',
    ('O_LT+O_GT', 2): 'NE', ('O_GT+O_LT', 2): 'NE',
    ('AND', 2): 'AND', ('OR', 2): 'OR', ('XOR', 2): 'XOR', ('EQV', 2): 'EQV', ('IMP', 2): 'IMP',
    ('O_MINUS', 1): 'NEG', ('O_PLUS', 1): 'IDENTITY', ('NOT', 1): 'NOT',
}


def _tok(ctx, spelling):
    m = ctx.mod('pcbasic/basic/base/tokens.py')
    out = b''
    for part in spelling.split('+'):
        v = ctx.cf.module_const(m, part)
        if not isinstance(v, bytes):
            raise AnalysisError('token %s not foldable' % part)
        out += v
    return out


def check(ctx, rep):
    from . import c06, _share
    from . import c02 as _c02
    _share.share(ctx, rep, _c02, ('sign.',), 'the integer operators \\ and MOD give the quotient truncated towards zero and a remainder with the sign of the dividend', tolerate_missing_anchor=True)
    from . import c05 as _c05
    _share.share(ctx, rep, _c05, ('no-operand-mutation', 'negabs.'), 'evaluating an expression never changes a variable that occurs in it: operators work on copies', tolerate_missing_anchor=True)
    _share.share(ctx, rep, c06, ('float-gt', 'float-eq', 'relation.', 'int-gt'), 'relational operators return -1 / 0 according to the derived comparison primitives', tolerate_missing_anchor=True)
    prec, unary, binary = vm.operator_tables(ctx)
    for path, k, _ in ctx.cf.duplicates:
        if path == vm.OPERATORS:
            rep.ob('tables.no-duplicate-keys', k, False, 'duplicate key in operator table literal', vm.OPERATORS)
    # 1. chain
    levels = []
    for cls, members in CHAIN:
        vals = set()
        for spelling, n in members:
            key = (_tok(ctx, spelling), n)
            ok = key in prec
            rep.ob('precedence.has-entry', '(%s, %d)' % (spelling, n), ok, 'missing from PRECEDENCE', vm.OPERATORS)
            if ok:
                vals.add(prec[key])
        rep.ob('precedence.equal-within-class', cls, len(vals) == 1, 'levels %r' % sorted(vals), vm.OPERATORS)
        levels.append((cls, vals))
    for (c1, v1), (c2, v2) in zip(levels, levels[1:]):
        rep.ob('precedence.chain', '%s > %s' % (c1, c2), bool(v1) and bool(v2) and min(v1) > max(v2),
               '%r vs %r' % (sorted(v1), sorted(v2)), vm.OPERATORS)
    rep.ob('precedence.positive', 'all levels > 0 (final drain at level 0 empties the stack)',
           all(isinstance(v, int) and v > 0 for v in prec.values()), repr(sorted(set(prec.values()))), vm.OPERATORS)
    expected_keys = set((_tok(ctx, s), n) for _, ms in CHAIN for s, n in ms)
    extra = set(prec) - expected_keys
    rep.ob('precedence.no-extra', 'PRECEDENCE has only the specified operators', not extra,
           'extra %r' % sorted(extra), vm.OPERATORS)
    # 2. key agreement
    rep.ob('tables.unary-keys', 'keys of UNARY == {(k,1) in PRECEDENCE}',
           set(unary) == set(k for k, n in prec if n == 1),
           '%r vs %r' % (sorted(unary), sorted(k for k, n in prec if n == 1)), vm.OPERATORS)
    rep.ob('tables.binary-keys', 'keys of BINARY == {(k,2) in PRECEDENCE}',
           set(binary) == set(k for k, n in prec if n == 2),
           'missing %r extra %r' % (sorted(set(k for k, n in prec if n == 2) - set(binary)),
                                    sorted(set(binary) - set(k for k, n in prec if n == 2))), vm.OPERATORS)
    # OPERATORS set derived from PRECEDENCE
    m = ctx.mod(vm.OPERATORS)
    rep.ob('tables.operators-derived', 'OPERATORS derived from PRECEDENCE keys',
           'OPERATORS' in m.assigns and 'PRECEDENCE' in norm(m.assigns['OPERATORS']), '', vm.OPERATORS)
    comb = ctx.const(vm.OPERATORS, 'COMBINABLE')
    rep.ob('tables.combinable', 'COMBINABLE == (<, =, >)', set(comb) == {b'<', b'=', b'>'} or
           set(comb) == {_tok(ctx, 'O_LT'), _tok(ctx, 'O_EQ'), _tok(ctx, 'O_GT')}, repr(comb), vm.OPERATORS)
    # 3. meaning of each binding
    n_bind = 0
    for (spelling, n), want in sorted(MEANING.items()):
        tok = _tok(ctx, spelling)
        table = unary if n == 1 else binary
        if tok not in table:
            continue
        knode, vnode = table[tok]
        fn = vm.resolve_callback(ctx, vnode)
        construct = '%s[%s] -> %s' % ('UNARY' if n == 1 else 'BINARY', spelling, short(vnode, 40))
        if fn is None:
            rep.ob('binding.resolves', construct, False, 'callback does not resolve to a function', vm.OPERATORS)
            continue
        ops = vm.core_operation(ctx, fn)
        n_bind += 1
        rep.ob('binding.meaning', construct, ops == {want}, 'derived meaning %s, required %s' % (sorted(ops), want),
               ctx.where(fn) if not isinstance(fn, ast.Lambda) else vm.OPERATORS)
        # relational results are from_bool
        if want in ('GT', 'EQ', 'LT', 'GE', 'LE', 'NE'):
            r = vm.returns(fn)
            rep.ob('binding.relational-returns-bool', construct,
                   len(r) == 1 and isinstance(r[0].value, ast.Call) and norm(r[0].value.func).endswith('.from_bool'),
                   '', ctx.where(fn))
        # E8 type gates
        checked, bad = vm.type_gate_findings(ctx, fn)
        for node, p, attr in bad:
            rep.ob('typegate.operand-checked-before-use', '%s: %s.%s' % (fn.name, p, attr), False,
                   'operand %s is used as a number without a type check (a string operand raises AttributeError)' % p,
                   ctx.where(node))
        if not bad and checked:
            rep.ob('typegate.operand-checked-before-use', '%s (%d uses)' % (getattr(fn, 'name', 'lambda'), checked), True)
    rep.floor('binding.meaning', n_bind, 24, 'bindings')
    # from_bool yields -1 / 0 integers
    fb = ctx.fn(vm.VALUES + ':Values.from_bool')
    texts = [norm(r.value) for r in vm.returns(fb)]
    rep.ob('from_bool.minus-one-or-zero', 'Values.from_bool',
           any("from_bytes(b'\\xff\\xff')" in t for t in texts) and any(t.endswith('Integer(None, self)') for t in texts)
           and len(texts) == 2, repr(texts), ctx.where(fb))
    # 4. drain loop
    drain = ctx.fn(EXPR + ':ExpressionParser._drain')
    loops = [n for n in drain.body if isinstance(n, ast.While)]
    ok = False
    detail = 'no `if precedence > top: break` found'
    if loops:
        for st in loops[0].body:
            if isinstance(st, ast.If) and any(isinstance(b, ast.Break) for b in st.body):
                rel = _strict_greater(st.test, 'precedence')
                detail = 'break condition: %s' % norm(st.test)
                ok = rel
    rep.ob('drain.left-associative', '_drain stops only when precedence > top (pops on equal precedence)', ok, detail, ctx.where(drain))
    # pop order: args reversed so that left operand comes first
    txt = norm(drain)
    rep.ob('drain.operand-order', '_drain passes operands in source order',
           'reversed([units.pop() for _ in range(narity)])' in txt and 'units.append(oper(*args))' in txt, '', ctx.where(drain))
    # 5. parse(): binary drains before push, unary does not; final drain 0
    parse = ctx.fn(EXPR + ':ExpressionParser.parse')
    fl = ctx.flow(parse)
    drains = [n for n in own_nodes(parse) if isinstance(n, ast.Call) and norm(n.func) == 'self._drain']
    rep.floor('parse.drain-calls', len(drains), 2, 'calls')
    bin_ok = un_ok = fin_ok = False
    for d in drains:
        a0 = norm(d.args[0])
        facts = [(f.text, f.pol) for f in fl.facts(d)]
        is_unary_branch = any('last in op.OPERATORS' in t and 'd == tk.NOT' in t and p for t, p in facts)
        is_binary_branch = any('last in op.OPERATORS' in t and 'd == tk.NOT' in t and not p for t, p in facts)
        if a0 == 'prec' and is_binary_branch:
            bin_ok = True
        if a0 == 'prec' and is_unary_branch:
            un_ok = True
        if a0 == '0':
            fin_ok = True
    rep.ob('parse.binary-drains', 'binary operator drains the stack at its precedence before being pushed', bin_ok, '', ctx.where(parse))
    rep.ob('parse.unary-does-not-drain', 'unary operator is pushed without draining', not un_ok, '', ctx.where(parse))
    rep.ob('parse.final-drain', 'final drain at precedence 0', fin_ok, '', ctx.where(parse))
    # unary detection condition
    conds = [norm(n.test) for n in own_nodes(parse) if isinstance(n, ast.If)]
    rep.ob('parse.unary-detection', 'operator is unary after an operator, at start, or if NOT',
           "last in op.OPERATORS or last == b'' or d == tk.NOT" in conds, repr([c for c in conds if 'NOT' in c]), ctx.where(parse))
    # nargs assignment and table lookups in each branch
    for n in own_nodes(parse):
        if isinstance(n, ast.Assign) and norm(n.targets[0]) == 'oper':
            src = norm(n.value)
            facts = [(f.text, f.pol) for f in fl.facts(n)]
            unary_branch = any('d == tk.NOT' in t and 'last in op.OPERATORS' in t and p for t, p in facts)
            rep.ob('parse.table-by-arity', 'oper = %s in %s branch' % (src, 'unary' if unary_branch else 'binary'),
                   src == ('op.UNARY[d]' if unary_branch else 'op.BINARY[d]'), '', ctx.where(n))
            h = fl.in_try_catching(n, ('KeyError',))
            code = None
            if h is not None:
                for r in own_nodes(h):
                    if isinstance(r, ast.Raise):
                        code = ctx.basic_error_code(r)
            rep.ob('parse.unknown-operator-is-syntax-error', 'KeyError on %s -> Syntax error' % src,
                   code == 'SYNTAX_ERROR', 'handler raises %s' % code, ctx.where(n))
    # missing operand -> MISSING_OPERAND / STX
    codes = []
    for n in own_nodes(parse):
        if isinstance(n, ast.ExceptHandler) and n.type is not None and norm(n.type) == 'IndexError':
            for r in own_nodes(n):
                if isinstance(r, ast.Raise):
                    codes.append(ctx.basic_error_code(r))
    rep.ob('parse.missing-operand', 'IndexError from drain -> Missing operand / Syntax error',
           sorted(c for c in codes if c) == ['MISSING_OPERAND', 'SYNTAX_ERROR'], repr(codes), ctx.where(parse))
    # / and ^ never integer: receivers converted to single/double
    for name in ('div', 'mul'):
        fn = ctx.fn(vm.VALUES + ':' + name)
        recv = []
        for n in own_nodes(fn):
            if isinstance(n, ast.Call) and isinstance(n.func, ast.Attribute) and n.func.attr in ('idiv', 'imul'):
                recv.append((norm(n.func.value), norm(n.args[0])))
        ok = len(recv) == 2 and all(
            (r.endswith('.to_double().clone()') and a.endswith('.to_double()')) or
            (r.endswith('.to_single().clone()') and a.endswith('.to_single()')) for r, a in recv)
        rep.ob('typing.float-result', '%s computes in single or double, both operands converted alike' % name, ok, repr(recv), ctx.where(fn))
    powf = ctx.fn(vm.VALUES + ':pow')
    recv = [norm(n.func.value) for n in own_nodes(powf)
            if isinstance(n, ast.Call) and isinstance(n.func, ast.Attribute) and n.func.attr == 'ipow_int']
    rep.ob('typing.float-result', 'pow with integer exponent computes on a single copy',
           recv == ['left.to_single().clone()'], repr(recv), ctx.where(powf))


def _strict_greater(test, name):
    """test is `name > X`, `X < name` or `not (name <= X)`."""
    neg = False
    while isinstance(test, ast.UnaryOp) and isinstance(test.op, ast.Not):
        neg = not neg
        test = test.operand
    if not (isinstance(test, ast.Compare) and len(test.ops) == 1):
        return False
    l, r, op = norm(test.left), norm(test.comparators[0]), type(test.ops[0])
    if not neg:
        return (l == name and op is ast.Gt) or (r == name and op is ast.Lt)
    return (l == name and op is ast.LtE) or (r == name and op is ast.GtE)


def variants(ctx):
    V = mu.Variant
    OPS = vm.OPERATORS

    def prec_set(key, val):
        return lambda tree: mu.set_dict_value(mu.find_assign_value(tree, 'PRECEDENCE'), key, val)

    def bin_set(key, val):
        return lambda tree: mu.set_dict_value(mu.find_assign_value(tree, 'BINARY'), key, val)

    def in_fn(fname, f):
        return lambda tree: f(mu.find_def(tree, fname))

    return [
        V('mod-same-as-intdiv', 'break', OPS, prec_set('(tk.MOD, 2)', '10'), expect='precedence.chain'),
        V('unary-minus-below-times', 'break', OPS, prec_set('(tk.O_MINUS, 1)', '10'), expect='precedence'),
        V('xor-equals-or', 'break', OPS, prec_set('(tk.XOR, 2)', '4'), expect='precedence.chain'),
        V('ge-bound-to-gt', 'break', OPS, bin_set('tk.O_EQ + tk.O_GT', 'values.gt'), expect='binding.meaning'),
        V('ne-bound-to-eq', 'break', OPS, bin_set('tk.O_GT + tk.O_LT', 'values.eq'), expect='binding.meaning'),
        V('intdiv-bound-to-div', 'break', OPS, bin_set('tk.O_INTDIV', 'values.div'), expect='binding.meaning'),
        V('binary-key-dropped', 'break', OPS,
          lambda tree: mu.del_dict_key(mu.find_assign_value(tree, 'BINARY'), 'tk.O_EQ + tk.O_LT'), expect='tables.binary-keys'),
        V('drain-right-assoc', 'break', EXPR,
          in_fn('ExpressionParser._drain', lambda fn: mu.replace_expr(fn, mu.text_is('precedence > operations[-1][2]'),
                                                                      'precedence >= operations[-1][2]')),
          expect='drain.left-associative'),
        V('lte-swapped-args', 'break', vm.VALUES,
          in_fn('lte', lambda fn: mu.replace_expr(fn, mu.text_is('_bool_gt(left, right)'), '_bool_gt(right, left)')),
          expect='binding.meaning'),
        V('eqv-loses-negation', 'break', vm.VALUES,
          in_fn('eqv_', lambda fn: mu.replace_expr(fn, lambda n: isinstance(n, ast.UnaryOp) and isinstance(n.op, ast.Invert),
                                                   lambda n: n.operand)),
          expect='binding.meaning'),
        V('unary-also-drains', 'break', EXPR,
          in_fn('ExpressionParser.parse', lambda fn: mu.insert_before(fn, mu.stmt_has('nargs = 1', ast.Assign), 'self._drain(prec, operations, units)', after=True)),
          expect='parse.unary-does-not-drain'),
        V('and-gate-removed', 'break', vm.VALUES,
          in_fn('and_', lambda fn: mu.replace_expr(fn, mu.text_is('to_integer(right)'), 'right.to_integer()')),
          expect='typegate'),
        V('mul-int-stays-int', 'break', vm.VALUES,
          in_fn('mul', lambda fn: mu.replace_expr(fn, mu.text_is('left.to_single().clone()'), 'left.clone()')),
          expect='typing.float-result'),
        # neutral
        V('drain-condition-reversed', 'neutral', EXPR,
          in_fn('ExpressionParser._drain', lambda fn: mu.replace_expr(fn, mu.text_is('precedence > operations[-1][2]'),
                                                                      'operations[-1][2] < precedence'))),
        V('rescale-precedence', 'neutral', OPS,
          lambda tree: mu.replace_expr(mu.find_assign_value(tree, 'PRECEDENCE'),
                                       lambda n: isinstance(n, ast.Constant) and isinstance(n.value, int) and n.value >= 1 and
                                       isinstance(getattr(n, '_p', None), type(None)) and _is_dict_value(tree, n),
                                       lambda n: ast.Constant(value=n.value * 10), count=1000)),
        V('rename-gte', 'neutral', vm.VALUES, _rename_func('gte', 'greater_or_equal'),
          also=[(OPS, lambda tree: mu.replace_expr(tree, mu.text_is('values.gte'), 'values.greater_or_equal', count=5))]),
    ]


def _is_dict_value(tree, n):
    d = mu.find_assign_value(tree, 'PRECEDENCE')
    return any(v is n for v in d.values)


def _rename_func(old, new):
    def t(tree):
        fn = mu.find_def(tree, old)
        fn.name = new
        return True
    return t

"""
C31 -- drawing primitives have their specified geometry (structural half).

Decides:
 * LINE: Graphics._draw_line iterates the major axis -- after the `steep` swap
   dx >= dy -- from x0 to x1 *inclusive* (range(x0, x1+sx, sx)) with exactly one
   store attempt per iteration and the minor coordinate changing by at most one
   step sy per iteration (so max(|dx|,|dy|)+1 pixels, 8-connected, both
   endpoints); with the solid pattern 0xffff every iteration stores;
 * LINE ,B: _draw_box is exactly four _draw_straight sides through the four
   corner pairs; _draw_straight runs its coordinate inclusively;
 * LINE ,BF: _draw_box_filled orders the corners and does one slice store
   [y0:y1+1, x0:x1+1];
 * PSET stores one pixel at the physical coordinate and POINT(x,y) reads the
   same gate at [y, x];
 * GET/PUT: each sprite builder's pack and unpack agree on items per byte,
   the size-record format and plane order; PUT PSET stores the unpacked sprite
   unchanged into the same rectangle GET read; PUT XOR is ixor of that
   rectangle with the sprite (an involution on bit patterns).
Not decided: error-term arithmetic of Bresenham (which minor steps happen).
"""
import ast

from ..source import norm, short
from ..flow import own_nodes
from .. import mutate as mu

PROP = 'C31'
LEVEL = 'other'
TECHNIQUE = 'static analysis: loop-shape analysis of the line/box primitives, writer/reader agreement of sprite builders'
EXPLANATION = __doc__

G = 'pcbasic/basic/display/graphics.py'
FB = 'pcbasic/basic/display/framebuffer.py'


def _ancestors(node, stop):
    p = getattr(node, '_parent', None)
    while p is not None and p is not stop:
        yield p
        p = getattr(p, '_parent', None)


def check(ctx, rep):
    from . import c30 as _c30, _share as _sh
    _sh.share(ctx, rep, _c30, ('clip.range-clamped',), 'a filled box, GET and PUT address their rectangle through the viewport slice: the exclusive stop is clamped to max+1, so the last column and row are part of it')
    from ..optargs import check as _optargs
    _optargs(ctx, rep, [G], 6)
    dl = ctx.fn(G + ':Graphics._draw_line')
    loops = [n for n in dl.body if isinstance(n, ast.For)]
    ok = len(loops) == 1 and norm(loops[0].iter) == 'range(x0, x1 + sx, sx)' and norm(loops[0].target) == 'x'
    rep.ob('line.major-axis-inclusive', '_draw_line iterates x from x0 to x1 inclusive in steps of sx', ok, norm(loops[0].iter) if loops else 'no loop', ctx.where(dl))
    a = dict((norm(x.targets[0]), norm(x.value)) for x in own_nodes(dl) if isinstance(x, ast.Assign))
    rep.ob('line.direction', 'sx, sy are +-1 toward the end point', a.get('sx') == '1 if x1 > x0 else -1' and a.get('sy') == '1 if y1 > y0 else -1', '', ctx.where(dl))
    rep.ob('line.major-axis-is-longer', 'steep lines swap the axes so that dx >= dy', a.get('steep') == 'dy > dx' and
           any(isinstance(n, ast.If) and norm(n.test) == 'steep' and sorted(norm(s) for s in n.body) == ['(dx, dy) = (dy, dx)'.replace('(dx, dy)', 'dx, dy'), 'x0, y0, x1, y1 = (y0, x0, y1, x1)']
               or isinstance(n, ast.If) and norm(n.test) == 'steep' and set(norm(s) for s in n.body) == {'dx, dy = (dy, dx)', 'x0, y0, x1, y1 = (y0, x0, y1, x1)'} for n in dl.body),
           '', ctx.where(dl))
    rep.ob('line.deltas', 'dx, dy are the absolute coordinate differences', a.get('(dx, dy)') == '(abs(x1 - x0), abs(y1 - y0))' or a.get('dx, dy') == '(abs(x1 - x0), abs(y1 - y0))' or
           any(norm(x) == 'dx, dy = (abs(x1 - x0), abs(y1 - y0))' for x in own_nodes(dl) if isinstance(x, ast.Assign)), '', ctx.where(dl))
    if loops:
        lp = loops[0]
        stores = [s for s in own_nodes(lp) if isinstance(s, ast.Assign) and norm(s.targets[0]).startswith('self.graph_view[')]
        fl = ctx.flow(dl)
        pairs = sorted((norm(s.targets[0]), fl.knows(s, 'steep', True)) for s in stores)
        rep.ob('line.one-store-per-step', 'each step stores (y, x), or (x, y) for steep lines, under the pattern bit',
               pairs == [('self.graph_view[x, y]', True), ('self.graph_view[y, x]', False)] and all(fl.knows(s, 'pattern & mask != 0', True) for s in stores), repr(pairs), ctx.where(lp))
        ys = [s for s in own_nodes(lp) if isinstance(s, ast.AugAssign) and norm(s.target) == 'y']
        rep.ob('line.minor-axis-at-most-one-step', 'y changes by sy at most once per iteration', len(ys) == 1 and norm(ys[0]) == 'y += sy' and
               isinstance(ys[0]._parent, ast.If) and ys[0]._parent in lp.body, repr([norm(y) for y in ys]), ctx.where(lp))
        xs = [s for s in own_nodes(lp) if isinstance(s, (ast.Assign, ast.AugAssign)) and norm(getattr(s, 'target', None) or s.targets[0]) == 'x']
        rep.ob('line.major-axis-inclusive', 'the loop variable is not modified in the body', not xs, '', ctx.where(lp))
    rep.ob('line.start', 'the walk starts at (x0, y0)', any(norm(x) == 'x, y = (x0, y0)' for x in own_nodes(dl) if isinstance(x, ast.Assign)), '', ctx.where(dl))
    sig = dl.args.defaults
    rep.ob('line.solid-pattern', 'the default pattern is solid (0xffff)', len(sig) == 1 and ctx.fold(sig[0]) == 0xffff, '', ctx.where(dl))
    # box
    db = ctx.fn(G + ':Graphics._draw_box')
    calls = [c for c in own_nodes(db) if isinstance(c, ast.Call) and norm(c.func) == 'self._draw_straight']
    sides = [tuple(norm(x) for x in c.args[:4]) for c in calls]
    rep.ob('box.four-sides', 'LINE ,B draws exactly the four sides between the corners',
           sides == [('x1', 'y1', 'x0', 'y1'), ('x1', 'y0', 'x0', 'y0'), ('x1', 'y1', 'x1', 'y0'), ('x0', 'y1', 'x0', 'y0')], repr(sides), ctx.where(db))
    ds = ctx.fn(G + ':Graphics._draw_straight')
    lp = [n for n in ds.body if isinstance(n, ast.For)]
    rep.ob('box.side-inclusive', '_draw_straight runs p from p0 to p1 inclusive', len(lp) == 1 and norm(lp[0].iter) == 'range(p0, p1 + sp, sp)', '', ctx.where(ds))
    fl = ctx.flow(ds)
    st = sorted((norm(s.targets[0]), fl.knows(s, "direction == 'x'", True)) for s in own_nodes(ds) if isinstance(s, ast.Assign) and norm(s.targets[0]).startswith('self.graph_view['))
    rep.ob('box.side-orientation', 'horizontal sides vary x at fixed y; vertical sides vary y at fixed x',
           st == [('self.graph_view[p, q]', False), ('self.graph_view[q, p]', True)], repr(st), ctx.where(ds))
    sel = sorted((norm(x.value), fl.knows(x, 'x0 == x1', True)) for x in own_nodes(ds) if isinstance(x, ast.Assign) and isinstance(x.targets[0], ast.Tuple))
    rep.ob('box.side-orientation', 'axis selection: x0 == x1 means a vertical side',
           sel == [("(x0, x1, y0, 'x')", False), ("(y0, y1, x0, 'y')", True)], repr(sel), ctx.where(ds))
    bf = ctx.fn(G + ':Graphics._draw_box_filled')
    st = [s for s in own_nodes(bf) if isinstance(s, ast.Assign) and norm(s.targets[0]).startswith('self.graph_view[')]
    rep.ob('boxfill.one-slice', 'LINE ,BF is one slice store of the closed rectangle', len(st) == 1 and norm(st[0].targets[0]) == 'self.graph_view[y0:y1 + 1, x0:x1 + 1]', '', ctx.where(bf))
    sw = sorted(norm(n.test) for n in own_nodes(bf) if isinstance(n, ast.If))
    rep.ob('boxfill.ordered-corners', 'corners are ordered first', sw == ['x1 < x0', 'y1 < y0'], repr(sw), ctx.where(bf))
    # each axis is ordered whatever the other axis looks like: a swap nested under the other test, or one that sits
    # behind the store, leaves an empty slice for one of the four ways of naming the two corners
    for ax in ('x', 'y'):
        lo, hi = ax + '0', ax + '1'
        ifs = [n for n in own_nodes(bf) if isinstance(n, ast.If) and norm(n.test) in ('%s < %s' % (hi, lo), '%s > %s' % (lo, hi))]
        outer = [short(p_, 30) for i in ifs for p_ in _ancestors(i, bf) if isinstance(p_, (ast.If, ast.For, ast.While, ast.Try, ast.ExceptHandler))]
        ok = len(ifs) == 1 and not outer and [norm(b) for b in ifs[0].body][:1] in (['%s, %s = (%s, %s)' % (lo, hi, hi, lo)], ['%s, %s = (%s, %s)' % (hi, lo, lo, hi)]) \
            and len(st) == 1 and ifs[0].lineno < st[0].lineno
        rep.ob('boxfill.each-axis-ordered-unconditionally', '_draw_box_filled: %s and %s are put in order on every path to the store' % (lo, hi), ok,
               'conditions on the swap: %s' % outer, ctx.where(ifs[0] if ifs else bf))
    # LINE (x0,y0)-STEP(dx,dy): the second pair is relative to the first one, which _get_window_physical reads from
    # _last_point -- the first point has to be stored there before the second pair is resolved
    ln0 = ctx.fn(G + ':Graphics.line_')
    gwp = ctx.fn(G + ':Graphics._get_window_physical')
    reads_last = any(isinstance(n, ast.Attribute) and norm(n) == 'self._last_point' and isinstance(n.ctx, ast.Load) for n in own_nodes(gwp))
    rep.ob('line.step-relative-to-first-point', '_get_window_physical resolves STEP against self._last_point', reads_last, '', ctx.where(gwp))
    second = [c for c in own_nodes(ln0) if isinstance(c, ast.Call) and norm(c.func) == 'self._get_window_physical' and norm(c.args[0]) == '*coord1']
    flq = ctx.flow(ln0)
    sets = [a for a in own_nodes(ln0) if isinstance(a, ast.Assign) and norm(a.targets[0]) == 'self._last_point' and norm(a.value) in ('(x0, y0)',)]
    rep.floor('line.step-relative-to-first-point', len(second), 1, 'resolutions of the second coordinate pair')
    for c in second:
        rep.ob('line.step-relative-to-first-point', 'line_: the first point is stored in _last_point before %s' % short(c, 40),
               any(a.lineno < c.lineno and set((f.text, f.pol) for f in flq.facts(a)) <= set((f.text, f.pol) for f in flq.facts(c)) for a in sets),
               'STEP on the second pair is resolved against the graphics cursor from before the statement, not against the first point', ctx.where(c))
    # line_ dispatch
    ln = ctx.fn(G + ':Graphics.line_')
    fl = ctx.flow(ln)
    disp = {}
    for c in own_nodes(ln):
        if isinstance(c, ast.Call) and norm(c.func) in ('self._draw_line', 'self._draw_box', 'self._draw_box_filled'):
            disp[norm(c.func)] = sorted(f.text for f in fl.facts(c) if f.pol and 'shape' in f.text and f.text != 'shape')
    rep.ob('line.shape-dispatch', 'no shape -> line, B -> box, BF -> filled box',
           disp == {'self._draw_line': ['not shape'], 'self._draw_box': ["shape == b'B'"], 'self._draw_box_filled': ["shape == b'BF'"]}, repr(disp), ctx.where(ln))
    # pset / point
    pp = ctx.fn(G + ':Graphics._pset_preset')
    st = [norm(s) for s in own_nodes(pp) if isinstance(s, ast.Assign) and norm(s.targets[0]).startswith('self.graph_view[')]
    rep.ob('pset.one-pixel', 'PSET stores exactly one pixel at [y, x]', st == ['self.graph_view[y, x] = attr'], repr(st), ctx.where(pp))
    pt = ctx.fn(G + ':Graphics.point_')
    rd = [norm(n) for n in own_nodes(pt) if isinstance(n, ast.Subscript) and norm(n.value) == 'self.graph_view']
    rep.ob('pset.point-reads-same-cell', 'POINT(x, y) reads [y, x] through the same coordinate conversion', rd == ['self.graph_view[y, x]'] and
           sum(1 for c in own_nodes(pt) if isinstance(c, ast.Call) and norm(c) == 'self._get_window_physical(x, y)') == 1 and
           any(isinstance(c, ast.Call) and norm(c) == 'self._get_window_physical(x, y, step)' for c in own_nodes(pp)), repr(rd), ctx.where(pt))
    # sprites
    for cname, ipb, fmt_pack, fmt_unpack in (
            ('PackedSpriteBuilder', '8 // self._bitsperpixel', "struct.pack('<HH', sprite.width * self._bitsperpixel, sprite.height)", "struct.unpack('<HH', array[0:4])"),
            ('PlanedSpriteBuilder', '8', "struct.pack('<HH', sprite.width, sprite.height)", "struct.unpack('<HH', array[:4])")):
        pk = ctx.fn('%s:%s.pack' % (FB, cname))
        up = ctx.fn('%s:%s.unpack' % (FB, cname))
        pi = [norm(k.value) for c in own_nodes(pk) if isinstance(c, ast.Call) and isinstance(c.func, ast.Attribute) and c.func.attr == 'packed' for k in c.keywords if k.arg == 'items_per_byte']
        ui = [norm(k.value) for c in own_nodes(up) if isinstance(c, ast.Call) and norm(c.func).endswith('frompacked') for k in c.keywords if k.arg == 'items_per_byte']
        rep.ob('sprite.items-per-byte', '%s: pack and unpack use %s pixels per byte' % (cname, ipb), pi == [ipb] and ui == [ipb], '%r %r' % (pi, ui), ctx.where(pk))
        tp, tu = norm(pk), norm(up)
        rep.ob('sprite.size-record', '%s: size record written and read with the same layout' % cname, fmt_pack in tp and fmt_unpack in tu, '', ctx.where(pk))
        rep.ob('sprite.clip-width', '%s: unpack clips the padded row to the recorded width' % cname, '[:, :width]' in tu, '', ctx.where(up))
    pk = ctx.fn(FB + ':PackedSpriteBuilder.unpack')
    rep.ob('sprite.size-record', 'PackedSpriteBuilder: width = row bits // bits per pixel (inverse of the writer)', 'width = row_bits // self._bitsperpixel' in norm(pk), '', ctx.where(pk))
    ppk = ctx.fn(FB + ':PlanedSpriteBuilder.pack')
    pup = ctx.fn(FB + ':PlanedSpriteBuilder.unpack')
    tp, tu = norm(ppk), norm(pup)
    rep.ob('sprite.plane-order', 'PlanedSpriteBuilder: planes are interlaced row by row in plane order on both sides',
           'sprite >> _plane for _plane in range(self._number_planes)' in tp and 'for _row_offs in range(0, length, row_bytes) for _packed in packed_planes' in tp and
           'allplanes[_plane::self._number_planes, :] << _plane for _plane in range(self._number_planes)' in tu, '', ctx.where(ppk))
    rep.ob('sprite.row-bytes', 'PlanedSpriteBuilder: row length (width+7)//8 and total length agree',
           'row_bytes = (sprite.width + 7) // 8' in tp and 'row_bytes = (width + 7) // 8' in tu and 'length = sprite.height * self._number_planes * row_bytes' in tp
           and 'length = height * self._number_planes * row_bytes' in tu, '', ctx.where(ppk))
    t6p = norm(ctx.fn(FB + ':Tandy6SpriteBuilder.pack'))
    t6u = norm(ctx.fn(FB + ':Tandy6SpriteBuilder.unpack'))
    rep.ob('sprite.tandy6', 'Tandy6SpriteBuilder halves the recorded width on pack and doubles it on unpack',
           'width = sprite.width // self.width_factor' in t6p and 'width *= self.width_factor' in t6u, '', FB)
    put = ctx.fn(G + ':Graphics.put_')
    get = ctx.fn(G + ':Graphics.get_')
    # GET of w logical pixels covers width_factor * w physical pixels (the factor is 2 only in Tandy SCREEN 6):
    # right edge = x0 + factor * (x1 - x0 + 1) - 1, with any helper local substituted
    import copy
    from ..algebra import lin as _lin
    defs = {}
    right = None
    for a_ in get.body:
        if isinstance(a_, ast.Assign) and isinstance(a_.targets[0], ast.Name):
            v = copy.deepcopy(a_.value)

            class _S(ast.NodeTransformer):
                def visit_Name(self, node):
                    return copy.deepcopy(defs[node.id]) if node.id in defs and node.id not in ('x0', 'x1', 'y0', 'y1') else node
            v = _S().visit(v)
            if a_.targets[0].id == 'x1' and 'width_factor' in norm(a_.value):
                right = v
            defs[a_.targets[0].id] = v
    want = _lin(ast.parse('x0 + self._mode.sprite_builder.width_factor * (x1 - x0 + 1) - 1', mode='eval').body)
    rep.ob('get.width-factor', 'GET: right edge = x0 + width_factor * (requested width) - 1', right is not None and _lin(right) == want,
           'right edge = %s' % (norm(right) if right is not None else 'not found'), ctx.where(get))
    fl = ctx.flow(put)
    ops = {}
    for a_ in own_nodes(put):
        if isinstance(a_, ast.Assign) and norm(a_.targets[0]) == 'rect':
            cond = [f.text for f in fl.facts(a_) if f.pol and f.text.startswith('operation_token ==')]
            ops[cond[0][len('operation_token == tk.'):] if cond else '?'] = norm(a_.value)
    rep.ob('put.operations', 'PUT: PSET stores the sprite, XOR/AND/OR combine it with the same rectangle',
           ops.get('PSET') == 'sprite' and ops.get('XOR') == 'operator.ixor(self.graph_view[y0:y1 + 1, x0:x1 + 1], sprite)' and
           ops.get('AND') == 'operator.iand(self.graph_view[y0:y1 + 1, x0:x1 + 1], sprite)' and ops.get('OR') == 'operator.ior(self.graph_view[y0:y1 + 1, x0:x1 + 1], sprite)',
           repr(ops), ctx.where(put))
    st = [norm(s) for s in own_nodes(put) if isinstance(s, ast.Assign) and norm(s.targets[0]).startswith('self.graph_view[')]
    rd = [norm(s) for s in own_nodes(get) if isinstance(s, ast.Assign) and norm(s.targets[0]) == 'sprite']
    rep.ob('put.same-rectangle-as-get', 'PUT stores into [y0:y1+1, x0:x1+1]; GET reads the same closed rectangle',
           st == ['self.graph_view[y0:y1 + 1, x0:x1 + 1] = rect'] and rd == ['sprite = self.graph_view[y0:y1 + 1, x0:x1 + 1]'], '%r %r' % (st, rd), ctx.where(put))
    rep.ob('put.builder-agrees', 'GET packs and PUT unpacks with the same mode sprite builder',
           'self._mode.sprite_builder.pack(sprite)' in norm(get) and 'self._mode.sprite_builder.unpack(packed_sprite)' in norm(put), '', ctx.where(get))
    dflt = [norm(a_.value) for a_ in own_nodes(put) if isinstance(a_, ast.Assign) and norm(a_.targets[0]) == 'operation_token']
    rep.ob('put.default-xor', 'PUT defaults to XOR', dflt == ['operation_token or tk.XOR'], repr(dflt), ctx.where(put))


def _variants0(ctx):
    Va = mu.Variant

    def in_fn(f_name, f):
        return lambda tree: f(mu.find_def(tree, f_name))

    return [
        Va('line-excludes-endpoint', 'break', G, in_fn('Graphics._draw_line', lambda fn: mu.replace_expr(fn, mu.text_is('range(x0, x1 + sx, sx)'), 'range(x0, x1, sx)')), expect='line.major'),
        Va('line-no-steep-swap', 'break', G, in_fn('Graphics._draw_line', lambda fn: mu.replace_stmt(fn, mu.text_is('steep = dy > dx'), 'steep = False')), expect='line.major-axis-is-longer'),
        Va('line-double-minor-step', 'break', G, in_fn('Graphics._draw_line', lambda fn: mu.replace_stmt(fn, mu.text_is('y += sy'), 'y += sy\ny += sy')), expect='line.minor'),
        Va('box-three-sides', 'break', G, in_fn('Graphics._draw_box', lambda fn: mu.remove_stmt(fn, mu.stmt_has('self._draw_straight(x0, y1, x0, y0', ast.Assign))), expect='box.four'),
        Va('boxfill-open-rectangle', 'break', G,
           in_fn('Graphics._draw_box_filled', lambda fn: mu.replace_stmt(fn, mu.stmt_has('self.graph_view[y0:y1 + 1', ast.Assign), 'self.graph_view[y0:y1, x0:x1] = attr')), expect='boxfill'),
        Va('straight-excludes-end', 'break', G, in_fn('Graphics._draw_straight', lambda fn: mu.replace_expr(fn, mu.text_is('range(p0, p1 + sp, sp)'), 'range(p0, p1, sp)')), expect='box.side'),
        Va('point-transposed', 'break', G, in_fn('Graphics.point_', lambda fn: mu.replace_expr(fn, mu.text_is('self.graph_view[y, x]'), 'self.graph_view[x, y]')), expect='pset.point'),
        Va('packed-unpack-other-density', 'break', FB,
           in_fn('PackedSpriteBuilder.unpack', lambda fn: mu.replace_expr(fn, mu.text_is('8 // self._bitsperpixel'), '8')), expect='sprite.items'),
        Va('planed-unpack-reversed-planes', 'break', FB,
           in_fn('PlanedSpriteBuilder.unpack', lambda fn: mu.replace_expr(fn, mu.text_is('allplanes[_plane::self._number_planes, :] << _plane'),
                                                                         'allplanes[_plane::self._number_planes, :] << self._number_planes - 1 - _plane')), expect='sprite.plane'),
        Va('put-xor-is-or', 'break', G, in_fn('Graphics.put_', lambda fn: mu.replace_expr(fn, mu.text_is('operator.ixor'), 'operator.ior')), expect='put.operations'),
        Va('get-width-factor-misapplied', 'break', G, in_fn('Graphics.get_', _fold_width), expect='get.width-factor'),
        Va('get-open-rectangle', 'break', G, in_fn('Graphics.get_', lambda fn: mu.replace_expr(fn, mu.text_is('self.graph_view[y0:y1 + 1, x0:x1 + 1]'), 'self.graph_view[y0:y1, x0:x1]')), expect='put.same'),
        Va('neutral', 'neutral', G, in_fn('Graphics._draw_line', lambda fn: mu.rename_local(fn, 'line_error', 'err'))),
    ]


def _fold_width(fn):
    w = [a for a in fn.body if isinstance(a, ast.Assign) and norm(a.targets[0]) == 'width']
    x = [a for a in fn.body if isinstance(a, ast.Assign) and norm(a.targets[0]) == 'x1' and 'width_factor' in norm(a.value)]
    if len(w) != 1 or len(x) != 1:
        return False
    fn.body.remove(w[0])
    x[0].value = ast.parse('x0 + self._mode.sprite_builder.width_factor * (x1 - x0)', mode='eval').body
    return True


def _nest_swap(fn):
    ifs = [n for n in fn.body if isinstance(n, ast.If)]
    fn.body.remove(ifs[1])
    ifs[0].body.append(ifs[1])
    return True


def _reorder_swaps(fn):
    ifs = [n for n in fn.body if isinstance(n, ast.If)]
    i, j = fn.body.index(ifs[0]), fn.body.index(ifs[1])
    fn.body[i], fn.body[j] = fn.body[j], fn.body[i]
    return True


def variants(ctx):
    return _variants0(ctx) + [
        mu.Variant('box-x-swap-under-y-swap', 'break', G, lambda tree: _nest_swap(mu.find_def(tree, 'Graphics._draw_box_filled')), expect='boxfill.each-axis-ordered-unconditionally'),
        mu.Variant('box-swaps-in-other-order', 'neutral', G, lambda tree: _reorder_swaps(mu.find_def(tree, 'Graphics._draw_box_filled'))),
        mu.Variant('line-first-point-not-stored', 'break', G,
                   lambda tree: mu.remove_stmt(mu.find_def(tree, 'Graphics.line_'), mu.text_is('self._last_point = (x0, y0)')), expect='line.step-relative-to-first-point'),
        mu.Variant('circle-attribute-zero-treated-as-omitted', 'break', 'pcbasic/basic/display/graphics.py',
                   lambda tree: (lambda fn: mu.replace_expr(fn, mu.text_is('attr_index is None'), 'not attr_index'))(mu.find_def(tree, 'Graphics.circle_')), expect='arguments.zero-is-not-omitted'),
    ]

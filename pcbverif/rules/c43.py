"""
C43 -- session API (agreement of the two directions and of the scalar / array
paths only).

That a value read back equals the value set is a numeric / codepage round trip
and is NOT decided (its numeric half is C03/C07 territory).  Decided are the
structural conditions without which no value can round-trip:
 * one conversion for both paths: Implementation.set_variable passes the value
   through a single conversion routine before it branches into the scalar and
   the array path, and that routine converts unicode through the codepage and
   bool to -1/0 and recurses into lists.  (On the pinned tree the conversions
   were applied to the value as a whole and therefore skipped for lists:
   set_variable('A$()', [u'a']) raised AssertionError and [True] was stored as
   1; repaired in /repo 5bf3cffc);
 * names: set and get both upper-case the name, cut it at '(' and choose the
   array path by the same test; both API entry points insist on an explicit
   sigil and the sigil decides the value class (from_value(v, name[-1:]));
 * lists: from_list and to_list count subscripts from the same lower bound
   expression, element i of a list goes to subscript base+i and to_list reads
   base..bound inclusive, recursing in the same dimension order; elements are
   written with from_value and read with to_value;
 * converter table: the pairs (bytes,unicode)/(unicode,bytes) use the
   codepage's two directions, bool<->int use -1/0 consistently with
   set_variable, and an unknown pair raises ValueError;
 * evaluate() parses the expression behind a PRINT token inside the exception
   boundary and returns to_value() of the result.
"""
import ast

from ..source import norm, short, qualname
from ..flow import own_nodes
from .. import mutate as mu

PROP = 'C43'
LEVEL = 'other'
TECHNIQUE = 'static analysis: sibling agreement of set/get and scalar/array paths, def-use of the conversion routine, converter table pairs'
EXPLANATION = __doc__

IMPL = 'pcbasic/basic/implementation.py'
API = 'pcbasic/basic/api.py'
ARR = 'pcbasic/basic/memory/arrays.py'


def _calls(fn, pred):
    return [c for c in own_nodes(fn) if isinstance(c, ast.Call) and pred(norm(c.func))]


def check(ctx, rep):
    from . import c02 as _c02, _share as _sh
    _sh.share(ctx, rep, _c02, ('range.',), 'every integer in -32768..32767 is accepted by Integer.from_int (and nothing else)')
    from . import c03 as _c03, c10 as _c10
    _sh.share(ctx, rep, _c03, ('normalise.bring-to-range',), 'a Python float set through the API is converted by Float.from_value: the mantissa is normalised before it is packed, so a value the type holds exactly reads back unchanged')
    _sh.share(ctx, rep, _c10, ('store.too-long',), 'every string of up to 255 bytes is accepted by StringSpace.store (and nothing longer)')
    sv = ctx.fn(IMPL + ':Implementation.set_variable')
    gv = ctx.fn(IMPL + ':Implementation.get_variable')
    # ---- one conversion, before the paths split --------------------------------------------------------
    conv = [a for a in sv.body if isinstance(a, ast.Assign) and norm(a.targets[0]) == 'value' and isinstance(a.value, ast.Call)
            and [norm(x) for x in a.value.args] == ['value'] and norm(a.value.func).startswith('self.')]
    split = [s for s in sv.body if isinstance(s, ast.If) and "b'(' in name" in norm(s.test)]
    ok = len(conv) == 1 and len(split) == 1 and sv.body.index(conv[0]) < sv.body.index(split[0])
    rep.ob('set.one-conversion-for-both-paths', 'set_variable converts the value once, before the scalar / array paths split', ok,
           'the documented conversions (unicode -> codepage bytes, True -> -1) do not reach the elements of array values', ctx.where(sv))
    if ok:
        cname = norm(conv[0].value.func).split('.', 1)[1]
        cf = ctx.fn(IMPL + ':Implementation.' + cname)
        fl = ctx.flow(cf)
        p = cf.args.args[1].arg
        rets = [r for r in own_nodes(cf) if isinstance(r, ast.Return)]
        kinds = {}
        for r in rets:
            t = norm(r.value)
            if fl.knows(r, 'isinstance(%s, list)' % p, True):
                kinds['list'] = isinstance(r.value, ast.ListComp) and ('self.%s(' % cname) in t
            elif fl.knows(r, 'isinstance(%s, text_type)' % p, True):
                kinds['text'] = t == 'self.codepage.unicode_to_bytes(%s)' % p
            elif fl.knows(r, 'isinstance(%s, bool)' % p, True):
                kinds['bool'] = t == '-1 if %s else 0' % p
            elif t == p:
                kinds['other'] = True
        rep.ob('set.conversion-cases', 'the conversion recurses into lists, sends unicode through the codepage, maps bool to -1/0 and leaves the rest alone',
               kinds == {'list': True, 'text': True, 'bool': True, 'other': True}, repr(kinds), ctx.where(cf))
        tests = [norm(n.test) for n in own_nodes(cf) if isinstance(n, ast.If)]
        rep.ob('set.bool-before-number', 'bool is tested explicitly (it is an int in Python and would otherwise be stored as 1)',
               any('bool' in t for t in tests), repr(tests), ctx.where(cf))
    # ---- names ---------------------------------------------------------------------------------------------
    for fn in (sv, gv):
        st = [norm(s) for s in fn.body]
        rep.ob('names.upper-and-split', '%s upper-cases the name and chooses the array path by the bracket' % fn.name,
               'name = name.upper()' in st and any(isinstance(s, ast.If) and norm(s.test) == "b'(' in name" and norm(s.body[0]) == "name = name.split(b'(', 1)[0]" for s in fn.body),
               '', ctx.where(fn))
    fv = _calls(sv, lambda t: t == 'self.values.from_value')
    rep.ob('names.sigil-decides-type', 'the scalar is created with the class of the sigil', len(fv) == 1 and [norm(a) for a in fv[0].args] == ['value', 'name[-1:]'], '', ctx.where(sv))
    for name in ('set_variable', 'get_variable'):
        fn = ctx.fn(API + ':Session.' + name)
        fl = ctx.flow(fn)
        r = [x for x in own_nodes(fn) if isinstance(x, ast.Raise)]
        fwd = _calls(fn, lambda t: t == 'self._impl.' + name)
        rep.ob('names.explicit-sigil', 'Session.%s refuses a name without a sigil before doing anything' % name,
               len(r) == 1 and fl.knows(r[0], "name.split(b'(')[0][-1:] not in SIGILS", True) and len(fwd) == 1 and r[0].lineno < fwd[0].lineno, '', ctx.where(fn))
    # ---- lists ---------------------------------------------------------------------------------------------
    fl_ = ctx.fn(ARR + ':Arrays._from_list')
    tl_ = ctx.fn(ARR + ':Arrays._to_list')
    bases = set()
    for fn in (fl_, tl_):
        for x in own_nodes(fn):
            if isinstance(x, ast.BoolOp) and isinstance(x.op, ast.Or) and norm(x.values[0]) == 'self._base':
                bases.add(norm(x))
    rep.ob('lists.same-lower-bound', 'from_list and to_list count from the same lower bound', bases == {'self._base or 0'}, repr(sorted(bases)), ARR)
    idx_w = [norm(a) for c in _calls(fl_, lambda t: t in ('self.set', 'self._from_list')) for a in c.args if norm(a).startswith('index +')]
    rep.ob('lists.writer-index', 'element i of a (sub)list goes to subscript base + i', sorted(set(idx_w)) == ['index + [i + (self._base or 0)]'] and len(idx_w) == 2, repr(idx_w), ctx.where(fl_))
    rng = [norm(g.iter) for c in own_nodes(tl_) if isinstance(c, ast.ListComp) for g in c.generators]
    rep.ob('lists.reader-range', 'to_list reads subscripts base .. bound inclusive in every dimension',
           rng == ['range(self._base or 0, remaining_dimensions[0] + 1)'] * 2, repr(rng), ctx.where(tl_))
    rec = [norm(c) for c in _calls(tl_, lambda t: t == 'self._to_list')]
    rep.ob('lists.same-dimension-order', 'both recurse outermost dimension first', rec == ['self._to_list(name, index + [i], remaining_dimensions[1:])']
           and any(norm(c.args[0]) == 'v' for c in _calls(fl_, lambda t: t == 'self._from_list')), repr(rec), ctx.where(tl_))
    wv = _calls(fl_, lambda t: t == 'self._values.from_value')
    rv = [c for c in own_nodes(tl_) if isinstance(c, ast.Call) and isinstance(c.func, ast.Attribute) and c.func.attr == 'to_value']
    rep.ob('lists.element-conversion', 'elements are written with from_value(v, sigil) and read with to_value()',
           len(wv) == 1 and [norm(a) for a in wv[0].args] == ['v', 'name[-1:]'] and len(rv) == 1 and norm(rv[0].func.value) == 'self.get(name, index + [i])', '', ARR)
    # ---- converter table -----------------------------------------------------------------------------------------
    gc = ctx.fn(IMPL + ':Implementation.get_converter')
    tables = [a.value for a in own_nodes(gc) if isinstance(a, ast.Assign) and norm(a.targets[0]) == 'converter' and isinstance(a.value, ast.Dict)]
    tab = dict((norm(k), norm(v)) for k, v in zip(tables[0].keys, tables[0].values)) if len(tables) == 1 else {}
    rep.ob('convert.codepage-pair', 'bytes -> unicode and unicode -> bytes use the two directions of the codepage',
           tab.get('(bytes, text_type)', '').startswith('partial(self.codepage.bytes_to_unicode') and tab.get('(text_type, bytes)') == 'self.codepage.unicode_to_bytes', repr(tab), ctx.where(gc))
    rep.ob('convert.bool-pair', 'bool -> int gives -1 / 0 (as set_variable stores it) and int -> bool is truthiness',
           tab.get('(bool, int)') == 'lambda _bool: -1 if _bool else 0' and tab.get('(int, bool)') == 'bool', repr(tab.get('(bool, int)')), ctx.where(gc))
    flg = ctx.flow(gc)
    idr = [r for r in own_nodes(gc) if isinstance(r, ast.Return) and isinstance(r.value, ast.Lambda) and r.value.args.args and isinstance(r.value.body, ast.Name) and r.value.body.id == r.value.args.args[0].arg]
    rep.ob('convert.identity', 'no target type, or the same type, converts nothing', len(idr) == 1 and flg.knows(idr[0], 'to_type is None or from_type == to_type', True), '', ctx.where(gc))
    ve = [r for r in own_nodes(gc) if isinstance(r, ast.Raise) and norm(r.exc).startswith('ValueError(')]
    rep.ob('convert.unknown-pair', 'an unsupported pair raises ValueError', len(ve) == 1 and flg.in_try_catching(ve[0], ()) is None, '', ctx.where(gc))
    # ---- evaluate --------------------------------------------------------------------------------------------------
    ev = ctx.fn(IMPL + ':Implementation.evaluate')
    fle = ctx.flow(ev)
    tok = _calls(ev, lambda t: t == 'self.tokeniser.tokenise_line')
    ret = [r for r in own_nodes(ev) if isinstance(r, ast.Return) and r.value is not None and norm(r.value) == 'val.to_value()']
    rep.ob('evaluate.shape', 'evaluate parses `?` + expression inside the exception boundary and returns to_value() of the result',
           len(tok) == 1 and norm(tok[0].args[0]) == "b'?' + expression" and len(ret) == 1 and any('_handle_exceptions' in w for w in fle.with_items(ret[0])), '', ctx.where(ev))


def variants(ctx):
    Va = mu.Variant

    def t(dotted, f):
        return lambda tree: f(mu.find_def(tree, dotted))
    return [
        Va('string-of-255-refused', 'break', 'pcbasic/basic/values/strings.py',
           t('StringSpace.store', lambda f: mu.replace_expr(f, mu.text_is('length > 255'), 'length >= 255')), expect='shared.store.too-long'),
        Va('float-set-without-normalisation', 'break', 'pcbasic/basic/values/numbers.py',
           t('Float.from_value', lambda f: mu.remove_stmt(f, mu.stmt_has('self._bring_to_range(', ast.Assign))), expect='shared.'),
        Va('conversion-after-split', 'break', IMPL, t('Implementation.set_variable', _conv_scalar_only), expect='set.one-conversion'),
        Va('conversion-forgets-lists', 'break', IMPL,
           t('Implementation._to_basic_type', lambda f: mu.remove_stmt(f, lambda st: isinstance(st, ast.If) and 'isinstance(value, list)' in norm(st.test)) or _drop_first_branch(f)),
           expect='set.conversion-cases'),
        Va('true-stored-as-one', 'break', IMPL, t('Implementation._to_basic_type', lambda f: mu.replace_expr(f, mu.text_is('-1 if value else 0'), '1 if value else 0')), expect='set.conversion-cases'),
        Va('get-does-not-uppercase', 'break', IMPL, t('Implementation.get_variable', lambda f: mu.remove_stmt(f, mu.text_is('name = name.upper()'))), expect='names.upper'),
        Va('to-list-starts-at-zero', 'break', ARR, t('Arrays._to_list', lambda f: mu.replace_expr(f, mu.text_is('self._base or 0'), '0', count=2)), expect='lists.'),
        Va('from-list-ignores-base', 'break', ARR, t('Arrays._from_list', lambda f: mu.replace_expr(f, mu.text_is('i + (self._base or 0)'), 'i', count=2)), expect='lists.'),
        Va('to-list-drops-last', 'break', ARR, t('Arrays._to_list', lambda f: mu.replace_expr(f, mu.text_is('remaining_dimensions[0] + 1'), 'remaining_dimensions[0]', count=2)), expect='lists.reader-range'),
        Va('bool-converter-plus-one', 'break', IMPL,
           t('Implementation.get_converter', lambda f: mu.replace_expr(f, lambda n: isinstance(n, ast.Lambda) and norm(n.body) == '-1 if _bool else 0', 'lambda _bool: 1 if _bool else 0')),
           expect='convert.bool-pair'),
        Va('api-set-accepts-missing-sigil', 'break', API,
           t('Session.set_variable', lambda f: mu.remove_stmt(f, lambda st: isinstance(st, ast.If) and 'SIGILS' in norm(st.test))), expect='names.explicit-sigil'),
        Va('evaluate-outside-boundary', 'break', IMPL, t('Implementation.evaluate', _unwrap_with), expect='evaluate.shape'),
        Va('neutral-rename', 'neutral', ARR, t('Arrays._from_list', lambda f: mu.rename_local(f, 'v', 'item'))),
    ]


def _conv_scalar_only(f):
    conv = [a for a in f.body if isinstance(a, ast.Assign) and norm(a.targets[0]) == 'value']
    split = [s for s in f.body if isinstance(s, ast.If)]
    if len(conv) != 1 or len(split) != 1:
        return False
    f.body.remove(conv[0])
    split[0].orelse.insert(0, conv[0])
    return True


def _drop_first_branch(f):
    return False


def _unwrap_with(f):
    for i, st in enumerate(f.body):
        if isinstance(st, ast.With):
            f.body[i:i + 1] = st.body
            return True
    return False
